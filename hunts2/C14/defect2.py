"""
C14 / defect 2: the id-keyed instance index is trusted without checking that the wrapper it returns still wraps the
object that was asked for.  The only live Symbol instances that are not registered when they are created are
instances of Predicate (update_cache skips them); they are wrapped on demand by ensure_wrapped_instance.  If such an
instance gets the id of an instance that died earlier and was not swept yet, the relation is attached to the dead
node: it is never visible and disappears with the next sweep.  On a fresh graph the same assertion is recorded.

Run:  cd /tmp/hunt2/C14 && PYTHONPATH=/repo/src:/tmp/hunt2/C14 /venv/bin/python HUNT/defect2.py
"""
from __future__ import annotations

import sys
from dataclasses import dataclass, field

from typing_extensions import List

from krrood.entity_query_language.predicate import Symbol, Predicate
from krrood.entity_query_language.symbol_graph import SymbolGraph
from krrood.ontomatic.property_descriptor.property_descriptor import PropertyDescriptor


@dataclass(eq=False)
class Check(Predicate):
    """A predicate instance: a Symbol, but not registered in the symbol graph when it is created."""

    label: str

    def __call__(self) -> bool:
        return True


@dataclass(eq=False)
class Note(Symbol):
    """Some other symbol; its instances only serve as garbage."""

    label: str


@dataclass(eq=False)
class Task(Symbol):
    name: str
    checks: List[Check] = field(default_factory=list)


@dataclass
class HasCheck(PropertyDescriptor): ...


Task.checks = HasCheck(Task, "checks")


def run(with_garbage_prefix: bool, attempts: int = 50):
    """
    Every attempt starts from a fresh, empty graph.

    :return: for every attempt the number of relations task -> check that the graph reports after
     task.checks.append(check)
    """
    counts = []
    keep_alive = []
    for i in range(attempts):
        SymbolGraph().clear()
        graph = SymbolGraph()
        task = Task(f"task{i}")
        if with_garbage_prefix:
            # an instance is created and dropped; it dies at once (no cycle), its node waits for the next sweep
            Note(f"note{i}")
        check = Check(f"check{i}")  # may get the address of the dead note
        task.checks.append(check)
        counts.append(
            len(
                [
                    r
                    for r in graph.get_outgoing_relations(task)
                    if r.target.instance is check
                ]
            )
        )
        keep_alive.append((task, check))
    return counts


fresh = run(False)
after_garbage = run(True)
print("assertion: task.checks.append(check), then count the relations task -> check in the graph")
print("expected (no garbage before) : every attempt records 1 relation ->", set(fresh))
print(
    "got after a dead instance    : attempts with 0 relations:",
    after_garbage.count(0),
    "of",
    len(after_garbage),
)
if set(fresh) == {1} and 0 in after_garbage:
    print(
        "VIOLATION: the relation was attached to the node of the dead instance whose id the new instance reuses"
    )
    sys.exit(1)
sys.exit(0)
