"""
C14 / defect 1: a shallow copy of an instance that was created, touched and garbage-collected earlier leaves a dead
owner reference behind in the managed container of the ORIGINAL instance.  A later assignment to the managed field of
the original (company.members = {person}) stores the value but records no relation and draws no inference.

Run:  cd /tmp/hunt2/C14 && PYTHONPATH=/repo/src:/tmp/hunt2/C14 /venv/bin/python HUNT/defect1.py
"""
from __future__ import annotations

import copy
import gc
import sys
from dataclasses import dataclass, field

from typing_extensions import List, Set, Type

from krrood.entity_query_language.predicate import Symbol
from krrood.entity_query_language.symbol_graph import SymbolGraph
from krrood.ontomatic.property_descriptor.mixins import HasInverseProperty
from krrood.ontomatic.property_descriptor.property_descriptor import PropertyDescriptor


@dataclass(eq=False)
class Company(Symbol):
    name: str
    members: Set[Person] = field(default_factory=set)


@dataclass(eq=False)
class Person(Symbol):
    name: str
    member_of: List[Company] = field(default_factory=list)


@dataclass
class Member(PropertyDescriptor, HasInverseProperty):
    @classmethod
    def get_inverse(cls) -> Type[MemberOf]:
        return MemberOf


@dataclass
class MemberOf(PropertyDescriptor, HasInverseProperty):
    @classmethod
    def get_inverse(cls) -> Type[Member]:
        return Member


Company.members = Member(Company, "members")
Person.member_of = MemberOf(Person, "member_of")


def run(prefix: str):
    """
    The assertion sequence is always the same: company.members = {person}.
    prefix 'none'      : nothing happened before
    prefix 'dead copy' : a shallow copy of the company was made, its field was read once, and the copy was dropped
                         and garbage collected
    prefix 'live copy' : same, but the copy is still alive (shows where the relation goes instead)
    """
    SymbolGraph().clear()
    graph = SymbolGraph()
    company = Company("ACME")
    clone = None
    if prefix != "none":
        clone = copy.copy(company)  # registered as an instance of its own by Symbol.__new__
        clone.members  # a read access of the managed field of the copy
        if prefix == "dead copy":
            del clone
            clone = None
            gc.collect()
            graph.remove_dead_instances()  # even a sweep does not help
    person = Person("Ann")
    company.members = {person}
    observed = dict(
        value_stored=any(m is person for m in company.members),
        relation_company_to_person=[
            (r.wrapped_field.name, r.inferred)
            for r in graph.get_outgoing_relations(company)
            if r.target.instance is person
        ],
        inverse_inferred_person_member_of_company=any(
            c is company for c in person.member_of
        ),
    )
    if clone is not None:
        observed["relation_attached_to_the_copy_instead"] = any(
            r.target.instance is person for r in graph.get_outgoing_relations(clone)
        )
        observed["person_member_of_the_copy"] = any(
            c is clone for c in person.member_of
        )
    return observed


fresh = run("none")
after_dead_copy = run("dead copy")
after_live_copy = run("live copy")

print("assertion sequence: company.members = {person}")
print("expected (fresh graph)            :", fresh)
print("got after a dead shallow copy     :", after_dead_copy)
print("got while a shallow copy is alive :", after_live_copy)

violated = False
if after_dead_copy != fresh:
    print(
        "VIOLATION: after a copy of the company lived and died, the assignment records no relation and "
        "infers nothing (person.member_of stays empty), although the value is stored in company.members"
    )
    violated = True
if {k: after_live_copy[k] for k in fresh} != fresh:
    print(
        "VIOLATION (live variant): the relation of the assignment to `company` is attached to the copy: "
        "the person becomes a member of the copy, not of the company"
    )
    violated = True
sys.exit(1 if violated else 0)
