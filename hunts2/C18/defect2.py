"""
C18 defect 2: the built-in UUID deserializer does not accept the keyword arguments that from_json hands to every
registered deserializer.

JSONSerializableTypeRegistry documents "Signature of functions must be like SubclassJSONSerializer._from_json"
(data, **kwargs) and from_json calls `registered_json_deserializer(data, **kwargs)`, but deserialize_uuid is
`def deserialize_uuid(data)`.  So a UUID cannot be deserialised whenever keyword arguments are in play, e.g. an object
that forwards its kwargs to its members (the usual way to hand a context object down a tree).
"""
import json
import sys
import uuid
from dataclasses import dataclass

from krrood.adapters.json_serializer import SubclassJSONSerializer, to_json, from_json


@dataclass
class Named(SubclassJSONSerializer):
    """Needs a context ('registry') and forwards it to whatever it contains."""

    identifier: uuid.UUID
    registry: str = ""

    def to_json(self):
        return {**super().to_json(), "identifier": to_json(self.identifier)}

    @classmethod
    def _from_json(cls, data, **kwargs):
        return cls(
            identifier=from_json(data["identifier"], **kwargs),
            registry=kwargs["registry"],
        )


def round_trip(value, **kwargs):
    return from_json(json.loads(json.dumps(to_json(value))), **kwargs)


failures = 0
for label, value in [
    ("a UUID", uuid.UUID(int=1)),
    ("object holding a UUID", Named(uuid.UUID(int=2), "r")),
]:
    print(f"{label:24}: expected {value!r}")
    try:
        got = round_trip(value, registry="r")
    except Exception as error:
        print(f"{'':24}  got      {type(error).__name__}: {error}")
        failures += 1
        continue
    print(f"{'':24}  got      {got!r}")
    failures += got != value

# the same UUID inside a list "works" - only because of defect 1 (the list branch drops the kwargs)
print("list of a UUID with kwargs:", round_trip([uuid.UUID(int=1)], registry="r"))

sys.exit(1 if failures else 0)
