"""
C18 borderline ("registered third-party types"): the registry is looked up with the exact type only, so registering a
third-party base class whose instances always belong to a subclass (pathlib.Path -> PosixPath / WindowsPath) has no
effect, on either side (to_json: get_serializer(type(obj)); from_json: get_deserializer(target_cls)).
"""
import json
import pathlib
import sys

from krrood.adapters.json_serializer import (
    JSONSerializableTypeRegistry,
    JSON_TYPE_NAME,
    to_json,
    from_json,
)
from krrood.utils import get_full_class_name

JSONSerializableTypeRegistry().register(
    pathlib.Path,
    lambda obj: {JSON_TYPE_NAME: get_full_class_name(type(obj)), "path": str(obj)},
    lambda data, **kwargs: pathlib.Path(data["path"]),
)
value = [pathlib.Path("/tmp/x")]
print("expected:", value)
try:
    got = from_json(json.loads(json.dumps(to_json(value))))
except Exception as error:
    print("got     :", type(error).__name__, "-", error)
    sys.exit(1)
print("got     :", got)
sys.exit(0 if got == value else 1)
