"""
C18 borderline ("any nesting depth of lists"): from_json needs two Python frames per list level (module function ->
classmethod), to_json one, the json module none.  Lists nested about 500..990 deep are therefore serialised to JSON text
without complaint (and would be written to a JSON column) but cannot be read back.  Same family as the already recorded
recursion-limit findings, listed only because the quantifier names the nesting depth explicitly.
"""
import json
import sys

from krrood.adapters.json_serializer import to_json, from_json


def nested(depth):
    value = []
    for _ in range(depth):
        value = [value]
    return value


failures = 0
for depth in (100, 400, 600, 900):
    value = nested(depth)
    text = json.dumps(to_json(value))
    loaded = json.loads(text)
    try:
        outcome = "ok" if from_json(loaded) == value else "DIFFERENT"
    except RecursionError:
        outcome = "RecursionError in from_json (to_json, json.dumps and json.loads were fine)"
        failures += 1
    print(f"depth {depth:4}: {outcome}")
sys.exit(1 if failures else 0)
