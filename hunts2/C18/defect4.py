"""
C18 defect 4: a registered type whose fully qualified name (module + qualified name, the tag the library's own UUID
serialiser writes via get_full_class_name) is not an importable path can be serialised but never deserialised.

The registry is keyed by the type OBJECT, but from_json insists on finding the class by importing the tag before it
looks into the registry.  For every type whose __module__.__qualname__ is not an attribute path
(types.FunctionType -> 'builtins.function', types.MappingProxyType -> 'builtins.mappingproxy',
types.MethodType -> 'builtins.method', ...) that fails with ClassNotFoundError although a deserializer is registered.
"""
import json
import sys
import types

from krrood.adapters.json_serializer import (
    JSONSerializableTypeRegistry,
    JSON_TYPE_NAME,
    to_json,
    from_json,
)
from krrood.utils import get_full_class_name


def serialize_mapping_proxy(obj):
    return {
        JSON_TYPE_NAME: get_full_class_name(type(obj)),  # exactly what serialize_uuid does
        "items": [[to_json(k), to_json(v)] for k, v in obj.items()],
    }


def deserialize_mapping_proxy(data, **kwargs):
    return types.MappingProxyType({from_json(k): from_json(v) for k, v in data["items"]})


JSONSerializableTypeRegistry().register(
    types.MappingProxyType, serialize_mapping_proxy, deserialize_mapping_proxy
)

value = [types.MappingProxyType({"a": 1})]
text = json.dumps(to_json(value))
print("serialised :", text)
print("expected   :", value)
try:
    got = from_json(json.loads(text))
except Exception as error:
    print("got        :", type(error).__name__, "-", error)
    sys.exit(1)
print("got        :", got)
sys.exit(0 if got == value and type(got[0]) is types.MappingProxyType else 1)
