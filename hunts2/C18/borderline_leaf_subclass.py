"""
C18 borderline ("every object comes back as an instance of exactly its original class"): an UNREGISTERED subclass of a
leaf / list type is accepted silently by to_json and comes back as the builtin, while every other unregistered type is
refused with ClassNotSerializableError (numpy.int64 is refused, numpy.float64 is silently turned into float).
"""
import collections
import enum
import json
import sys

from krrood.adapters.json_serializer import to_json, from_json, ClassNotSerializableError


class Name(str):
    pass


class Colour(enum.IntEnum):
    RED = 1


Point = collections.namedtuple("Point", "x y")

values = [Name("x"), Colour.RED, Point(1, 2)]
try:
    import numpy

    values += [numpy.float64(1.5), numpy.int64(1)]
except ImportError:
    pass

failures = 0
for value in values:
    try:
        got = from_json(json.loads(json.dumps(to_json(value))))
    except ClassNotSerializableError as error:
        print(f"{type(value).__name__:10}: refused loudly ({error}) - fine")
        continue
    same = type(got) is type(value)
    print(f"{type(value).__name__:10}: expected {type(value).__name__} or an error, got {type(got).__name__} {got!r}")
    failures += not same
sys.exit(1 if failures else 0)
