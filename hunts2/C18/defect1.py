"""
C18 defect 1: from_json drops its keyword arguments when the data is a list.

A SubclassJSONSerializer whose _from_json needs a keyword argument (the pattern of the test suite's
ClassThatNeedsKWARGS / test_with_kwargs) round-trips on its own, but a LIST of such objects does not:
the keyword arguments given to from_json never reach the elements.
"""
import json
import sys
from dataclasses import dataclass

from krrood.adapters.json_serializer import SubclassJSONSerializer, to_json, from_json


@dataclass
class NeedsContext(SubclassJSONSerializer):
    a: int
    b: float = 0.0

    def to_json(self):
        return {**super().to_json(), "a": self.a}

    @classmethod
    def _from_json(cls, data, **kwargs):
        return cls(a=data["a"], b=kwargs["b"])


def round_trip(value, **kwargs):
    return from_json(json.loads(json.dumps(to_json(value))), **kwargs)


single = NeedsContext(1, 2.0)
assert round_trip(single, b=2.0) == single  # the documented use: fine
print("single object with b=2.0      : ok")

failures = 0
for label, value in [
    ("list of one", [single]),
    ("nested list", [[single], []]),
]:
    print(f"{label:30}: expected {value!r}")
    try:
        got = round_trip(value, b=2.0)
    except Exception as error:
        print(f"{'':30}  got      {type(error).__name__}: {error}")
        failures += 1
        continue
    print(f"{'':30}  got      {got!r}")
    failures += got != value

sys.exit(1 if failures else 0)
