"""
C18 borderline (history): the UUID (de)serialiser is registered once, when the module is imported, on the singleton
instance of that moment.  SingletonMeta.clear_instance() - the public way to reset a singleton - therefore removes UUID
support for the rest of the process.
"""
import json
import sys
import uuid

from krrood.adapters.json_serializer import JSONSerializableTypeRegistry, to_json, from_json

value = [uuid.UUID(int=1)]
assert from_json(json.loads(json.dumps(to_json(value)))) == value
JSONSerializableTypeRegistry.clear_instance()
print("expected:", value)
try:
    got = from_json(json.loads(json.dumps(to_json(value))))
except Exception as error:
    print("got     :", type(error).__name__, "-", error)
    sys.exit(1)
print("got     :", got)
sys.exit(0 if got == value else 1)
