"""
C18 defect 3 (error path, interaction of two repairs): a type tag with three or more parts whose first part is a module
that ends with sys.exit() terminates the caller with SystemExit instead of raising UnknownModuleError.

from_json catches (Exception, SystemExit) around its own import_module call, then falls back to
_resolve_enclosing_class (the repair for classes defined inside classes), which imports the shorter prefixes again but
only catches Exception.  With the two-part tag 'exiting_mod.A' the documented UnknownModuleError is raised; with
'exiting_mod.A.B' SystemExit escapes.
"""
import os
import sys
import tempfile

from krrood.adapters.json_serializer import (
    from_json,
    JSON_TYPE_NAME,
    JSONSerializationError,
)

directory = tempfile.mkdtemp()
with open(os.path.join(directory, "exiting_mod_c18.py"), "w") as file:
    file.write("import sys\nsys.exit(3)\n")
sys.path.insert(0, directory)

failures = 0
for tag in ("exiting_mod_c18.A", "exiting_mod_c18.A.B"):
    try:
        from_json({JSON_TYPE_NAME: tag, "x": 1})
        outcome = "no error"
    except JSONSerializationError as error:
        outcome = f"documented {type(error).__name__}"
    except BaseException as error:
        outcome = f"UNDOCUMENTED {type(error).__name__}({error})"
        failures += 1
    print(f"{tag:24}: expected UnknownModuleError, got {outcome}")

sys.exit(1 if failures else 0)
