"""
defect 9 - names that only differ in case collide in the association tables

Clause: "whose schema can be created" (name derivation for association tables).
Association tables and their two columns are named after tablename.lower(). Two classes whose names differ only in case
(Ab / AB, e.g. an abbreviation next to a word) with a collection of the same name give one table name twice; a collection
of the other class gives an association table with two identically named columns (the same failure as the known
"List of its own type", reached without any self reference).
"""
import importlib
import os
import sys
import tempfile
import textwrap
import traceback
import warnings

warnings.simplefilter("ignore")

from sqlalchemy import inspect as sa_inspect
from sqlalchemy.orm import configure_mappers

from krrood.class_diagrams.class_diagram import ClassDiagram
from krrood.ormatic.ormatic import ORMatic
from krrood.ormatic.utils import create_engine

_directory = tempfile.mkdtemp(prefix="c06_defect_")
sys.path.insert(0, _directory)


def write_module(name: str, source: str):
    """Write a model module into a scratch directory and import it."""
    with open(os.path.join(_directory, name + ".py"), "w") as f:
        f.write(textwrap.dedent(source))
    return importlib.import_module(name)


def generate(classes, interface_name: str, **ormatic_kwargs):
    """The documented workflow: ClassDiagram -> ORMatic -> make_all_tables -> to_sqlalchemy_file, then import the
    module, configure the mappers and create the schema."""
    ormatic = ORMatic(ClassDiagram(classes), **ormatic_kwargs)
    ormatic.make_all_tables()
    path = os.path.join(_directory, interface_name + ".py")
    with open(path, "w") as f:
        ormatic.to_sqlalchemy_file(f)
    interface = importlib.import_module(interface_name)
    configure_mappers()
    interface.Base.metadata.create_all(create_engine("sqlite:///:memory:"))
    return interface


def columns_of(dao):
    return sorted(a.key for a in sa_inspect(dao).column_attrs)


def relationships_of(dao):
    return {r.key: r.uselist for r in sa_inspect(dao).relationships}


def attempt(classes, interface_name, **kwargs):
    """:return: (interface, None) or (None, the exception)"""
    try:
        return generate(classes, interface_name, **kwargs), None
    except BaseException as e:
        traceback.print_exc(limit=2)
        return None, e


model = write_module("d9_model", """
    from __future__ import annotations
    from dataclasses import dataclass, field
    from typing import List

    @dataclass
    class Item:
        value: int = 0

    @dataclass
    class Io:
        items: List[Item] = field(default_factory=list)

    @dataclass
    class IO:
        items: List[Item] = field(default_factory=list)
""")
other = write_module("d9_model_b", """
    from __future__ import annotations
    from dataclasses import dataclass, field
    from typing import List

    @dataclass
    class IO:
        value: int = 0

    @dataclass
    class Io:
        channels: List[IO] = field(default_factory=list)
""")

failed = False
print("--- two classes Io / IO, each with a collection 'items'")
interface, error = attempt([model.Item, model.Io, model.IO], "d9_interface_a")
print("expected: IoDAO.items and IODAO.items are relationships over two association tables")
if error is not None:
    print(f"got     : {type(error).__name__}: {str(error)[:200]}")
    failed = True
print("--- Io holds a list of IO")
interface, error = attempt([other.IO, other.Io], "d9_interface_b")
print("expected: IoDAO.channels is a relationship to IODAO")
if error is not None:
    print(f"got     : {type(error).__name__}: {str(error)[:200]}")
    failed = True
sys.exit(1 if failed else 0)
