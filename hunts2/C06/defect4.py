"""
defect 4 - a collection of enums (or of any class that is not mapped) aborts the generation

Clause: "generates a module ..." for a model inside the documented rules (enum fields, non-optional non-nested iterables).
A single field of a type that is neither builtin, mapped nor type-mapped is skipped ("Skipping due to not handled type"),
a List of the same type raises ClassIsUnMappedInClassDiagram out of make_all_tables(): get_table_of_wrapped_field() only
translates KeyError, and ClassIsUnMappedInClassDiagram is not a KeyError.
"""
import importlib
import os
import sys
import tempfile
import textwrap
import traceback
import warnings

warnings.simplefilter("ignore")

from sqlalchemy import inspect as sa_inspect
from sqlalchemy.orm import configure_mappers

from krrood.class_diagrams.class_diagram import ClassDiagram
from krrood.ormatic.ormatic import ORMatic
from krrood.ormatic.utils import create_engine

_directory = tempfile.mkdtemp(prefix="c06_defect_")
sys.path.insert(0, _directory)


def write_module(name: str, source: str):
    """Write a model module into a scratch directory and import it."""
    with open(os.path.join(_directory, name + ".py"), "w") as f:
        f.write(textwrap.dedent(source))
    return importlib.import_module(name)


def generate(classes, interface_name: str, **ormatic_kwargs):
    """The documented workflow: ClassDiagram -> ORMatic -> make_all_tables -> to_sqlalchemy_file, then import the
    module, configure the mappers and create the schema."""
    ormatic = ORMatic(ClassDiagram(classes), **ormatic_kwargs)
    ormatic.make_all_tables()
    path = os.path.join(_directory, interface_name + ".py")
    with open(path, "w") as f:
        ormatic.to_sqlalchemy_file(f)
    interface = importlib.import_module(interface_name)
    configure_mappers()
    interface.Base.metadata.create_all(create_engine("sqlite:///:memory:"))
    return interface


def columns_of(dao):
    return sorted(a.key for a in sa_inspect(dao).column_attrs)


def relationships_of(dao):
    return {r.key: r.uselist for r in sa_inspect(dao).relationships}


def attempt(classes, interface_name, **kwargs):
    """:return: (interface, None) or (None, the exception)"""
    try:
        return generate(classes, interface_name, **kwargs), None
    except BaseException as e:
        traceback.print_exc(limit=2)
        return None, e


model = write_module("d4_model", """
    from dataclasses import dataclass, field
    from enum import Enum
    from typing import List

    class Color(Enum):
        RED = 1
        GREEN = 2

    @dataclass
    class Palette:
        name: str = ""
        main: Color = Color.RED
        colors: List[Color] = field(default_factory=list)
""")

interface, error = attempt([model.Palette], "d4_interface")
print("expected: a module with PaletteDAO (columns name, main and a JSON column colors - or at least colors skipped)")
if error is not None:
    print(f"got     : generation failed with {type(error).__name__}: {error}")
    sys.exit(1)
print("got     :", columns_of(interface.PaletteDAO))
sys.exit(0)
