"""
defect 8 - Optional[Type[X]] is read as a collection of X

Clause: "a column for every ... custom-typed field" (Type[...] fields are stored through TypeType).
WrappedTable.create_type_type_column() has a branch for optional fields, but it can never be reached:
WrappedField.is_type_type looks at get_origin(resolved_type), which is Union for Optional[Type[X]]. The field then counts as
a container (type is in WrappedField.container_types) of X: with X mapped it becomes a many-to-many relationship to XDAO,
with X not mapped make_all_tables() raises ClassIsUnMappedInClassDiagram.
"""
import importlib
import os
import sys
import tempfile
import textwrap
import traceback
import warnings

warnings.simplefilter("ignore")

from sqlalchemy import inspect as sa_inspect
from sqlalchemy.orm import configure_mappers

from krrood.class_diagrams.class_diagram import ClassDiagram
from krrood.ormatic.ormatic import ORMatic
from krrood.ormatic.utils import create_engine

_directory = tempfile.mkdtemp(prefix="c06_defect_")
sys.path.insert(0, _directory)


def write_module(name: str, source: str):
    """Write a model module into a scratch directory and import it."""
    with open(os.path.join(_directory, name + ".py"), "w") as f:
        f.write(textwrap.dedent(source))
    return importlib.import_module(name)


def generate(classes, interface_name: str, **ormatic_kwargs):
    """The documented workflow: ClassDiagram -> ORMatic -> make_all_tables -> to_sqlalchemy_file, then import the
    module, configure the mappers and create the schema."""
    ormatic = ORMatic(ClassDiagram(classes), **ormatic_kwargs)
    ormatic.make_all_tables()
    path = os.path.join(_directory, interface_name + ".py")
    with open(path, "w") as f:
        ormatic.to_sqlalchemy_file(f)
    interface = importlib.import_module(interface_name)
    configure_mappers()
    interface.Base.metadata.create_all(create_engine("sqlite:///:memory:"))
    return interface


def columns_of(dao):
    return sorted(a.key for a in sa_inspect(dao).column_attrs)


def relationships_of(dao):
    return {r.key: r.uselist for r in sa_inspect(dao).relationships}


def attempt(classes, interface_name, **kwargs):
    """:return: (interface, None) or (None, the exception)"""
    try:
        return generate(classes, interface_name, **kwargs), None
    except BaseException as e:
        traceback.print_exc(limit=2)
        return None, e


model = write_module("d8_model", """
    from dataclasses import dataclass
    from typing import Optional, Type

    @dataclass
    class Shape:
        size: int = 0

    @dataclass
    class Factory:
        produces: Type[Shape] = Shape
        fallback: Optional[Type[Shape]] = None
""")

failed = False
print("--- Shape is mapped as well")
interface, error = attempt([model.Shape, model.Factory], "d8_interface_a")
print("expected: FactoryDAO has the columns 'produces' and 'fallback' and no relationship")
if error is not None:
    print(f"got     : {type(error).__name__}: {str(error)[:300]}")
    failed = True
else:
    columns, relationships = columns_of(interface.FactoryDAO), relationships_of(interface.FactoryDAO)
    print("got     : columns", columns, "relationships (name: uselist)", relationships)
    failed = failed or "fallback" not in columns or bool(relationships)

print("--- only Factory is mapped")
interface, error = attempt([model.Factory], "d8_interface_b")
print("expected: FactoryDAO has the columns 'produces' and 'fallback'")
if error is not None:
    print(f"got     : {type(error).__name__}: {str(error)[:300]}")
    failed = True
else:
    columns = columns_of(interface.FactoryDAO)
    print("got     :", columns)
    failed = failed or "fallback" not in columns
sys.exit(1 if failed else 0)
