"""
defect 10 - a field called like one of the helpers the class body calls ('relationship')

Clause: "generates a module that imports".
The generated class body assigns every column to its field name and afterwards *calls* relationship(...), so a scalar field
named 'relationship' (a natural name in a graph / kinship model) shadows the imported function for the rest of the class
body. This is not one of the recorded clashes with generated column names (<x>_id, database_id, polymorphic_type,
metadata): no two columns collide, a field name collides with a name the template uses unqualified.
"""
import importlib
import os
import sys
import tempfile
import textwrap
import traceback
import warnings

warnings.simplefilter("ignore")

from sqlalchemy import inspect as sa_inspect
from sqlalchemy.orm import configure_mappers

from krrood.class_diagrams.class_diagram import ClassDiagram
from krrood.ormatic.ormatic import ORMatic
from krrood.ormatic.utils import create_engine

_directory = tempfile.mkdtemp(prefix="c06_defect_")
sys.path.insert(0, _directory)


def write_module(name: str, source: str):
    """Write a model module into a scratch directory and import it."""
    with open(os.path.join(_directory, name + ".py"), "w") as f:
        f.write(textwrap.dedent(source))
    return importlib.import_module(name)


def generate(classes, interface_name: str, **ormatic_kwargs):
    """The documented workflow: ClassDiagram -> ORMatic -> make_all_tables -> to_sqlalchemy_file, then import the
    module, configure the mappers and create the schema."""
    ormatic = ORMatic(ClassDiagram(classes), **ormatic_kwargs)
    ormatic.make_all_tables()
    path = os.path.join(_directory, interface_name + ".py")
    with open(path, "w") as f:
        ormatic.to_sqlalchemy_file(f)
    interface = importlib.import_module(interface_name)
    configure_mappers()
    interface.Base.metadata.create_all(create_engine("sqlite:///:memory:"))
    return interface


def columns_of(dao):
    return sorted(a.key for a in sa_inspect(dao).column_attrs)


def relationships_of(dao):
    return {r.key: r.uselist for r in sa_inspect(dao).relationships}


def attempt(classes, interface_name, **kwargs):
    """:return: (interface, None) or (None, the exception)"""
    try:
        return generate(classes, interface_name, **kwargs), None
    except BaseException as e:
        traceback.print_exc(limit=2)
        return None, e


model = write_module("d10_model", """
    from __future__ import annotations
    from dataclasses import dataclass
    from typing import Optional

    @dataclass
    class Person:
        name: str = ""

    @dataclass
    class Kinship:
        relationship: str = "sibling"
        of: Optional[Person] = None
""")

interface, error = attempt([model.Person, model.Kinship], "d10_interface")
print("expected: KinshipDAO with the column 'relationship' and the relationship 'of'")
if error is not None:
    print(f"got     : {type(error).__name__}: {str(error)[:200]}")
    sys.exit(1)
print("got     :", columns_of(interface.KinshipDAO), relationships_of(interface.KinshipDAO))
sys.exit(0)
