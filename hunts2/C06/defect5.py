"""
defect 5 - InheritanceStrategy.SINGLE: still joined tables, and the mappers cannot be configured

Clause: "whose mappers configure" - quantified over configurations.
ORMatic(inheritance_strategy=InheritanceStrategy.SINGLE) changes exactly one thing: the 'inherit_condition' mapper
argument is left out. Every DAO keeps its own __tablename__ and a ForeignKey primary key, i.e. it still is joined table
inheritance, and as soon as a subclass references a class of its own hierarchy SQLAlchemy cannot find the inherit condition
any more.
"""
import importlib
import os
import sys
import tempfile
import textwrap
import traceback
import warnings

warnings.simplefilter("ignore")

from sqlalchemy import inspect as sa_inspect
from sqlalchemy.orm import configure_mappers

from krrood.class_diagrams.class_diagram import ClassDiagram
from krrood.ormatic.ormatic import ORMatic
from krrood.ormatic.utils import create_engine

_directory = tempfile.mkdtemp(prefix="c06_defect_")
sys.path.insert(0, _directory)


def write_module(name: str, source: str):
    """Write a model module into a scratch directory and import it."""
    with open(os.path.join(_directory, name + ".py"), "w") as f:
        f.write(textwrap.dedent(source))
    return importlib.import_module(name)


def generate(classes, interface_name: str, **ormatic_kwargs):
    """The documented workflow: ClassDiagram -> ORMatic -> make_all_tables -> to_sqlalchemy_file, then import the
    module, configure the mappers and create the schema."""
    ormatic = ORMatic(ClassDiagram(classes), **ormatic_kwargs)
    ormatic.make_all_tables()
    path = os.path.join(_directory, interface_name + ".py")
    with open(path, "w") as f:
        ormatic.to_sqlalchemy_file(f)
    interface = importlib.import_module(interface_name)
    configure_mappers()
    interface.Base.metadata.create_all(create_engine("sqlite:///:memory:"))
    return interface


def columns_of(dao):
    return sorted(a.key for a in sa_inspect(dao).column_attrs)


def relationships_of(dao):
    return {r.key: r.uselist for r in sa_inspect(dao).relationships}


def attempt(classes, interface_name, **kwargs):
    """:return: (interface, None) or (None, the exception)"""
    try:
        return generate(classes, interface_name, **kwargs), None
    except BaseException as e:
        traceback.print_exc(limit=2)
        return None, e


from krrood.ormatic.utils import InheritanceStrategy

model = write_module("d5_model", """
    from __future__ import annotations
    from dataclasses import dataclass
    from typing import Optional

    @dataclass
    class Node:
        value: int = 0

    @dataclass
    class Branch(Node):
        parent: Optional[Node] = None
""")

interface, error = attempt([model.Node, model.Branch], "d5_interface", inheritance_strategy=InheritanceStrategy.SINGLE)
print("expected: NodeDAO and BranchDAO configure (and share one table under the SINGLE strategy)")
if error is not None:
    print(f"got     : {type(error).__name__}: {str(error)[:300]}")
    sys.exit(1)
tables = sorted(interface.Base.metadata.tables)
print("got     : tables", tables)
sys.exit(0 if tables == ["NodeDAO"] else 1)
