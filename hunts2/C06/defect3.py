"""
defect 3 - lists of builtins whose elements are Optional or datetime silently get no column

Clause: "a column for every public scalar/enum/JSON-list ... field".
List[Optional[B]] of a mapped class B is a relationship since the repair "a declared type is seen through Optional and
container wrappers together"; the builtin neighbour List[Optional[int]] falls through every branch of parse_field and is
dropped without a word. The same happens to List[datetime.datetime] (datetime is a builtin type for scalars,
WrappedField.is_builtin_type, but not for is_collection_of_builtins).
"""
import importlib
import os
import sys
import tempfile
import textwrap
import traceback
import warnings

warnings.simplefilter("ignore")

from sqlalchemy import inspect as sa_inspect
from sqlalchemy.orm import configure_mappers

from krrood.class_diagrams.class_diagram import ClassDiagram
from krrood.ormatic.ormatic import ORMatic
from krrood.ormatic.utils import create_engine

_directory = tempfile.mkdtemp(prefix="c06_defect_")
sys.path.insert(0, _directory)


def write_module(name: str, source: str):
    """Write a model module into a scratch directory and import it."""
    with open(os.path.join(_directory, name + ".py"), "w") as f:
        f.write(textwrap.dedent(source))
    return importlib.import_module(name)


def generate(classes, interface_name: str, **ormatic_kwargs):
    """The documented workflow: ClassDiagram -> ORMatic -> make_all_tables -> to_sqlalchemy_file, then import the
    module, configure the mappers and create the schema."""
    ormatic = ORMatic(ClassDiagram(classes), **ormatic_kwargs)
    ormatic.make_all_tables()
    path = os.path.join(_directory, interface_name + ".py")
    with open(path, "w") as f:
        ormatic.to_sqlalchemy_file(f)
    interface = importlib.import_module(interface_name)
    configure_mappers()
    interface.Base.metadata.create_all(create_engine("sqlite:///:memory:"))
    return interface


def columns_of(dao):
    return sorted(a.key for a in sa_inspect(dao).column_attrs)


def relationships_of(dao):
    return {r.key: r.uselist for r in sa_inspect(dao).relationships}


def attempt(classes, interface_name, **kwargs):
    """:return: (interface, None) or (None, the exception)"""
    try:
        return generate(classes, interface_name, **kwargs), None
    except BaseException as e:
        traceback.print_exc(limit=2)
        return None, e


model = write_module("d3_model", """
    import datetime
    from dataclasses import dataclass, field
    from typing import List, Optional

    @dataclass
    class Series:
        name: str = ""
        plain: List[int] = field(default_factory=list)
        with_gaps: List[Optional[int]] = field(default_factory=list)
        stamps: List[datetime.datetime] = field(default_factory=list)
""")

interface, error = attempt([model.Series], "d3_interface")
if error is not None:
    print("generation failed", error)
    sys.exit(1)
expected = {"database_id", "name", "plain", "with_gaps", "stamps"}
columns = set(columns_of(interface.SeriesDAO))
print("expected columns:", sorted(expected))
print("got columns     :", sorted(columns))
print("missing         :", sorted(expected - columns))
sys.exit(0 if expected <= columns else 1)
