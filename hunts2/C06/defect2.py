"""
defect 2 - List[uuid.UUID] produces a module that cannot be imported

Clause: "generates a module that imports".
krrood.class_diagrams.utils.behaves_like_a_built_in_class() names UUID explicitly, so List[UUID] is dispatched to the JSON
column. The annotation Mapped[typing.List[uuid.UUID]] is written, but `import uuid` is not (the test configuration only
works because it happens to pass a type mapping for uuid.UUID, which imports the module as a side effect).
"""
import importlib
import os
import sys
import tempfile
import textwrap
import traceback
import warnings

warnings.simplefilter("ignore")

from sqlalchemy import inspect as sa_inspect
from sqlalchemy.orm import configure_mappers

from krrood.class_diagrams.class_diagram import ClassDiagram
from krrood.ormatic.ormatic import ORMatic
from krrood.ormatic.utils import create_engine

_directory = tempfile.mkdtemp(prefix="c06_defect_")
sys.path.insert(0, _directory)


def write_module(name: str, source: str):
    """Write a model module into a scratch directory and import it."""
    with open(os.path.join(_directory, name + ".py"), "w") as f:
        f.write(textwrap.dedent(source))
    return importlib.import_module(name)


def generate(classes, interface_name: str, **ormatic_kwargs):
    """The documented workflow: ClassDiagram -> ORMatic -> make_all_tables -> to_sqlalchemy_file, then import the
    module, configure the mappers and create the schema."""
    ormatic = ORMatic(ClassDiagram(classes), **ormatic_kwargs)
    ormatic.make_all_tables()
    path = os.path.join(_directory, interface_name + ".py")
    with open(path, "w") as f:
        ormatic.to_sqlalchemy_file(f)
    interface = importlib.import_module(interface_name)
    configure_mappers()
    interface.Base.metadata.create_all(create_engine("sqlite:///:memory:"))
    return interface


def columns_of(dao):
    return sorted(a.key for a in sa_inspect(dao).column_attrs)


def relationships_of(dao):
    return {r.key: r.uselist for r in sa_inspect(dao).relationships}


def attempt(classes, interface_name, **kwargs):
    """:return: (interface, None) or (None, the exception)"""
    try:
        return generate(classes, interface_name, **kwargs), None
    except BaseException as e:
        traceback.print_exc(limit=2)
        return None, e


model = write_module("d2_model", """
    import uuid
    from dataclasses import dataclass, field
    from typing import List

    @dataclass
    class Batch:
        name: str = ""
        members: List[uuid.UUID] = field(default_factory=list)
""")

interface, error = attempt([model.Batch], "d2_interface")
print("expected: BatchDAO imports, has a JSON column 'members'")
if error is not None:
    print(f"got     : {type(error).__name__}: {str(error)[:300]}")
    sys.exit(1)
columns = columns_of(interface.BatchDAO)
print("got     :", columns)
sys.exit(0 if "members" in columns else 1)
