"""
defect 6 - a dataclass defined inside another class: the generated module cannot be imported

Clause: "generates a module that imports" / "one DAO per class".
The repair "the generated interface refers to a class by its qualified name" changed module_and_class_name(), which is used
for the column annotations (an enum inside a class). The template still writes
DataAccessObject[<module>.<__name__>] for the mapped class itself, and the table name is built from __name__ as well.
"""
import importlib
import os
import sys
import tempfile
import textwrap
import traceback
import warnings

warnings.simplefilter("ignore")

from sqlalchemy import inspect as sa_inspect
from sqlalchemy.orm import configure_mappers

from krrood.class_diagrams.class_diagram import ClassDiagram
from krrood.ormatic.ormatic import ORMatic
from krrood.ormatic.utils import create_engine

_directory = tempfile.mkdtemp(prefix="c06_defect_")
sys.path.insert(0, _directory)


def write_module(name: str, source: str):
    """Write a model module into a scratch directory and import it."""
    with open(os.path.join(_directory, name + ".py"), "w") as f:
        f.write(textwrap.dedent(source))
    return importlib.import_module(name)


def generate(classes, interface_name: str, **ormatic_kwargs):
    """The documented workflow: ClassDiagram -> ORMatic -> make_all_tables -> to_sqlalchemy_file, then import the
    module, configure the mappers and create the schema."""
    ormatic = ORMatic(ClassDiagram(classes), **ormatic_kwargs)
    ormatic.make_all_tables()
    path = os.path.join(_directory, interface_name + ".py")
    with open(path, "w") as f:
        ormatic.to_sqlalchemy_file(f)
    interface = importlib.import_module(interface_name)
    configure_mappers()
    interface.Base.metadata.create_all(create_engine("sqlite:///:memory:"))
    return interface


def columns_of(dao):
    return sorted(a.key for a in sa_inspect(dao).column_attrs)


def relationships_of(dao):
    return {r.key: r.uselist for r in sa_inspect(dao).relationships}


def attempt(classes, interface_name, **kwargs):
    """:return: (interface, None) or (None, the exception)"""
    try:
        return generate(classes, interface_name, **kwargs), None
    except BaseException as e:
        traceback.print_exc(limit=2)
        return None, e


model = write_module("d6_model", """
    from dataclasses import dataclass
    from typing import Optional

    class Robot:
        @dataclass
        class Pose:
            x: float = 0.0

    @dataclass
    class Goal:
        pose: Optional[Robot.Pose] = None
""")

interface, error = attempt([model.Goal, model.Robot.Pose], "d6_interface")
print("expected: PoseDAO and GoalDAO, GoalDAO.pose is a relationship")
if error is not None:
    print(f"got     : {type(error).__name__}: {str(error)[:300]}")
    sys.exit(1)
print("got     :", relationships_of(interface.GoalDAO))
sys.exit(0)
