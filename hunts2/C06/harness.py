"""
Small harness used while hunting: write a model module, run ORMatic over it, import the result, configure the mappers,
create the schema and return the generated module.
"""
import importlib
import os
import sys
import tempfile
import textwrap
import itertools

from krrood.ormatic.utils import create_engine
from sqlalchemy.orm import configure_mappers, clear_mappers

_counter = itertools.count()


def build(model_source: str, class_names=None, order=None, type_mappings=None, alt=None, keep=False,
          ormatic_kwargs=None):
    n = next(_counter)
    directory = tempfile.mkdtemp(prefix="c06_")
    sys.path.insert(0, directory)
    model_name = f"model_{os.getpid()}_{n}"
    with open(os.path.join(directory, model_name + ".py"), "w") as f:
        f.write(textwrap.dedent(model_source))
    model = importlib.import_module(model_name)

    from krrood.class_diagrams.class_diagram import ClassDiagram
    from krrood.ormatic.ormatic import ORMatic
    from krrood.ormatic.utils import classes_of_module

    if class_names is None:
        from dataclasses import is_dataclass
        from krrood.ormatic.dao import AlternativeMapping
        classes = [c for c in classes_of_module(model) if is_dataclass(c) and not issubclass(c, AlternativeMapping)]
    else:
        classes = [getattr(model, c) for c in class_names]
    if order is not None:
        classes = order(classes)
    diagram = ClassDiagram(classes)
    kwargs = dict(ormatic_kwargs or {})
    if type_mappings:
        kwargs["type_mappings"] = type_mappings(model)
    if alt:
        kwargs["alternative_mappings"] = [getattr(model, a) for a in alt]
    ormatic = ORMatic(diagram, **kwargs)
    ormatic.make_all_tables()
    interface_name = f"iface_{os.getpid()}_{n}"
    path = os.path.join(directory, interface_name + ".py")
    with open(path, "w") as f:
        ormatic.to_sqlalchemy_file(f)
    text = open(path).read()
    interface = importlib.import_module(interface_name)
    configure_mappers()
    engine = create_engine("sqlite:///:memory:")
    interface.Base.metadata.create_all(engine)
    return model, interface, text, engine, ormatic
