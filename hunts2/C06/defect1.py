"""
defect 1 - a homogeneous tuple of builtins (Tuple[int, ...]) aborts the generation

Clause: "a column for every public ... JSON-list ... field" / "generates a module that imports".
Tuple is one of WrappedField.container_types, Tuple[B, ...] of a mapped class B becomes a relationship, but Tuple[int, ...]
(the only way to spell "a tuple of ints of any length") raises AttributeError inside make_all_tables().
"""
import importlib
import os
import sys
import tempfile
import textwrap
import traceback
import warnings

warnings.simplefilter("ignore")

from sqlalchemy import inspect as sa_inspect
from sqlalchemy.orm import configure_mappers

from krrood.class_diagrams.class_diagram import ClassDiagram
from krrood.ormatic.ormatic import ORMatic
from krrood.ormatic.utils import create_engine

_directory = tempfile.mkdtemp(prefix="c06_defect_")
sys.path.insert(0, _directory)


def write_module(name: str, source: str):
    """Write a model module into a scratch directory and import it."""
    with open(os.path.join(_directory, name + ".py"), "w") as f:
        f.write(textwrap.dedent(source))
    return importlib.import_module(name)


def generate(classes, interface_name: str, **ormatic_kwargs):
    """The documented workflow: ClassDiagram -> ORMatic -> make_all_tables -> to_sqlalchemy_file, then import the
    module, configure the mappers and create the schema."""
    ormatic = ORMatic(ClassDiagram(classes), **ormatic_kwargs)
    ormatic.make_all_tables()
    path = os.path.join(_directory, interface_name + ".py")
    with open(path, "w") as f:
        ormatic.to_sqlalchemy_file(f)
    interface = importlib.import_module(interface_name)
    configure_mappers()
    interface.Base.metadata.create_all(create_engine("sqlite:///:memory:"))
    return interface


def columns_of(dao):
    return sorted(a.key for a in sa_inspect(dao).column_attrs)


def relationships_of(dao):
    return {r.key: r.uselist for r in sa_inspect(dao).relationships}


def attempt(classes, interface_name, **kwargs):
    """:return: (interface, None) or (None, the exception)"""
    try:
        return generate(classes, interface_name, **kwargs), None
    except BaseException as e:
        traceback.print_exc(limit=2)
        return None, e


model = write_module("d1_model", """
    from dataclasses import dataclass, field
    from typing import Tuple, List

    @dataclass
    class Measurement:
        name: str = ""
        as_list: List[int] = field(default_factory=list)
        values: Tuple[int, ...] = ()
""")

interface, error = attempt([model.Measurement], "d1_interface")
print("expected: MeasurementDAO with JSON columns 'as_list' and 'values'")
if error is not None:
    print(f"got     : generation failed with {type(error).__name__}: {error}")
    sys.exit(1)
columns = columns_of(interface.MeasurementDAO)
print("got     :", columns)
sys.exit(0 if {"as_list", "values"} <= set(columns) else 1)
