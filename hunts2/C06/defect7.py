"""
defect 7 - two classes of the same name in two modules: both become '<Name>DAO'

Clause: "one DAO per class" / "generates a module that imports" (name derivation collision).
WrappedTable.tablename is clazz.__name__ + "DAO"; nothing makes it unique. The second class statement replaces the first
one and redefines the table, the import fails.
"""
import importlib
import os
import sys
import tempfile
import textwrap
import traceback
import warnings

warnings.simplefilter("ignore")

from sqlalchemy import inspect as sa_inspect
from sqlalchemy.orm import configure_mappers

from krrood.class_diagrams.class_diagram import ClassDiagram
from krrood.ormatic.ormatic import ORMatic
from krrood.ormatic.utils import create_engine

_directory = tempfile.mkdtemp(prefix="c06_defect_")
sys.path.insert(0, _directory)


def write_module(name: str, source: str):
    """Write a model module into a scratch directory and import it."""
    with open(os.path.join(_directory, name + ".py"), "w") as f:
        f.write(textwrap.dedent(source))
    return importlib.import_module(name)


def generate(classes, interface_name: str, **ormatic_kwargs):
    """The documented workflow: ClassDiagram -> ORMatic -> make_all_tables -> to_sqlalchemy_file, then import the
    module, configure the mappers and create the schema."""
    ormatic = ORMatic(ClassDiagram(classes), **ormatic_kwargs)
    ormatic.make_all_tables()
    path = os.path.join(_directory, interface_name + ".py")
    with open(path, "w") as f:
        ormatic.to_sqlalchemy_file(f)
    interface = importlib.import_module(interface_name)
    configure_mappers()
    interface.Base.metadata.create_all(create_engine("sqlite:///:memory:"))
    return interface


def columns_of(dao):
    return sorted(a.key for a in sa_inspect(dao).column_attrs)


def relationships_of(dao):
    return {r.key: r.uselist for r in sa_inspect(dao).relationships}


def attempt(classes, interface_name, **kwargs):
    """:return: (interface, None) or (None, the exception)"""
    try:
        return generate(classes, interface_name, **kwargs), None
    except BaseException as e:
        traceback.print_exc(limit=2)
        return None, e


first = write_module("d7_geometry", """
    from dataclasses import dataclass

    @dataclass
    class Point:
        x: float = 0.0
        y: float = 0.0
""")
second = write_module("d7_sales", """
    from dataclasses import dataclass

    @dataclass
    class Point:
        name: str = ""
        bonus: int = 0
""")

interface, error = attempt([first.Point, second.Point], "d7_interface")
print("expected: two DAOs, one for d7_geometry.Point (x, y) and one for d7_sales.Point (name, bonus)")
if error is not None:
    print(f"got     : {type(error).__name__}: {str(error)[:300]}")
    sys.exit(1)
daos = [c for c in vars(interface).values() if isinstance(c, type) and c.__name__.endswith("DAO")]
print("got     :", [(d.__name__, columns_of(d)) for d in daos])
sys.exit(0 if len(daos) == 2 else 1)
