from harness import *
from t1 import check
N=Node
print("---- two refinements")
def per_item(tree):
    items = all_items()
    got,q = run(tree, items)
    d={}
    for l,n in got: d.setdefault(n,[]).append(l)
    return items,d
tree=N("base","a","K0",[N("refinement","b","K1"),N("refinement","c","K2")])
items,d=per_item(tree)
for it in items:
    g=d.get(it.n,[])
    if it.a!=1: exp=[[]]
    elif it.b and it.c: exp=[["K1"],["K2"],["K1","K2"]]
    elif it.b: exp=[["K1"]]
    elif it.c: exp=[["K2"]]
    else: exp=[["K0"]]
    if sorted(g) not in exp: print("BAD",it,vars(it),g,exp)
print("three refinements")
tree=N("base","a","K0",[N("refinement","b","K1"),N("refinement","c","K2"),N("refinement","d","K3")])
items,d=per_item(tree)
for it in items:
    g=d.get(it.n,[])
    hold=[l for l,f in (("K1",it.b),("K2",it.c),("K3",it.d)) if f]
    if it.a!=1: ok = g==[]
    elif not hold: ok = g==["K0"]
    else: ok = g and set(g)<=set(hold)
    if not ok: print("BAD",it,vars(it),g,hold)
print("two refinements, the first one has nested refinement and alternative")
tree=N("base","a","K0",[N("refinement","b","K1",[N("refinement","d","K3"),N("alternative","e","K4")]),N("refinement","c","K2",[N("refinement","f","K5")])])
items,d=per_item(tree)
for it in items:
    g=d.get(it.n,[])
    # chain1: b(->d) else e ; chain2: c(->f)
    c1 = ("K3" if it.d else "K1") if it.b else ("K4" if it.e else None)
    c2 = ("K5" if it.f else "K2") if it.c else None
    hold=[c for c in (c1,c2) if c]
    if it.a!=1: ok = g==[]
    elif not hold: ok = g==["K0"]
    else: ok = g and set(g)<=set(hold)
    if not ok: print("BAD",it,vars(it),g,hold)
