"""write the tree in stages, evaluate between stages; evaluate twice; abandon an evaluation"""
from harness import *
import random, itertools, sys

def build_staged(tree, items, rng, mode):
    x = let(Item, domain=items, name="x")
    views = inference(Tag)()
    q = an(entity(views, getattr(x, tree.attr) == 1))
    def interleave():
        if mode == "full":
            list(q.evaluate())
        elif mode == "partial":
            it = iter(q.evaluate()); next(it, None); 
            if rng.random() < 0.5: next(it, None)
            del it
        elif mode == "partial_keep":
            it = iter(q.evaluate()); next(it, None); keep.append(it)
    keep = []
    def rec(node):
        if node.label is not None:
            Add(views, inference(Tag)(label=node.label, item=x))
        for ch in node.children:
            if rng.random() < 0.5:
                interleave()
            fn = {"refinement": refinement, "alternative": alternative, "next": next_rule}[ch.kind]
            with fn(getattr(x, ch.attr) == 1):
                rec(ch)
    with q:
        rec(tree)
    r1 = sorted((t.label, t.item.n) for t in q.evaluate())
    r2 = sorted((t.label, t.item.n) for t in q.evaluate())
    return r1, r2

mode = sys.argv[3]
bad = 0; tried = 0
for seed in range(int(sys.argv[1]), int(sys.argv[1]) + int(sys.argv[2])):
    rng = random.Random(seed)
    attrs = list(ATTRS); rng.shuffle(attrs)
    labels = (f"K{i}" for i in itertools.count())
    tree = gen(rng, 3, "base", attrs, labels, True)
    if known_shape(tree): continue
    tried += 1
    items = all_items()
    try:
        r1, r2 = build_staged(tree, items, rng, mode)
    except Exception as e:
        import traceback; traceback.print_exc()
        r1 = r2 = f"EXC {type(e).__name__} {e}"
    exp = reference(tree, items)
    if r1 != exp or r2 != exp:
        bad += 1
        print("SEED", seed, "first ok" if r1 == exp else "first BAD", "second ok" if r2 == exp else "second BAD")
        print(tree.show())
        for got in (r1, r2):
            if isinstance(got, str): print(got)
            elif got != exp: print(" missing", sorted(set(exp) - set(got))[:8], "extra", sorted(set(got) - set(exp))[:8], "dups", len(got) - len(set(got)))
print("bad", bad, "of", tried)
