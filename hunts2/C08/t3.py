from harness import *
import traceback
def mk():
    items = all_items()[:8]  # d,e,f vary: n = d*4+e*2+f
    x = let(Item, domain=items, name="x")
    views = inference(Tag)()
    return items, x, views
def show(q):
    return sorted((t.label, t.item.n) for t in q.evaluate())

for name, cond in [("True", True), ("False", False)]:
    for fn in (refinement, alternative, next_rule):
        items, x, views = mk()
        q = an(entity(views, x.f == 1))
        try:
            with q:
                Add(views, inference(Tag)(label="K0", item=x))
                with fn(cond):
                    Add(views, inference(Tag)(label="K1", item=x))
            print(fn.__name__, name, show(q))
        except Exception as e:
            print(fn.__name__, name, "EXC", type(e).__name__, e)
    # bool with another condition
    items, x, views = mk()
    q = an(entity(views, x.f == 1))
    try:
        with q:
            Add(views, inference(Tag)(label="K0", item=x))
            with refinement(cond, x.e == 1):
                Add(views, inference(Tag)(label="K1", item=x))
        print("refinement(bool, cond)", name, show(q))
    except Exception as e:
        print("refinement(bool, cond)", name, "EXC", type(e).__name__, e)
    items, x, views = mk()
    q = an(entity(views, x.f == 1))
    try:
        with q:
            Add(views, inference(Tag)(label="K0", item=x))
            with refinement(x.e == 1, cond):
                Add(views, inference(Tag)(label="K1", item=x))
        print("refinement(cond, bool)", name, show(q))
    except Exception as e:
        print("refinement(cond, bool)", name, "EXC", type(e).__name__, e)
# base is a bool
items, x, views = mk()
try:
    q = an(entity(views, True, x.f == 1))
    with q:
        Add(views, inference(Tag)(label="K0", item=x))
        with refinement(x.e == 1):
            Add(views, inference(Tag)(label="K1", item=x))
    print("base (True, cond)", show(q))
except Exception as e:
    traceback.print_exc()
