from harness import *
import sys
def check(tree, items=None, note=""):
    items = items or all_items()
    try:
        got, q = run(tree, items)
    except Exception as e:
        import traceback; traceback.print_exc()
        got = f"EXC {type(e).__name__}: {e}"
    exp = reference(tree, items)
    ok = got == exp
    print("OK " if ok else "BAD", note)
    if not ok:
        print(tree.show())
        if isinstance(got, str): print(got)
        else: print(" missing", sorted(set(exp) - set(got))[:8], "extra", sorted(set(got) - set(exp))[:8], "dups", len(got) - len(set(got)), len(got), len(exp))
    return ok

N=Node
# refinement without conclusion (stop rule)
check(N("base","a","K0",[N("refinement","b",None)]), note="refinement without conclusion")
# base without conclusion, refinement with
check(N("base","a",None,[N("refinement","b","K1")]), note="base without conclusion")
check(N("base","a",None,[N("alternative","b","K1")]), note="base without conclusion, alt")
check(N("base","a","K0",[N("alternative","b",None),N("alternative","c","K2")]), note="alt without conclusion then alt")
check(N("base","a","K0",[N("refinement","b",None,[N("refinement","c","K2")])]), note="ref no concl with nested ref")
check(N("base","a","K0",[N("refinement","b","K1",[N("refinement","c",None)])]), note="nested ref without concl")
check(N("base","a","K0",[N("next","b",None),N("next","c","K2")]), note="next without conclusion then next")
check(N("base","a","K0",[N("refinement","b",None,[N("alternative","c","K2")])]), note="ref no concl with alt")
check(N("base","a","K0",[N("refinement","b","K1",[N("alternative","c",None)])]), note="ref with alt no concl")
