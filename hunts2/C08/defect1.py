"""
C08 defect 1: a branch (or the base rule) whose only condition is a bare variable makes the rule tree cyclic;
building the next branch or evaluating the query never returns.

    with query:
        Add(views, inference(Tag)(label="K0", item=x))
        with next_rule(y):                                     # "and for every y as well ..."
            Add(views, inference(Tag)(label="K1", item=y))      # the conclusion is built from y

Expected: K0 for every x with x.f == 1, and K1 for every y (a next_rule fires in addition).
Got: query.evaluate() loops forever (RWXNode.root walks a cycle  y -> Tag(...) -> Add -> y).

The script uses an alarm to turn the endless loop into a non-zero exit.
"""
import signal
import sys
from dataclasses import dataclass

from krrood.entity_query_language.entity import entity, let, inference
from krrood.entity_query_language.quantify_entity import an
from krrood.entity_query_language.rule import refinement, alternative, next_rule
from krrood.entity_query_language.conclusion import Add


@dataclass(eq=False)
class Item:
    n: int
    f: int = 0


@dataclass(eq=False)
class Tag:
    label: str
    item: Item


STAGE = ["start"]


def on_alarm(signum, frame):
    import traceback

    print(f"\nGOT: no answer after 15 s, stuck while: {STAGE[0]}")
    print("innermost frames:")
    traceback.print_stack(frame, limit=4)
    print("DEFECT CONFIRMED: the rule tree is cyclic, the library loops forever")
    sys.exit(1)


signal.signal(signal.SIGALRM, on_alarm)
signal.alarm(15)

xs = [Item(0, 0), Item(1, 1), Item(2, 1)]
ys = [Item(10), Item(11)]

x = let(Item, domain=xs, name="x")
y = let(Item, domain=ys, name="y")
views = inference(Tag)()
query = an(entity(views, x.f == 1))

STAGE[0] = "writing the tree"
with query:
    Add(views, inference(Tag)(label="K0", item=x))
    with next_rule(y):
        Add(views, inference(Tag)(label="K1", item=y))

expected = [("K0", 1), ("K0", 2), ("K1", 10), ("K1", 11)]
print("EXPECTED:", expected)
STAGE[0] = "query.evaluate()"
got = sorted((t.label, t.item.n) for t in query.evaluate())
signal.alarm(0)
print("GOT:     ", got)
if got != expected:
    print("DEFECT CONFIRMED")
    sys.exit(1)
print("no defect")
