from harness import *
from krrood.entity_query_language.entity import set_of
from krrood.entity_query_language.quantify_entity import the
import traceback
def mk(n=8):
    items = all_items()[:n]  # d,e,f vary: n = d*4+e*2+f
    x = let(Item, domain=items, name="x")
    views = inference(Tag)()
    return items, x, views
def tree(q, x, views):
    with q:
        Add(views, inference(Tag)(label="K0", item=x))
        with refinement(x.e == 1):
            Add(views, inference(Tag)(label="K1", item=x))
            with refinement(x.d == 1):
                Add(views, inference(Tag)(label="K2", item=x))
        with alternative(x.d == 1):
            Add(views, inference(Tag)(label="K3", item=x))
EXP = [('K0',1),('K0',5),('K1',3),('K2',7),('K3',4),('K3',6)]
def T(name, f):
    try:
        r = f()
        print("OK " if r == EXP else "BAD", name, r if r != EXP else "")
    except Exception as e:
        print("EXC", name, type(e).__name__, e)
        traceback.print_exc()

def t_setof():
    items, x, views = mk()
    q = an(set_of([views, x], x.f == 1))
    tree(q, x, views)
    return sorted((r[views].label, r[x].n) for r in q.evaluate())
T("set_of([views,x])", t_setof)
def t_setof2():
    items, x, views = mk()
    q = an(set_of([x, views], x.f == 1))
    tree(q, x, views)
    return sorted((r[views].label, r[x].n) for r in q.evaluate())
T("set_of([x,views])", t_setof2)
def t_setof1():
    items, x, views = mk()
    q = an(set_of([views], x.f == 1))
    tree(q, x, views)
    return sorted((r[views].label, r[views].item.n) for r in q.evaluate())
T("set_of([views])", t_setof1)
def t_attr():
    items, x, views = mk()
    q = an(entity(views.label, x.f == 1))
    tree(q, x, views)
    return sorted(q.evaluate())
T("entity(views.label)", t_attr)
def t_entity_with():
    items, x, views = mk()
    e = entity(views, x.f == 1)
    q = an(e)
    tree(e, x, views)
    return sorted((t.label, t.item.n) for t in q.evaluate())
T("with entity:", t_entity_with)
def t_entity_with_before_an():
    items, x, views = mk()
    e = entity(views, x.f == 1)
    tree(e, x, views)
    q = an(e)
    return sorted((t.label, t.item.n) for t in q.evaluate())
T("with entity: before an()", t_entity_with_before_an)
def t_two_blocks():
    items, x, views = mk()
    q = an(entity(views, x.f == 1))
    with q:
        Add(views, inference(Tag)(label="K0", item=x))
    with q:
        with refinement(x.e == 1):
            Add(views, inference(Tag)(label="K1", item=x))
    with q:
        with alternative(x.d == 1):
            Add(views, inference(Tag)(label="K3", item=x))
    # the refinement of the refinement: re-enter the refinement? not possible without the handle
    return sorted((t.label, t.item.n) for t in q.evaluate())
T("three with-blocks (expect no K2: K1 for 7)", t_two_blocks)
def t_handles():
    items, x, views = mk()
    q = an(entity(views, x.f == 1))
    with q:
        Add(views, inference(Tag)(label="K0", item=x))
        r1 = refinement(x.e == 1)
    with r1:
        Add(views, inference(Tag)(label="K1", item=x))
    with q:
        a = alternative(x.d == 1)
    with a:
        Add(views, inference(Tag)(label="K3", item=x))
    with r1:
        with refinement(x.d == 1):
            Add(views, inference(Tag)(label="K2", item=x))
    return sorted((t.label, t.item.n) for t in q.evaluate())
T("re-entering kept branch handles", t_handles)
def t_and():
    items, x, views = mk(16)
    q = an(entity(views, and_(x.f == 1, x.c == 0)))
    tree(q, x, views)
    return sorted((t.label, t.item.n) for t in q.evaluate())
T("and_ base", t_and)
def t_the():
    items, x, views = mk()
    q = the(entity(views, x.n == 7))
    tree(q, x, views)
    t = q.evaluate()
    return (t.label, t.item.n)
try:
    print("the:", t_the())
except Exception as e:
    traceback.print_exc()
