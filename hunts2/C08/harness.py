"""Random rule trees over ONE variable compared with a reference interpreter."""
import random, sys, itertools
from dataclasses import dataclass, field
from typing import List, Optional
from krrood.entity_query_language.entity import entity, let, inference, and_, or_, not_
from krrood.entity_query_language.quantify_entity import an
from krrood.entity_query_language.rule import refinement, alternative, next_rule
from krrood.entity_query_language.conclusion import Add
from krrood.entity_query_language.predicate import Symbol


@dataclass(eq=False)
class Item:
    n: int
    a: int = 0
    b: int = 0
    c: int = 0
    d: int = 0
    e: int = 0
    f: int = 0

    def __repr__(self):
        return f"I{self.n}"


@dataclass(eq=False)
class Tag:
    label: str
    item: Item


ATTRS = "abcdef"


@dataclass
class Node:
    kind: str  # base / refinement / alternative / next
    attr: str
    label: Optional[str]
    children: List["Node"] = field(default_factory=list)

    def show(self, ind=0):
        s = " " * ind + f"{self.kind}({self.attr}) -> {self.label}\n"
        for c in self.children:
            s += c.show(ind + 2)
        return s


def build(node: Node, x, views, counter):
    """write inside the with block of `node`"""
    if node.label is not None:
        Add(views, inference(Tag)(label=node.label, item=x))
    for ch in node.children:
        fn = {"refinement": refinement, "alternative": alternative, "next": next_rule}[ch.kind]
        with fn(getattr(x, ch.attr) == 1):
            build(ch, x, views, counter)


def run(tree: Node, items):
    x = let(Item, domain=items, name="x")
    views = inference(Tag)()
    q = an(entity(views, getattr(x, tree.attr) == 1))
    with q:
        build(tree, x, views, None)
    res = list(q.evaluate())
    return sorted((t.label, t.item.n) for t in res), q


# reference ---------------------------------------------------------------
def ref_chain(chain_head: Node, siblings: List[Node], it) -> Optional[List[str]]:
    """evaluate a chain: head followed by alternatives / nexts (in written order).
    returns list of labels fired, or None if nothing in the chain fired"""
    fired_any = False
    out = []
    for node in [chain_head] + siblings:
        if node.kind == "alternative" and fired_any:
            continue
        r = ref_node(node, it)
        if r is not None:
            fired_any = True
            out.extend(r)
    return out if fired_any else None


def split(node: Node):
    """children of node -> (refinements, chain siblings)"""
    refs = [c for c in node.children if c.kind == "refinement"]
    sibs = [c for c in node.children if c.kind != "refinement"]
    return refs, sibs


def flat_siblings(node: Node) -> List[Node]:
    """the siblings of node in written order: alternatives/nexts written in its block, each followed by the ones
    written inside that block (nested writing continues the same chain)"""
    out = []
    for c in node.children:
        if c.kind != "refinement":
            out.append(c)
            out.extend(flat_siblings(c))
    return out


def ref_node(node: Node, it) -> Optional[List[str]]:
    """node alone (without its chain siblings): None if its condition fails, else the conclusions of the deepest
    refinement"""
    if getattr(it, node.attr) != 1:
        return None
    refs = [c for c in node.children if c.kind == "refinement"]
    # several refinements of one rule: ambiguous -> only generated singly
    for r in refs:
        rr = ref_chain(r, flat_siblings(r), it)
        if rr is not None:
            return rr
    return [node.label] if node.label is not None else []


def reference(tree: Node, items):
    out = []
    for it in items:
        r = ref_chain(tree, flat_siblings(tree), it)
        if r:
            out.extend((l, it.n) for l in r)
    return sorted(out)


def chains(node):
    """all chains in the tree"""
    yield [node] + flat_siblings(node)
    def rec(n):
        for c in n.children:
            if c.kind == "refinement":
                yield [c] + flat_siblings(c)
            yield from rec(c)
    yield from rec(node)


def known_shape(tree):
    for ch in chains(tree):
        seen_next = False
        for n in ch:
            if n.kind == "next":
                seen_next = True
            if n.kind == "alternative" and seen_next:
                return True
    return False


def all_items():
    return [Item(i, *bits) for i, bits in enumerate(itertools.product([0, 1], repeat=len(ATTRS)))]


def gen(rng, depth, kind, attrs, labels, allow_next=True, max_ref=1):
    node = Node(kind, attrs.pop(), next(labels))
    if depth <= 0 or not attrs:
        return node
    order = []
    n_ref = rng.choice([0, 1, 1]) if max_ref else 0
    order += ["refinement"] * n_ref
    n_sib = rng.choice([0, 1, 1, 2])
    for _ in range(n_sib):
        order.append(rng.choice(["alternative", "alternative", "next"] if allow_next else ["alternative"]))
    rng.shuffle(order)
    for k in order:
        if not attrs:
            break
        node.children.append(gen(rng, depth - 1, k, attrs, labels, allow_next, max_ref))
    return node


if __name__ == "__main__":
    seed0 = int(sys.argv[1]) if len(sys.argv) > 1 else 0
    n = int(sys.argv[2]) if len(sys.argv) > 2 else 200
    allow_next = (sys.argv[3] != "nonext") if len(sys.argv) > 3 else True
    bad = 0
    for seed in range(seed0, seed0 + n):
        rng = random.Random(seed)
        attrs = list(ATTRS)
        rng.shuffle(attrs)
        labels = (f"K{i}" for i in itertools.count())
        tree = gen(rng, 3, "base", attrs, labels, allow_next)
        items = all_items()
        if known_shape(tree):
            continue
        try:
            got, q = run(tree, items)
        except Exception as e:
            got = f"EXC {type(e).__name__}: {e}"
        exp = reference(tree, items)
        if got != exp:
            bad += 1
            print("SEED", seed)
            print(tree.show())
            if isinstance(got, str):
                print(got)
            else:
                print(" missing", sorted(set(exp) - set(got))[:8], "extra", sorted(set(got) - set(exp))[:8], "dups", len(got) - len(set(got)))
    print("bad", bad, "of", n)
