"""
C08 defect 2: a rule query with at least one branch answers only the FIRST time it is evaluated inside an enclosing
query. The memory "for which bindings did I already conclude something" of the conclusion selectors is emptied by
ResultQuantifier.evaluate() only; an enclosing query evaluates the rule through _evaluate__() once per value of its
own variables and every evaluation after the first one finds all conclusions "already produced".

    rule  = an(entity(views, x.f == 1))  + base conclusion K0 + refinement(x.e == 1) -> K1
    outer = an(entity(z, z > 5, rule.item.n >= 1))       z in [10, 20, 30]

Expected: every z twice (the rule infers two instances, both satisfy the condition, for every z).
Got: only z = 10. The same outer query over the same rule WITHOUT the refinement answers [10, 10, 20, 20, 30, 30].
"""
import sys
from dataclasses import dataclass

from krrood.entity_query_language.entity import entity, let, inference, set_of
from krrood.entity_query_language.quantify_entity import an
from krrood.entity_query_language.rule import refinement
from krrood.entity_query_language.conclusion import Add


@dataclass(eq=False)
class Item:
    n: int
    e: int = 0
    f: int = 0


@dataclass(eq=False)
class Tag:
    label: str
    item: Item


items = [Item(0, 0, 0), Item(1, 0, 1), Item(2, 1, 0), Item(3, 1, 1)]


def make_rule(with_refinement: bool):
    x = let(Item, domain=items, name="x")
    views = inference(Tag)()
    rule = an(entity(views, x.f == 1))
    with rule:
        Add(views, inference(Tag)(label="K0", item=x))
        if with_refinement:
            with refinement(x.e == 1):
                Add(views, inference(Tag)(label="K1", item=x))
    return rule


failed = False

# the rule on its own
rule = make_rule(True)
alone = sorted((t.label, t.item.n) for t in rule.evaluate())
print("rule alone:                   ", alone)

for with_refinement in (False, True):
    z = let(int, domain=[10, 20, 30], name="z")
    rule = make_rule(with_refinement)
    outer = an(entity(z, z > 5, rule.item.n >= 1))
    got = sorted(outer.evaluate())
    expected = [10, 10, 20, 20, 30, 30]
    print(f"outer, rule {'with' if with_refinement else 'without'} refinement: expected {expected} got {got}")
    failed |= got != expected

    # the inferred instances themselves, one row per (z, instance)
    z = let(int, domain=[10, 20, 30], name="z")
    rule = make_rule(with_refinement)
    rows = [
        (r[z], r.data[rule].value.label, r.data[rule].value.item.n)
        for r in an(set_of([z, rule])).evaluate()
    ]
    labels = ["K0", "K1"] if with_refinement else ["K0", "K0"]
    expected_rows = [(zz, l, n) for zz in (10, 20, 30) for l, n in zip(labels, (1, 3))]
    print(f"   set_of([z, rule]): expected {len(expected_rows)} rows, got {len(rows)}: {rows}")
    failed |= sorted(rows) != sorted(expected_rows)

if failed:
    print("DEFECT CONFIRMED: the rule tree fires only during its first evaluation inside the enclosing query")
    sys.exit(1)
print("no defect")
