"""
C08 defect 6: a branch condition that is used a second time in a later expression (a named condition and its
negation:  big = x.e == 1;  refinement(big) ... alternative(not_(big), ...)) sends refinement / alternative /
next_rule to the wrong place of the tree. rule.py finds the place of the current node through the parent link of its
graph node (_parent_in_the_tree), and that link is overwritten by every expression that takes the node as an operand:
after not_(big) the "parent in the tree" of the refinement branch is the Not node, the new Alternative is hung under
it (Not._child_ = Alternative(big, AND(Not, ...))) and the graph becomes cyclic. `with alternative(...)` then never
returns (RWXNode.root walks the cycle); the refinement's own ExceptIf never learns about the alternative.

Expected: K0 for x=1, K1 for x=3 and x=7, K2 for x=5.
Got: endless loop in SymbolicExpression.__enter__ (turned into a non-zero exit by an alarm).
"""
import signal
import sys
from dataclasses import dataclass

from krrood.entity_query_language.entity import entity, let, inference, not_
from krrood.entity_query_language.quantify_entity import an
from krrood.entity_query_language.rule import refinement, alternative
from krrood.entity_query_language.conclusion import Add


@dataclass(eq=False)
class Item:
    n: int
    d: int = 0
    e: int = 0
    f: int = 0


@dataclass(eq=False)
class Tag:
    label: str
    item: Item


STAGE = ["start"]


def on_alarm(signum, frame):
    import traceback

    print(f"GOT: no answer after 15 s, stuck while: {STAGE[0]}")
    traceback.print_stack(frame, limit=4)
    print("DEFECT CONFIRMED: the alternative was attached under the Not node, the rule tree is cyclic")
    sys.exit(1)


signal.signal(signal.SIGALRM, on_alarm)
signal.alarm(15)

items = [Item(n, (n >> 2) & 1, (n >> 1) & 1, n & 1) for n in range(8)]
x = let(Item, domain=items, name="x")
views = inference(Tag)()
big = x.e == 1  # a named condition

query = an(entity(views, x.f == 1))
expected = [("K0", 1), ("K1", 3), ("K1", 7), ("K2", 5)]
print("EXPECTED:", expected)
STAGE[0] = "writing  with alternative(not_(big), x.d == 1):"
with query:
    Add(views, inference(Tag)(label="K0", item=x))
    with refinement(big):
        Add(views, inference(Tag)(label="K1", item=x))
        with alternative(not_(big), x.d == 1):
            Add(views, inference(Tag)(label="K2", item=x))
STAGE[0] = "query.evaluate()"
got = sorted((t.label, t.item.n) for t in query.evaluate())
signal.alarm(0)
print("GOT:     ", got)
if got != expected:
    print("DEFECT CONFIRMED")
    sys.exit(1)
print("no defect")
