from harness import *
import traceback, sys
sys.setrecursionlimit(3000)
def mk(n=8):
    items = all_items()[:n]
    x = let(Item, domain=items, name="x")
    views = inference(Tag)()
    return items, x, views
def res(q):
    return sorted((t.label, t.item.n) for t in q.evaluate())
def T(name, f, exp):
    try:
        r = f()
        print("OK " if r == exp else "BAD", name, "" if r == exp else f"\n   got {r}\n   exp {exp}")
    except BaseException as e:
        print("EXC", name, type(e).__name__, str(e)[:200])

def base_is_variable():
    items, x, views = mk()
    q = an(entity(views, x))
    with q:
        Add(views, inference(Tag)(label="K0", item=x))
        with refinement(x.e == 1):
            Add(views, inference(Tag)(label="K1", item=x))
    return res(q)
T("base is the bare variable + refinement", base_is_variable, sorted([("K1" if n & 2 else "K0", n) for n in range(8)]))
def base_is_variable_alt():
    items, x, views = mk()
    y = let(Item, domain=items[:2], name="y")
    q = an(entity(views, x.f == 1))
    with q:
        Add(views, inference(Tag)(label="K0", item=x))
        with next_rule(y):
            Add(views, inference(Tag)(label="K1", item=y))
            with refinement(y.f == 1):
                Add(views, inference(Tag)(label="K2", item=y))
    return res(q)
T("next_rule(y) bare variable + refinement", base_is_variable_alt, sorted([("K0", n) for n in (1,3,5,7)] + [("K1", 0), ("K2", 1)]))
def alias_condition():
    items, x, views = mk()
    big = x.e == 1
    q = an(entity(views, x.f == 1))
    with q:
        Add(views, inference(Tag)(label="K0", item=x))
        with refinement(big):
            Add(views, inference(Tag)(label="K1", item=x))
            with refinement(x.d == 1):
                Add(views, inference(Tag)(label="K2", item=x))
    return res(q)
T("plain (control)", alias_condition, [("K0",1),("K0",5),("K1",3),("K2",7)])
def truthy_attr_alias_in_conclusion():
    items, x, views = mk()
    e = x.e
    q = an(entity(views, x.f == 1))
    with q:
        Add(views, inference(Tag)(label="K0", item=x))
        with refinement(e):
            Add(views, inference(Tag)(label=e, item=x))
            with refinement(x.d == 1):
                Add(views, inference(Tag)(label="K2", item=x))
    return res(q)
T("refinement(e) where alias e is also a conclusion argument, then nested refinement", truthy_attr_alias_in_conclusion, [("K0",1),("K0",5),(1,3),("K2",7)])
