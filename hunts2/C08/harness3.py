"""single variable trees with many spellings of the conditions"""
import random, sys, itertools
from harness import Node, reference, flat_siblings, known_shape, ATTRS, gen
from dataclasses import dataclass, field
from typing import List, Optional
from krrood.entity_query_language.entity import entity, let, inference, and_, or_, not_, in_, contains, exists, for_all, flatten
from krrood.entity_query_language.quantify_entity import an, the
from krrood.entity_query_language.rule import refinement, alternative, next_rule
from krrood.entity_query_language.conclusion import Add
from krrood.entity_query_language.predicate import HasType, Predicate, symbolic_function


class Yes: pass
class No: pass

@dataclass(eq=False)
class Item:
    n: int
    a: int = 0
    b: int = 0
    c: int = 0
    d: int = 0
    e: int = 0
    f: int = 0
    def __post_init__(self):
        self.objs = {k: (Yes() if getattr(self, k) else No()) for k in ATTRS}
        self.lists = {k: ([1, 1] if getattr(self, k) else []) for k in ATTRS}
        self.flags = [getattr(self, k) for k in ATTRS]
    def has(self, k):
        return getattr(self, k) == 1
    def __repr__(self):
        return f"I{self.n}"
for k in ATTRS:
    setattr(Item, "o" + k, property(lambda self, k=k: self.objs[k]))
    setattr(Item, "l" + k, property(lambda self, k=k: self.lists[k]))
    setattr(Item, "t" + k, property(lambda self, k=k: bool(getattr(self, k))))

@dataclass(eq=False)
class Tag:
    label: str
    item: Item

@dataclass(eq=False)
class IsOne(Predicate):
    value: int
    def __call__(self):
        return self.value == 1

@symbolic_function
def is_one(v):
    return v == 1

ALL_ITEMS = None
FORMS = {
 "eq": lambda x,k: getattr(x,k) == 1,
 "eq_rev": lambda x,k: 1 == getattr(x,k),
 "gt": lambda x,k: getattr(x,k) > 0,
 "not_eq0": lambda x,k: not_(getattr(x,k) == 0),
 "not_ne1": lambda x,k: not_(getattr(x,k) != 1),
 "truthy": lambda x,k: getattr(x,k),
 "truthy_bool": lambda x,k: getattr(x,"t"+k),
 "or": lambda x,k: or_(getattr(x,k) == 1, getattr(x,k) == 5),
 "or2": lambda x,k: or_(getattr(x,k) == 5, getattr(x,k) == 1),
 "and": lambda x,k: and_(getattr(x,k) >= 1, getattr(x,k) <= 1),
 "in": lambda x,k: in_(x, [i for i in ALL_ITEMS if getattr(i,k)==1]),
 "hastype": lambda x,k: HasType(getattr(x,"o"+k), Yes),
 "not_hastype": lambda x,k: not_(HasType(getattr(x,"o"+k), No)),
 "pred": lambda x,k: IsOne(getattr(x,k)),
 "symfun": lambda x,k: is_one(getattr(x,k)),
 "method": lambda x,k: x.has(k),
 "index": lambda x,k: x.flags[ATTRS.index(k)] == 1,
 "index_truthy": lambda x,k: x.flags[ATTRS.index(k)],
 "list_truthy": lambda x,k: getattr(x,"l"+k),
 "not_not": lambda x,k: not_(not_(getattr(x,k) == 1)),
 "not_or": lambda x,k: not_(or_(getattr(x,k) == 0, getattr(x,k) == 7)),
 "not_and": lambda x,k: not_(and_(getattr(x,k) != 1, getattr(x,k) != 7)),
 "in_flat": lambda x,k: in_(1, getattr(x,"l"+k)),
 "exists_flat": None,
}

def build(node, x, views, rng, forms):
    if node.label is not None:
        Add(views, inference(Tag)(label=node.label, item=x))
    for ch in node.children:
        fn = {"refinement": refinement, "alternative": alternative, "next": next_rule}[ch.kind]
        f = rng.choice(forms)
        ch.form = f
        with fn(FORMS[f](x, ch.attr)):
            build(ch, x, views, rng, forms)

def run(tree, items, rng, forms):
    global ALL_ITEMS
    ALL_ITEMS = items
    x = let(Item, domain=items, name="x")
    views = inference(Tag)()
    f = rng.choice(forms)
    tree.form = f
    q = an(entity(views, FORMS[f](x, tree.attr)))
    with q:
        build(tree, x, views, rng, forms)
    res = list(q.evaluate())
    return sorted((t.label, t.item.n) for t in res), q

def show(node, ind=0):
    s = " " * ind + f"{node.kind}({node.attr}:{getattr(node,'form','?')}) -> {node.label}\n"
    for c in node.children:
        s += show(c, ind + 2)
    return s

def all_items():
    return [Item(i, *bits) for i, bits in enumerate(itertools.product([0, 1], repeat=len(ATTRS)))]

if __name__ == "__main__":
    seed0 = int(sys.argv[1]); n = int(sys.argv[2])
    forms = sys.argv[3].split(",") if len(sys.argv) > 3 else [k for k,v in FORMS.items() if v]
    bad = 0; tried = 0
    for seed in range(seed0, seed0 + n):
        rng = random.Random(seed)
        attrs = list(ATTRS); rng.shuffle(attrs)
        labels = (f"K{i}" for i in itertools.count())
        tree = gen(rng, 3, "base", attrs, labels, True)
        if known_shape(tree): continue
        tried += 1
        items = all_items()
        try:
            got, q = run(tree, items, rng, forms)
        except Exception as e:
            import traceback
            got = f"EXC {type(e).__name__}: {e}"
        exp = reference(tree, items)
        if got != exp:
            bad += 1
            print("SEED", seed)
            print(show(tree))
            if isinstance(got, str): print(got)
            else: print(" missing", sorted(set(exp) - set(got))[:8], "extra", sorted(set(got) - set(exp))[:8], "dups", len(got) - len(set(got)))
    print("bad", bad, "of", tried)
