"""
C08 defect 3: a branch whose only condition is a plain Python value (the "else" branch  alternative(True), or a
Predicate that was evaluated on the spot) cannot be written: refinement / alternative / next_rule raise
AttributeError: 'bool' object has no attribute '_node_' - AFTER they have cut the current node out of the tree, so
the query is broken for every later branch as well.

ConditionType (entity.py) is Union[SymbolicExpression, bool, Predicate]; entity(views, True), and_(True, c),
or_(c, True) and alternative(True, c) all accept the value and wrap it in a Literal.

Expected: K0 for the x with x.f == 1, KELSE for all the others.
Got: AttributeError while the branch is written; a second (well-formed) branch then fails with TypeError.
"""
import sys
import traceback
from dataclasses import dataclass

from krrood.entity_query_language.entity import entity, let, inference
from krrood.entity_query_language.quantify_entity import an
from krrood.entity_query_language.rule import refinement, alternative, next_rule
from krrood.entity_query_language.conclusion import Add


@dataclass(eq=False)
class Item:
    n: int
    f: int = 0


@dataclass(eq=False)
class Tag:
    label: str
    item: Item


items = [Item(0, 0), Item(1, 1), Item(2, 0), Item(3, 1)]
failed = False


def fresh():
    x = let(Item, domain=items, name="x")
    views = inference(Tag)()
    return x, views, an(entity(views, x.f == 1))


# control: the same value next to another condition is accepted
x, views, query = fresh()
with query:
    Add(views, inference(Tag)(label="K0", item=x))
    with alternative(True, x.n >= 0):
        Add(views, inference(Tag)(label="KELSE", item=x))
expected = [("K0", 1), ("K0", 3), ("KELSE", 0), ("KELSE", 2)]
got = sorted((t.label, t.item.n) for t in query.evaluate())
print("control alternative(True, x.n >= 0): expected", expected, "got", got)
failed |= got != expected

for branch in (alternative, refinement, next_rule):
    x, views, query = fresh()
    try:
        with query:
            Add(views, inference(Tag)(label="K0", item=x))
            with branch(True):
                Add(views, inference(Tag)(label="KELSE", item=x))
        got = sorted((t.label, t.item.n) for t in query.evaluate())
        print(f"{branch.__name__}(True): got", got)
    except Exception as error:
        failed = True
        print(f"{branch.__name__}(True): EXPECTED the branch to be written, GOT {type(error).__name__}: {error}")
        # the tree is left broken: a well-formed branch cannot be added any more
        try:
            with query:
                with alternative(x.n >= 0):
                    Add(views, inference(Tag)(label="KELSE", item=x))
            print("   a later alternative(x.n >= 0) on the same query: written")
        except Exception as second_error:
            print(
                f"   a later alternative(x.n >= 0) on the same query: {type(second_error).__name__}: {second_error}"
            )

if failed:
    print("DEFECT CONFIRMED")
    sys.exit(1)
print("no defect")
