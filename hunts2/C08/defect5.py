"""
C08 defect 5: in a rule tree (at least one branch), a conclusion whose argument is DERIVED from a flattened value
(p = flatten(x.parts); argument p.name, or a nested inference(Wrap)(inner=p)) is produced only for the first element
of the collection; the bindings for the other elements satisfy the conditions but infer nothing.

The key under which a conclusion selector remembers what it has concluded (ConclusionSelector.update_conclusion)
holds the leaf variables of the conclusion (x) and the bindings of its DIRECT argument expressions only. p.name is
an expression of the conclusion that has no binding yet when the key is built, and p itself is not a direct argument:
(x, part b) has the same key as (x, part a) and is dropped as "already concluded".
(The repair "conclusions over different values of one flattened argument are different conclusions" covers
part=p only.)
"""
import sys
from dataclasses import dataclass, field
from typing import List

from krrood.entity_query_language.entity import entity, let, inference, flatten
from krrood.entity_query_language.quantify_entity import an
from krrood.entity_query_language.rule import refinement
from krrood.entity_query_language.conclusion import Add


@dataclass(eq=False)
class Part:
    name: str
    weight: int


@dataclass(eq=False)
class Box:
    n: int
    parts: List[Part] = field(default_factory=list)


@dataclass(eq=False)
class Tag:
    label: str
    box: Box
    part: object


boxes = [
    Box(0, [Part("a", 1), Part("b", 2), Part("c", 3), Part("d", 4)]),
    Box(1, [Part("e", 3), Part("f", 5)]),
]


def run(argument):
    x = let(Box, domain=boxes, name="x")
    p = flatten(x.parts)
    views = inference(Tag)()
    query = an(entity(views, p.weight >= 1))
    with query:
        Add(views, inference(Tag)(label="light", box=x, part=argument(p)))
        with refinement(p.weight >= 3):
            Add(views, inference(Tag)(label="heavy", box=x, part=argument(p)))
    return sorted(
        (t.label, t.box.n, t.part.name if isinstance(t.part, Part) else t.part)
        for t in query.evaluate()
    )


expected = sorted(
    ("heavy" if part.weight >= 3 else "light", box.n, part.name)
    for box in boxes
    for part in box.parts
)
failed = False
for spelling, argument in (("part=p", lambda p: p), ("part=p.name", lambda p: p.name)):
    got = run(argument)
    print(spelling)
    print("  EXPECTED:", expected)
    print("  GOT:     ", got)
    failed |= got != expected

if failed:
    print("DEFECT CONFIRMED: one inferred instance per box and branch instead of one per part")
    sys.exit(1)
print("no defect")
