"""Random rule trees over TWO variables compared with a reference interpreter applied to the domain product."""
import random, sys, itertools
from dataclasses import dataclass, field
from typing import List, Optional, Tuple
from krrood.entity_query_language.entity import entity, let, inference, and_, or_, not_
from krrood.entity_query_language.quantify_entity import an
from krrood.entity_query_language.rule import refinement, alternative, next_rule
from krrood.entity_query_language.conclusion import Add


@dataclass(eq=False)
class Item:
    n: int
    a: int = 0
    b: int = 0
    c: int = 0

    def __repr__(self):
        return f"I{self.n}"


@dataclass(eq=False)
class Tag:
    label: str
    item: Optional[Item] = None
    other: Optional[Item] = None


@dataclass
class Cond:
    # ('x','a') : x.a == 1 ; ('x','a','y','b'): x.a == y.b
    spec: tuple

    def vars(self):
        if self.spec[0] in ("eq", "ne"):
            return {"x", "y"}
        return {self.spec[0]} if len(self.spec) == 2 else {self.spec[0], self.spec[2]}

    def holds(self, env):
        if self.spec[0] == "eq":
            return env["x"] is env["y"]
        if self.spec[0] == "ne":
            return env["x"] is not env["y"]
        if len(self.spec) == 2:
            return getattr(env[self.spec[0]], self.spec[1]) == 1
        return getattr(env[self.spec[0]], self.spec[1]) == getattr(env[self.spec[2]], self.spec[3])

    def sym(self, V):
        if self.spec[0] == "eq":
            return V["x"] == V["y"] if self.spec[1] else V["y"] == V["x"]
        if self.spec[0] == "ne":
            return V["x"] != V["y"] if self.spec[1] else V["y"] != V["x"]
        if len(self.spec) == 2:
            return getattr(V[self.spec[0]], self.spec[1]) == 1
        return getattr(V[self.spec[0]], self.spec[1]) == getattr(V[self.spec[2]], self.spec[3])

    def __repr__(self):
        if self.spec[0] in ("eq", "ne"):
            return f"x {self.spec[0]} y" if self.spec[1] else f"y {self.spec[0]} x"
        return ".".join(self.spec[:2]) + ("==1" if len(self.spec) == 2 else "==" + ".".join(self.spec[2:]))


@dataclass
class Node:
    kind: str
    conds: List[Cond]
    label: Optional[str]
    args: Tuple[str, ...] = ()  # which variables the conclusion uses
    children: List["Node"] = field(default_factory=list)

    def show(self, ind=0):
        s = " " * ind + f"{self.kind}({self.conds}) -> {self.label}{self.args}\n"
        for c in self.children:
            s += c.show(ind + 2)
        return s


def conclude(node, V, views):
    if node.label is None:
        return
    kw = {}
    if "x" in node.args:
        kw["item"] = V["x"]
    if "y" in node.args:
        kw["other"] = V["y"]
    Add(views, inference(Tag)(label=node.label, **kw))


def build(node, V, views):
    conclude(node, V, views)
    for ch in node.children:
        fn = {"refinement": refinement, "alternative": alternative, "next": next_rule}[ch.kind]
        with fn(*[c.sym(V) for c in ch.conds]):
            build(ch, V, views)


def run(tree, xs, ys):
    V = {"x": let(Item, domain=xs, name="x"), "y": let(Item, domain=ys, name="y")}
    views = inference(Tag)()
    q = an(entity(views, *[c.sym(V) for c in tree.conds]))
    with q:
        build(tree, V, views)
    res = list(q.evaluate())
    return sorted((t.label, t.item.n if t.item else None, t.other.n if t.other else None) for t in res), q


def flat_siblings(node):
    out = []
    for c in node.children:
        if c.kind != "refinement":
            out.append(c)
            out.extend(flat_siblings(c))
    return out


def ref_chain(head, sibs, env):
    fired = False
    out = []
    for node in [head] + sibs:
        if node.kind == "alternative" and fired:
            continue
        r = ref_node(node, env)
        if r is not None:
            fired = True
            out.extend(r)
    return out if fired else None


def ref_node(node, env):
    if not all(c.holds(env) for c in node.conds):
        return None
    for r in [c for c in node.children if c.kind == "refinement"]:
        rr = ref_chain(r, flat_siblings(r), env)
        if rr is not None:
            return rr
    if node.label is None:
        return []
    return [(node.label, env["x"].n if "x" in node.args else None, env["y"].n if "y" in node.args else None)]


def reference(tree, xs, ys):
    out = set()
    for x in xs:
        for y in ys:
            r = ref_chain(tree, flat_siblings(tree), {"x": x, "y": y})
            if r:
                out.update(r)
    return sorted(out)


def chains(node):
    yield [node] + flat_siblings(node)

    def rec(n):
        for c in n.children:
            if c.kind == "refinement":
                yield [c] + flat_siblings(c)
            yield from rec(c)

    yield from rec(node)


def known_shape(tree):
    for ch in chains(tree):
        seen_next = False
        for n in ch:
            if n.kind == "next":
                seen_next = True
            if n.kind == "alternative" and seen_next:
                return True
    return False


def items(k=0):
    return [Item(i + k, *bits) for i, bits in enumerate(itertools.product([0, 1], repeat=3))]


PURE = False


def rand_cond(rng, bound):
    if len(bound) == 1:
        return Cond((bound[0], rng.choice("abc")))
    t = rng.random()
    if PURE and t < 0.3:
        return Cond((rng.choice(["eq", "ne"]), rng.choice([True, False])))
    t = rng.random()
    if t < 0.35:
        return Cond(("x", rng.choice("abc")))
    if t < 0.7:
        return Cond(("y", rng.choice("abc")))
    return Cond(("x", rng.choice("abc"), "y", rng.choice("abc")))


def gen(rng, depth, kind, labels, in_top_chain, budget, bound):
    """bound: the variables that are bound where the conditions of this node are evaluated (for a node of the top
    chain: nothing is known, it may use any variable and binds the ones it uses)"""
    if kind == "base":
        conds = [Cond(("x", rng.choice("abc"))), Cond(("y", rng.choice("abc")))]
        rng.shuffle(conds)
        now_bound = ["x", "y"]
    elif in_top_chain:
        conds = [rand_cond(rng, ["x", "y"]) for _ in range(rng.choice([1, 1, 2]))]
        now_bound = sorted(set().union(*[c.vars() for c in conds]))
    else:
        conds = [rand_cond(rng, bound) for _ in range(rng.choice([1, 1, 2]))]
        now_bound = bound
    args = tuple(v for v in now_bound if rng.random() < 0.7) or (now_bound[0],)
    node = Node(kind, conds, next(labels), args)
    if depth <= 0 or budget[0] <= 0:
        return node
    order = ["refinement"] * rng.choice([0, 1, 1]) + [rng.choice(["alternative", "alternative", "next"]) for _ in range(rng.choice([0, 1, 1, 2]))]
    rng.shuffle(order)
    for k in order:
        if budget[0] <= 0:
            break
        budget[0] -= 1
        if k == "refinement":
            node.children.append(gen(rng, depth - 1, k, labels, False, budget, now_bound))
        else:
            # a sibling of this node: evaluated where this node is evaluated
            node.children.append(gen(rng, depth - 1, k, labels, in_top_chain, budget, bound))
    return node


if __name__ == "__main__":
    seed0 = int(sys.argv[1]) if len(sys.argv) > 1 else 0
    n = int(sys.argv[2]) if len(sys.argv) > 2 else 200
    bad = 0
    tried = 0
    if len(sys.argv) > 3 and sys.argv[3] == "pure":
        PURE = True
    for seed in range(seed0, seed0 + n):
        rng = random.Random(seed)
        labels = (f"K{i}" for i in itertools.count())
        tree = gen(rng, 3, "base", labels, True, [6], ["x", "y"])
        if known_shape(tree):
            continue
        tried += 1
        xs = items(); ys = xs if PURE else items(100)
        try:
            got, q = run(tree, xs, ys)
        except Exception as e:
            got = f"EXC {type(e).__name__}: {e}"
        exp = reference(tree, xs, ys)
        if not isinstance(got, str):
            got = sorted(set(got), key=str)
            exp = sorted(set(exp), key=str)
        if got != exp:
            bad += 1
            print("SEED", seed)
            print(tree.show())
            if isinstance(got, str):
                print(got)
            else:
                print(" missing", sorted(set(exp) - set(got), key=str)[:6], "extra", sorted(set(got) - set(exp), key=str)[:6], "dups", len(got) - len(set(got)), len(got), len(exp))
    print("bad", bad, "of", tried)
