"""
C08 defect 4: an alternative is not tried for a binding for which the earlier branch of its chain produced NO result at
all (neither true nor false): a condition over flatten(x.parts) has no row for an x whose collection is empty.
No earlier branch fired for such an x, so the alternative has to be tried; instead x gets nothing (top level chain) or
falls back to the conclusion of the refined rule (alternative of a refinement).

Union (or_ over different variables) was repaired for exactly this (_evaluate_right_where_left_has_no_result_:
"The left operand may produce no result at all for a binding ... the right operand decides for these bindings").
ElseIf.evaluate_left - which Alternative is built on - still evaluates its right operand only for FALSE results of the
left operand.
"""
import sys
from dataclasses import dataclass, field
from typing import List

from krrood.entity_query_language.entity import entity, let, inference, flatten
from krrood.entity_query_language.quantify_entity import an
from krrood.entity_query_language.rule import refinement, alternative
from krrood.entity_query_language.conclusion import Add


@dataclass(eq=False)
class Box:
    n: int
    parts: List[int] = field(default_factory=list)
    big: bool = False


@dataclass(eq=False)
class Tag:
    label: str
    item: Box


boxes = [Box(0, [1, 2]), Box(1, [3]), Box(2, []), Box(3, [], big=True)]
failed = False

# 1. alternatives of the base rule
x = let(Box, domain=boxes, name="x")
views = inference(Tag)()
query = an(entity(views, flatten(x.parts) == 3))
with query:
    Add(views, inference(Tag)(label="has3", item=x))
    with alternative(x.big == True):
        Add(views, inference(Tag)(label="big", item=x))
    with alternative(x.n >= 0):
        Add(views, inference(Tag)(label="other", item=x))
expected = [("big", 3), ("has3", 1), ("other", 0), ("other", 2)]
got = sorted((t.label, t.item.n) for t in query.evaluate())
print("alternatives of the base rule")
print("  EXPECTED:", expected)
print("  GOT:     ", got)
failed |= got != expected

# 2. alternative of a refinement
x = let(Box, domain=boxes, name="x")
views = inference(Tag)()
query = an(entity(views, x.n >= 0))
with query:
    Add(views, inference(Tag)(label="K0", item=x))
    with refinement(flatten(x.parts) == 3):
        Add(views, inference(Tag)(label="has3", item=x))
        with alternative(x.big == True):
            Add(views, inference(Tag)(label="big", item=x))
expected = [("K0", 0), ("K0", 2), ("big", 3), ("has3", 1)]
got = sorted((t.label, t.item.n) for t in query.evaluate())
print("alternative of a refinement")
print("  EXPECTED:", expected)
print("  GOT:     ", got)
failed |= got != expected

if failed:
    print("DEFECT CONFIRMED: the boxes without parts never reach the alternative")
    sys.exit(1)
print("no defect")
