"""
C17 defect 3: a type-valued field that may be missing - Optional[Type[X]] / Optional[type[X]] / Type[X] | None - is not
classified as type-valued. The Optional is looked through for `is_container`, `container_type` and `type_endpoint`
(the association edge exists) but `is_type_type` still inspects the unwrapped annotation, so the association claims to
be one-to-many. Optional[Type] (no parameter) even makes the diagram impossible to build although plain `Type` is
accepted.
"""
from __future__ import annotations

import sys
from dataclasses import dataclass
from typing import Optional, Type

from krrood.class_diagrams.class_diagram import ClassDiagram


@dataclass
class X:
    a: int = 0


@dataclass
class H:
    plain: Type[X] = X
    opt: Optional[Type[X]] = None
    opt_builtin_spelling: Optional[type[X]] = None
    opt_bar_spelling: Type[X] | None = None


@dataclass
class Bare:
    any_type: Type = X


@dataclass
class BareOptional:
    any_type: Optional[Type] = None


failed = False
diagram = ClassDiagram([X, H])
by_field = {a.field.field.name: a for a in diagram.associations}
print("field                 is_type_type  is_one_to_many_relationship  Association.one_to_many   (expected: True, -, False)")
for name in ("plain", "opt", "opt_builtin_spelling", "opt_bar_spelling"):
    association = by_field[name]
    f = association.field
    print(f"{name:22}{f.is_type_type!s:14}{f.is_one_to_many_relationship!s:29}{association.one_to_many}")
    if not f.is_type_type or association.one_to_many:
        failed = True
        print("   -> VIOLATION: the field holds a class, not a collection of X")

print()
print("plain `Type`      :", ClassDiagram([X, Bare]).get_wrapped_class(Bare).fields[0].is_type_type, "(accepted)")
try:
    wrapped = ClassDiagram([X, BareOptional]).get_wrapped_class(BareOptional).fields[0]
    print("`Optional[Type]`  :", wrapped.is_type_type, "(expected True)")
    failed |= not wrapped.is_type_type
except Exception as e:
    failed = True
    print("`Optional[Type]`  : %s: %s" % (type(e).__name__, e))
    print("   -> VIOLATION: expected a type-valued optional field, the diagram cannot be built")

sys.exit(1 if failed else 0)
