"""
C17 defect 5: a dataclass that is a Role but does not itself write `Role[...]` with a parameter in its bases makes the
construction of the diagram fail with "TypeError: 'NoneType' object is not subscriptable":
   * a role that inherits from a parameterised role AND from another generic base,
   * a role declared without a parameter.
"""
from __future__ import annotations

import sys
from dataclasses import dataclass
from typing import Generic, TypeVar

from krrood.class_diagrams.class_diagram import ClassDiagram, HasRoleTaker
from krrood.class_diagrams.utils import Role

U = TypeVar("U")


@dataclass
class Person:
    name: str = ""


@dataclass
class Employee(Role[Person]):
    person: Person


@dataclass
class Manager(Employee):            # control: works, person is a role taker as well
    level: int = 0


@dataclass
class HasBudget(Generic[U]):
    pass


@dataclass
class BudgetManager(Employee, HasBudget[int]):
    level: int = 0


@dataclass
class Unparameterised(Role):
    person: Person


def edges(diagram):
    return sorted((a.source.clazz.__name__, a.field.name, a.target.clazz.__name__, type(a).__name__)
                  for a in diagram.associations)


failed = False
print("control :", edges(ClassDiagram([Person, Employee, Manager])))
for classes, expected in (
    ([Person, Employee, HasBudget, BudgetManager],
     [("BudgetManager", "person", "Person", "HasRoleTaker"), ("Employee", "person", "Person", "HasRoleTaker")]),
    ([Person, Unparameterised],
     [("Unparameterised", "person", "Person", "Association")]),
):
    print("classes :", [c.__name__ for c in classes])
    print("expected:", expected)
    try:
        got = edges(ClassDiagram(classes))
        print("got     :", got)
        failed |= got != expected
    except Exception as e:
        failed = True
        print("got     : %s: %s" % (type(e).__name__, e))
        print("   -> VIOLATION: the diagram cannot be built")

sys.exit(1 if failed else 0)
