"""
C17 defect 1: an INHERITED field is resolved in the namespace of the subclass' module instead of the module that
declares it, as soon as any annotation of the subclass needs the forward-reference fallback.

 (a) the inherited field of the child points to a same-named class of ANOTHER module (wrong association edge), and
     whether it does depends on the order in which the classes are listed;
 (b) the inherited field loses its association although the child's own module imports the right class.
"""
import sys
import types
import textwrap


def make_module(name: str, source: str) -> types.ModuleType:
    """Create a real module (registered in sys.modules) from source text, so the script stays one file."""
    module = types.ModuleType(name)
    module.__file__ = f"<{name}>"
    sys.modules[name] = module
    exec(compile(textwrap.dedent(source), module.__file__, "exec"), module.__dict__)
    return module

from krrood.class_diagrams.class_diagram import ClassDiagram, Association

m1 = make_module("hunt_c17_m1", """
    from __future__ import annotations
    from dataclasses import dataclass
    from typing import Optional

    @dataclass
    class Foo:                      # the Foo that Base.foo means
        a: int = 0

    @dataclass
    class Base:
        foo: Optional[Foo] = None
""")
m2 = make_module("hunt_c17_m2", """
    from __future__ import annotations
    from dataclasses import dataclass

    @dataclass
    class Foo:                      # unrelated class of the same name
        b: int = 0
""")
m4 = make_module("hunt_c17_m4", """
    from __future__ import annotations
    from dataclasses import dataclass

    @dataclass
    class Other:
        c: int = 0
""")
m3 = make_module("hunt_c17_m3", """
    from __future__ import annotations
    from dataclasses import dataclass
    from typing import Optional, TYPE_CHECKING
    from hunt_c17_m1 import Base
    if TYPE_CHECKING:
        from hunt_c17_m4 import Other   # only for the type checker: a NameError at run time

    @dataclass
    class Child(Base):
        other: Optional[Other] = None
""")


def edges(diagram):
    return sorted(
        (a.source.clazz.__name__, a.field.field.name, a.target.clazz.__module__ + "." + a.target.clazz.__name__)
        for a in diagram.associations
    )


failed = False

# ---- (a) ---------------------------------------------------------------------------------------------------------
expected = [
    ("Base", "foo", "hunt_c17_m1.Foo"),
    ("Child", "foo", "hunt_c17_m1.Foo"),     # inherited from Base: declared in m1, means m1.Foo
    ("Child", "other", "hunt_c17_m4.Other"),
]
classes = [m1.Foo, m1.Base, m2.Foo, m3.Child, m4.Other]
for order in (classes, list(reversed(classes))):
    got = edges(ClassDiagram(order))
    print("order   :", [c.__module__[-2:] + "." + c.__name__ for c in order])
    print("expected:", expected)
    print("got     :", got)
    if got != expected:
        failed = True
        print("  -> VIOLATION: the inherited field Child.foo is associated with the Foo of another module")
    print()

# ---- (b) ---------------------------------------------------------------------------------------------------------
m6 = make_module("hunt_c17_m6", """
    from __future__ import annotations
    from dataclasses import dataclass
    from typing import Optional, TYPE_CHECKING
    if TYPE_CHECKING:
        from hunt_c17_m2 import Foo

    @dataclass
    class Parent6:
        foo: Optional[Foo] = None   # means m2.Foo
""")
m7 = make_module("hunt_c17_m7", """
    from __future__ import annotations
    from dataclasses import dataclass
    from hunt_c17_m6 import Parent6
    from hunt_c17_m2 import Foo     # the child's module even imports the right class

    @dataclass
    class Child7(Parent6):
        n: int = 0
""")
expected = [("Child7", "foo", "hunt_c17_m2.Foo"), ("Parent6", "foo", "hunt_c17_m2.Foo")]
got = edges(ClassDiagram([m2.Foo, m6.Parent6, m7.Child7]))
print("expected:", expected)
print("got     :", got)
if got != expected:
    failed = True
    child_field = ClassDiagram([m2.Foo, m6.Parent6, m7.Child7]).get_wrapped_class(m7.Child7).fields[0]
    print("  -> VIOLATION: Child7.foo resolved to", child_field.resolved_type,
          "- a class that is neither in the diagram nor imported by any of the two modules")

sys.exit(1 if failed else 0)
