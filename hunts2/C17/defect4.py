"""
C17 defect 4: `is_collection_of_builtins` does not see the annotation the way the other predicates do.

  List[Optional[int]]  -> False   (is_container and is_builtin_type are True: it is neither a relationship nor a
                                   collection of builtins, EQL treats it as a scalar, ORMatic drops the column)
  Tuple[int, ...]      -> raises AttributeError ('ellipsis' object has no attribute '__module__')
  Type[int], Type      -> True    (a class is not a collection: EQL then iterates over the class)
"""
from __future__ import annotations

import sys
from dataclasses import dataclass, field
from typing import List, Optional, Tuple, Type

from krrood.class_diagrams.class_diagram import ClassDiagram


@dataclass
class Doc:
    names: List[str] = field(default_factory=list)                  # control
    maybe_names: Optional[List[str]] = None                         # control (repaired case)
    scores: List[Optional[int]] = field(default_factory=list)
    tags: Tuple[str, ...] = ()
    kind: Type[int] = int
    any_kind: Type = int


expected = dict(names=True, maybe_names=True, scores=True, tags=True, kind=False, any_kind=False)

failed = False
wrapped_class = ClassDiagram([Doc]).get_wrapped_class(Doc)
for f in wrapped_class.fields:
    try:
        got = f.is_collection_of_builtins
    except Exception as e:
        got = "%s: %s" % (type(e).__name__, e)
    verdict = "ok" if got == expected[f.name] else "VIOLATION"
    failed |= got != expected[f.name]
    print(f"{f.name:12} {str(f.resolved_type):40} container={f.is_container!s:6} builtin={f.is_builtin_type!s:6}"
          f" expected={expected[f.name]!s:6} got={got}   {verdict}")


# ---- what a user of EQL sees (the classification is trusted by pattern matching) -----------------------------------
from krrood.entity_query_language.predicate import Symbol
from krrood.entity_query_language.symbol_graph import SymbolGraph
from krrood.entity_query_language.quantify_entity import an
from krrood.entity_query_language.match import entity_matching


@dataclass(eq=False)
class SymbolicDoc(Symbol):
    names: List[str] = field(default_factory=list)
    scores: List[Optional[int]] = field(default_factory=list)
    kind: Type[int] = int


SymbolGraph()
docs = [SymbolicDoc(names=["a"], scores=[1, None], kind=bool), SymbolicDoc()]
print()
for pattern, expected_count in ((dict(names="a"), 1), (dict(scores=1), 1), (dict(kind=bool), 1)):
    try:
        got = len(list(an(entity_matching(SymbolicDoc, docs)(**pattern)).evaluate()))
    except Exception as e:
        got = "%s: %s" % (type(e).__name__, e)
    failed |= got != expected_count
    print(f"match(SymbolicDoc)({pattern}) expected {expected_count} answer, got {got}",
          "" if got == expected_count else "  VIOLATION")

sys.exit(1 if failed else 0)
