"""
C17 defect 7 (error path, lower priority): `WrappedField.is_enum` raises "TypeError: issubclass() arg 1 must be a class"
for every field whose annotation is not a class and not a supported wrapper - Dict[str, int] (the test dataset itself
has such fields, `unparseable: Dict[int, int]`), FrozenSet[X], Callable, a TypeVar ... - instead of answering False.
ORMatic asks `is_builtin_type or is_enum` for every field before it reaches its "Skipping due to not handled type"
branch, so one Dict field makes the generation of the whole interface fail.
"""
from __future__ import annotations

import sys
from dataclasses import dataclass, field
from typing import Dict, FrozenSet

from krrood.class_diagrams.class_diagram import ClassDiagram


@dataclass
class K:
    a: int = 0
    d: Dict[str, int] = field(default_factory=dict)
    f: FrozenSet[int] = frozenset()


failed = False
diagram = ClassDiagram([K])
for f in diagram.get_wrapped_class(K).fields:
    try:
        got = f.is_enum
    except Exception as e:
        got = "%s: %s" % (type(e).__name__, e)
    print(f"{f.name}: {f.resolved_type}  is_enum expected False, got {got}")
    failed |= got is not False

from krrood.ormatic.ormatic import ORMatic

try:
    ORMatic(ClassDiagram([K])).make_all_tables()
    print("ORMatic.make_all_tables(): ok (field skipped)")
except TypeError as e:
    failed = True
    print("ORMatic.make_all_tables(): expected the field to be skipped, got TypeError:", e)

sys.exit(1 if failed else 0)
