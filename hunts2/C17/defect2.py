"""
C17 defect 2: a class whose annotations name a class defined INSIDE it (an enum or a dataclass nested in the class
body) cannot be put into a diagram as soon as another annotation is a forward reference that is only imported under
TYPE_CHECKING; and when a class of the diagram happens to have the name of the nested class, the field is silently
associated with that other class.
"""
import sys
import types
import textwrap
import traceback


def make_module(name: str, source: str) -> types.ModuleType:
    """Create a real module (registered in sys.modules) from source text, so the script stays one file."""
    module = types.ModuleType(name)
    module.__file__ = f"<{name}>"
    sys.modules[name] = module
    exec(compile(textwrap.dedent(source), module.__file__, "exec"), module.__dict__)
    return module


from krrood.class_diagrams.class_diagram import ClassDiagram

other = make_module("hunt_c17_other", """
    from __future__ import annotations
    from dataclasses import dataclass

    @dataclass
    class Other:
        c: int = 0

    @dataclass
    class Part:                 # unrelated top level class that has the name of Holder.Part
        q: int = 0
""")
n1 = make_module("hunt_c17_n1", """
    from __future__ import annotations
    import enum
    from dataclasses import dataclass
    from typing import Optional, TYPE_CHECKING
    if TYPE_CHECKING:
        from hunt_c17_other import Other

    @dataclass
    class Plain:                 # control: no TYPE_CHECKING name, works
        class Kind(enum.Enum):
            A = 1

        @dataclass
        class Part:
            p: int = 0

        kind: Kind = None
        part: Optional[Part] = None

    @dataclass
    class Holder:                # the same plus one forward reference
        class Kind(enum.Enum):
            A = 1

        @dataclass
        class Part:
            p: int = 0

        kind: Kind = None
        part: Optional[Part] = None
        other: Optional[Other] = None

    @dataclass
    class Holder2:               # without the enum
        @dataclass
        class Part:
            p: int = 0

        part: Optional[Part] = None
        other: Optional[Other] = None
""")


def edges(diagram):
    return sorted(
        (a.source.clazz.__qualname__, a.field.field.name, a.target.clazz.__module__ + "." + a.target.clazz.__qualname__)
        for a in diagram.associations
    )


failed = False

print("control (no forward reference):", edges(ClassDiagram([n1.Plain, n1.Plain.Part])))

print("\n(a) nested enum + nested dataclass + TYPE_CHECKING name")
expected = [
    ("Holder", "other", "hunt_c17_other.Other"),
    ("Holder", "part", "hunt_c17_n1.Holder.Part"),
]
print("expected:", expected)
try:
    got = edges(ClassDiagram([n1.Holder, n1.Holder.Part, other.Other]))
    print("got     :", got)
    failed |= got != expected
except Exception as e:
    failed = True
    print("got     : %s: %s" % (type(e).__name__, e))
    print("  -> VIOLATION: the diagram cannot be built")

print("\n(b) the nested class shares its name with a class of the diagram")
expected = [
    ("Holder2", "other", "hunt_c17_other.Other"),
    ("Holder2", "part", "hunt_c17_n1.Holder2.Part"),
]
print("expected:", expected)
try:
    got = edges(ClassDiagram([n1.Holder2, n1.Holder2.Part, other.Other, other.Part]))
    print("got     :", got)
    if got != expected:
        failed = True
        print("  -> VIOLATION: Holder2.part is associated with the top level class Part of another module")
except Exception as e:
    failed = True
    print("got     : %s: %s" % (type(e).__name__, e))

sys.exit(1 if failed else 0)
