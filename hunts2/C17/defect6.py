"""
C17 defect 6 (rendering): the tree that `ClassDiagram.visualize()` draws loses an inheritance edge when the two classes
are also connected by an association in the same direction (the base class has a field typed with its subclass).
`_build_rxnode_tree` walks `edge_list()` but fetches the relation with `get_edge_data(source, target)`, which returns
the same one of the parallel edges every time - the accessors were repaired for parallel edges, this path was not.

NOTE: with the rustworkx_utils installed in this environment (0.0.2) `RWXNode(name=..., data=...)` itself raises
"TypeError: missing 1 required positional argument: 'graph'", i.e. `ClassDiagram.visualize()` cannot be used at all.
To look at the tree logic the script falls back to a minimal stand-in for RWXNode (name / data / parents / add_parent,
nothing else is used by _build_rxnode_tree).
"""
from __future__ import annotations

import sys
from dataclasses import dataclass
from typing import Optional

import krrood.class_diagrams.class_diagram as class_diagram_module
from krrood.class_diagrams.class_diagram import ClassDiagram, Inheritance


@dataclass
class A:
    favourite: Optional[B] = None     # association A -> B, parallel to the inheritance edge A -> B


@dataclass
class B(A):
    x: int = 0


failed = False
diagram = ClassDiagram([A, B])
print("edges of the diagram:", [(u, v, type(r).__name__) for u, v, r in diagram._dependency_graph.weighted_edge_list()])
assert any(isinstance(r, Inheritance) for r in diagram.inheritance_relations)

try:
    root = diagram._build_rxnode_tree()
except TypeError as e:
    failed = True
    print("ClassDiagram._build_rxnode_tree() with the installed rustworkx_utils ->", "TypeError:", e)

    class StandInNode:
        def __init__(self, name, data=None):
            self.name, self.data, self.parents, self.children = name, data, [], []

        def add_parent(self, parent):
            self.parents.append(parent)
            parent.children.append(self)

    class_diagram_module.RWXNode = StandInNode
    root = diagram._build_rxnode_tree()


def find(node, name):
    if node.name == name:
        return node
    for child in getattr(node, "children", []):
        found = find(child, name)
        if found:
            return found


node_b = find(root, "B")
parents_of_b = [p.name for p in node_b.parents]
print("expected parents of B in the rendered tree: ['A']")
print("got                                       :", parents_of_b)
if parents_of_b != ["A"]:
    failed = True
    print("   -> VIOLATION: the inheritance A <|- B is not drawn, B hangs below the virtual root")

sys.exit(1 if failed else 0)
