"""
Side finding (truth flags on nodes): an Alternative reads the truth value of its operands from the nodes
(`left._is_false_`). A plain variable that is used as a condition never updates that flag when it takes its values from
its domain (Variable._evaluate__, domain branch), so the alternative believes that its left side holds and emits the
conclusion of the left side for the bindings that only the alternative matches.
"""
import sys
from dataclasses import dataclass

from krrood.entity_query_language.conclusion import Add
from krrood.entity_query_language.entity import let, set_of, inference
from krrood.entity_query_language.quantify_entity import an
from krrood.entity_query_language.rule import alternative


@dataclass(eq=False)
class View:
    kind: str = ""


enabled = let(bool, [False], name="enabled")
size = let(int, [5], name="size")
rule = an(set_of([view := inference(View)(), enabled], enabled))
with rule:
    Add(view, inference(View)(kind="base rule"))
    with alternative(size > 2):
        Add(view, inference(View)(kind="alternative"))
got = [result[view].kind for result in rule.evaluate()]
print("expected: ['alternative'] (enabled is False, the alternative matches)")
print("got:     ", got)
sys.exit(0 if got == ["alternative"] else 1)
