"""
C03 - a second evaluation of a query whose variable has a given domain (a plain list) does not produce what the
query produces when it is evaluated alone on a fresh query object: the variable replays the values that earlier
evaluations happened to pull out of the list and never looks at the list again once one evaluation has drained it.
Whether the second evaluation sees the current content of the list depends on how far the FIRST evaluation was
consumed before it was abandoned.
"""
import sys
from dataclasses import dataclass

from krrood.entity_query_language.entity import let, entity
from krrood.entity_query_language.quantify_entity import an


@dataclass(eq=False)
class Body:
    name: str


def second_evaluation(steps_of_first_evaluation):
    """Evaluate a query partially (or completely), abandon it, change the list, evaluate the same query again."""
    bodies = [Body("b0"), Body("b1"), Body("b2")]
    body = let(Body, bodies)
    query = an(entity(body))

    first = query.evaluate()
    for _ in range(steps_of_first_evaluation):
        next(first, None)
    first.close()  # abandoned, never resumed

    bodies.append(Body("b3"))
    bodies.remove(bodies[0])

    again = [b.name for b in query.evaluate()]
    fresh = [b.name for b in an(entity(let(Body, bodies))).evaluate()]
    return again, fresh


failed = False
for steps in (0, 1, 2, 3, 4):
    again, fresh = second_evaluation(steps)
    verdict = "ok" if again == fresh else "VIOLATION"
    failed |= again != fresh
    print(
        f"first evaluation abandoned after {steps} next(): second evaluation {again}, "
        f"fresh query over the same list {fresh}  -> {verdict}"
    )

print("expected: every second evaluation equals the fresh query (['b1', 'b2', 'b3'])")
sys.exit(1 if failed else 0)
