"""
Side finding (construction, not evaluation): a rule whose only condition is used again inside its own alternative
(`alternative(not_(k), ...)`) never finishes to build. `not_(k)` makes the Not node the primary parent of k, the
alternative is then hung under that Not node (rule._parent_in_the_tree), which is a descendant of the alternative:
a cycle of primary parents, RWXNode.root loops for ever.
"""
import signal
import sys
from dataclasses import dataclass

from krrood.entity_query_language.conclusion import Add
from krrood.entity_query_language.entity import let, entity, inference, not_
from krrood.entity_query_language.quantify_entity import an
from krrood.entity_query_language.rule import alternative


@dataclass(eq=False)
class Conn:
    kind: str
    size: int


@dataclass(eq=False)
class View:
    conn: Conn = None


def too_long(*_):
    print("got: still building the rule after 10 seconds (endless loop in RWXNode.root)")
    sys.exit(1)


signal.signal(signal.SIGALRM, too_long)
signal.alarm(10)

conn = let(Conn, [Conn("fixed", 1), Conn("rev", 2)])
is_fixed = conn.kind == "fixed"
rule = an(entity(view := inference(View)(), is_fixed))
print("expected: the rule is built and yields two views")
with rule:
    Add(view, inference(View)(conn=conn))
    with alternative(not_(is_fixed), conn.size > 0):
        Add(view, inference(View)(conn=conn))
signal.alarm(0)
print("got:", len(list(rule.evaluate())), "views")
