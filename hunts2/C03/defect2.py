"""
C03 - an evaluation of one query changes what a DIFFERENT query (no shared variable, no shared sub-expression)
produces: a rule query with a conclusion selector (refinement / alternative / next_rule) keeps every instance it
concluded something for in the `concluded_before` sets of its selectors after the evaluation has finished (or was
abandoned). A domain-less variable ranges over the instances that exist; an instance that the program dropped is
kept in existence by the finished rule evaluation and therefore shows up in the other query.
"""
import gc
import sys
from dataclasses import dataclass

from krrood.entity_query_language.conclusion import Add
from krrood.entity_query_language.entity import let, entity, inference
from krrood.entity_query_language.predicate import Symbol
from krrood.entity_query_language.quantify_entity import an
from krrood.entity_query_language.rule import refinement


@dataclass(eq=False)
class Body(Symbol):
    name: str
    size: int = 0


@dataclass(eq=False)
class View(Symbol):
    body: Body = None


@dataclass(eq=False)
class BigView(View): ...


def other_query_after(evaluate_the_rule_first: str):
    bodies = [Body("b0", 0), Body("b1", 1), Body("b2", 2)]

    body = let(Body, None)
    rule = an(entity(view := inference(View)(), body.size >= 0))
    with rule:
        Add(view, inference(View)(body=body))
        with refinement(body.size > 1):
            Add(view, inference(BigView)(body=body))

    other_body = let(Body, None)
    other_query = an(entity(other_body, other_body.size >= 0))

    if evaluate_the_rule_first == "completely":
        for _ in rule.evaluate():
            pass
    elif evaluate_the_rule_first == "one result, then abandoned":
        iterator = rule.evaluate()
        next(iterator)
        iterator.close()
        del iterator

    del bodies[0]  # b0 is gone for the program
    gc.collect()
    return [b.name for b in other_query.evaluate()], rule


failed = False
alone, _ = other_query_after("not at all")
print("other query evaluated alone:                       ", alone)
for how in ("completely", "one result, then abandoned"):
    gc.collect()
    got, rule = other_query_after(how)
    print(f"after the rule query was evaluated ({how}):", got)
    failed |= got != alone
    # what keeps b0: the de-duplication memory of the selector
    holders = [
        node
        for node in rule._descendants_
        if "concluded_before" in vars(node)
        and any(s.constraints for s in node.concluded_before.values())
    ]
    print("   selectors that still remember bindings:", [type(n).__name__ for n in holders])
    for node in holders:
        for seen in node.concluded_before.values():
            seen.clear()
    del rule, holders
print("expected: ['b1', 'b2'] in every case")
sys.exit(1 if failed else 0)
