"""
C03 - the result of ONE evaluation of a rule query depends on what the consumer does with the instances it is
handed: a domain-less variable ("the instances of the type that exist when the query is evaluated") takes its
snapshot of the symbol graph lazily, class by class, while the evaluation is running. The instances that the rule
itself infers in the meantime are instances of a subclass that is looked at later, so the rule is fed with its own
conclusions - if, and only if, the consumer still holds on to them.
"""
import gc
import sys
from dataclasses import dataclass

from krrood.entity_query_language.conclusion import Add
from krrood.entity_query_language.entity import let, entity, inference
from krrood.entity_query_language.predicate import Symbol
from krrood.entity_query_language.quantify_entity import an


@dataclass(eq=False)
class Body(Symbol):
    name: str


@dataclass(eq=False)
class View(Symbol):
    body: Body = None


@dataclass(eq=False)
class Door(View): ...


@dataclass(eq=False)
class Wardrobe(View): ...  # defined after Door: its instances are looked up after the doors


bodies = [Body("b0"), Body("b1")]
doors = [Door(bodies[0]), Door(bodies[1])]  # the only views that exist when a query is evaluated


def build():
    some_view = let(View, None)
    query = an(entity(inferred := inference(View)(), some_view.body.name != ""))
    with query:
        Add(inferred, inference(Wardrobe)(body=some_view.body))
    return query


def consume_keeping_results(query):
    results = list(query.evaluate())
    return len(results)


def consume_dropping_results(query):
    count = 0
    iterator = query.evaluate()
    while True:
        try:
            next(iterator)  # the result is dropped at once
        except StopIteration:
            return count
        count += 1


query = build()
kept_1 = consume_keeping_results(query)
gc.collect()
dropped = consume_dropping_results(query)
gc.collect()
kept_2 = consume_keeping_results(query)
gc.collect()
fresh_dropped = consume_dropping_results(build())
gc.collect()

print("two doors exist, one wardrobe is expected per door: 2 results per evaluation")
print("evaluation 1, list(query.evaluate()):           ", kept_1)
print("evaluation 2, results dropped as they come:     ", dropped)
print("evaluation 3, list(query.evaluate()) again:     ", kept_2)
print("fresh query, results dropped as they come:      ", fresh_dropped)
sys.exit(0 if kept_1 == dropped == kept_2 == fresh_dropped == 2 else 1)
