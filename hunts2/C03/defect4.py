"""
C03 (per-node evaluation state, "evaluation parent") - two positions of ONE query share a sub-expression: a
symbolic function call that is a condition and is selected as well. Whether a value of it counts as a condition is
read from the node (`_eval_parent_`) while the generator of the first position is resumed, i.e. after the second
position has overwritten it. From the first true value on, false values of the condition pass.
"""
import sys
from dataclasses import dataclass

from krrood.entity_query_language.entity import let, set_of, and_
from krrood.entity_query_language.predicate import symbolic_function
from krrood.entity_query_language.quantify_entity import an


@dataclass(eq=False)
class Body:
    name: str
    size: int


@symbolic_function
def is_odd(body: Body) -> bool:
    return body.size % 2 == 1


bodies = [Body(f"b{i}", i) for i in range(5)]


def names(query, body):
    return [result[body].name for result in query.evaluate()]


body = let(Body, bodies)
condition = is_odd(body)
only_condition = an(set_of([body], and_(condition, body.size >= 0)))
expected = names(only_condition, body)

body = let(Body, bodies)
condition = is_odd(body)
condition_and_selected = an(set_of([body, condition], and_(condition, body.size >= 0)))
got = [(r[body].name, r[condition]) for r in condition_and_selected.evaluate()]

print("expected bodies (is_odd is a condition):          ", expected)
print("got when the value of is_odd is selected as well: ", got)
sys.exit(0 if [name for name, _ in got] == expected else 1)
