"""
Side finding (second use of the same object, construction): a match pattern can be quantified once only. The first
an(pattern) resolves the pattern and sets pattern.variable, quantify_entity._quantify_entity then takes the pattern
for a nested one ("not entity_.variable") and hands the Match object itself to the quantifier.
"""
import sys
from dataclasses import dataclass

from krrood.entity_query_language.match import entity_matching
from krrood.entity_query_language.predicate import Symbol
from krrood.entity_query_language.quantify_entity import an, the


@dataclass(eq=False)
class Body(Symbol):
    name: str
    size: int


bodies = [Body("b0", 0), Body("b1", 1)]
pattern = entity_matching(Body, bodies)(size=1)
print("first  an(pattern):", [b.name for b in an(pattern).evaluate()])
try:
    print("second the(pattern):", the(pattern).evaluate().name)
except Exception as error:
    print("second the(pattern): raised", type(error).__name__, "-", error)
    sys.exit(1)
