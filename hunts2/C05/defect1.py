"""
C05 defect 1: a collection reference that is declared Optional and holds None cannot be persisted.

Optional[List[X]] is accepted by the generator since the repair "a declared type is seen through Optional and
container wrappers together" (the field becomes an association table; before that repair the generator failed),
but DataAccessObject._extract_collection_relationship iterates over the value without looking at None.

Expected: Holder(things=None) is stored and comes back equal (the property: optional values come back equal).
Got:      TypeError: 'NoneType' object is not iterable in to_dao - the object cannot be stored at all.
"""
from __future__ import annotations

import importlib.util
import os
import shutil
import sys
import tempfile
import traceback
from dataclasses import dataclass, field
from typing import List, Optional, Set, Tuple, Type

from sqlalchemy import select
from sqlalchemy.orm import Session, configure_mappers

from krrood.class_diagrams import ClassDiagram
from krrood.ormatic.dao import to_dao
from krrood.ormatic.ormatic import ORMatic
from krrood.ormatic.utils import create_engine


@dataclass
class Thing:
    a: int = 0


@dataclass
class Holder:
    things: Optional[List[Thing]] = None


def build_interface(classes, **kwargs):
    """Generates the SQLAlchemy interface for the classes with ORMatic and imports it."""
    ormatic = ORMatic(ClassDiagram(list(classes)), **kwargs)
    ormatic.make_all_tables()
    directory = tempfile.mkdtemp()
    try:
        path = os.path.join(directory, "generated_interface.py")
        with open(path, "w") as f:
            ormatic.to_sqlalchemy_file(f)
        spec = importlib.util.spec_from_file_location("generated_interface", path)
        module = importlib.util.module_from_spec(spec)
        sys.modules["generated_interface"] = module
        spec.loader.exec_module(module)
    finally:
        shutil.rmtree(directory)
    configure_mappers()
    return module


def roundtrip(module, obj, load_as=None):
    """to_dao + commit in one session, load in a fresh session on the same engine, from_dao."""
    engine = create_engine("sqlite:///:memory:")
    module.Base.metadata.create_all(engine)
    with Session(engine) as session:
        dao = to_dao(obj)
        session.add(dao)
        session.commit()
        key = dao.database_id
        load_as = load_as or type(dao)
    with Session(engine) as fresh_session:
        loaded = fresh_session.scalars(
            select(load_as).where(load_as.database_id == key)
        ).one()
        return loaded.from_dao()


if __name__ == "__main__":
    interface = build_interface([Thing, Holder])
    failures = 0
    for original in [Holder([Thing(1)]), Holder([]), Holder(None)]:
        print("expected:", original)
        try:
            restored = roundtrip(interface, original)
            print("got:     ", restored)
            failures += restored != original
        except Exception as e:
            traceback.print_exc(limit=-2)
            print("got:      ", type(e).__name__, e)
            failures += 1
    print("DEFECT" if failures else "ok")
    sys.exit(1 if failures else 0)
