"""
C05 defect 12: an alternatively mapped subclass whose mapping derives from the mapping of its (alternatively
mapped) parent gets the inherited values converted back twice - silent corruption of the restored object.

This is the ParentBaseMapping / ChildBaseMapping(ParentBaseMapping, AlternativeMapping[ChildBase]) pattern of the
repository's test/dataset/example_classes.py (whose mappings cannot be round-tripped because their create_from_dao
is not implemented, so the tests never see it).

The repair "from_dao takes inherited fields of an alternatively mapped ancestor through its mapping" made
DataAccessObject._build_base_kwargs_for_alternative_parent return *every* constructor argument that the ancestor's
table holds, taken from `ancestor_dao.from_dao()` - i.e. from the ORIGINAL object the ancestor's mapping creates -
and from_dao lets these win over the DAO's own columns (`init_args = {**kwargs, **base_kwargs}`).  That is right
for a normally mapped subclass (its constructor takes original values).  For a subclass that is itself
alternatively mapped the constructor is the one of the *mapping* class, which takes MAPPED values: it now receives
the already converted value and create_from_dao() converts it a second time.

Expected: Car(price=12.5, doors=2) comes back equal (it did before that repair), via CarMappingDAO and via the
          base class VehicleMappingDAO.
Got:      Car(price=0.125, doors=2): the cents -> price conversion ran twice.  Rows in the database are correct
          (price = 1250).
"""
from __future__ import annotations

import importlib.util
import os
import shutil
import sys
import tempfile
import traceback
from dataclasses import dataclass, field
from typing import List, Optional, Set, Tuple, Type

from sqlalchemy import select
from sqlalchemy.orm import Session, configure_mappers

from krrood.class_diagrams import ClassDiagram
from krrood.ormatic.dao import to_dao
from krrood.ormatic.ormatic import ORMatic
from krrood.ormatic.utils import create_engine
from krrood.ormatic.dao import AlternativeMapping


@dataclass
class Vehicle:
    price: float = 0.0


@dataclass
class Car(Vehicle):
    doors: int = 4


@dataclass
class VehicleMapping(AlternativeMapping[Vehicle]):
    price: int = 0
    """The price in cents."""

    @classmethod
    def create_instance(cls, obj: Vehicle):
        return cls(round(obj.price * 100))

    def create_from_dao(self) -> Vehicle:
        return Vehicle(self.price / 100)


@dataclass
class CarMapping(VehicleMapping, AlternativeMapping[Car]):
    doors: int = 4

    @classmethod
    def create_instance(cls, obj: Car):
        return cls(round(obj.price * 100), obj.doors)

    def create_from_dao(self) -> Car:
        return Car(self.price / 100, self.doors)


def build_interface(classes, **kwargs):
    """Generates the SQLAlchemy interface for the classes with ORMatic and imports it."""
    ormatic = ORMatic(ClassDiagram(list(classes)), **kwargs)
    ormatic.make_all_tables()
    directory = tempfile.mkdtemp()
    try:
        path = os.path.join(directory, "generated_interface.py")
        with open(path, "w") as f:
            ormatic.to_sqlalchemy_file(f)
        spec = importlib.util.spec_from_file_location("generated_interface", path)
        module = importlib.util.module_from_spec(spec)
        sys.modules["generated_interface"] = module
        spec.loader.exec_module(module)
    finally:
        shutil.rmtree(directory)
    configure_mappers()
    return module


def roundtrip(module, obj, load_as=None):
    """to_dao + commit in one session, load in a fresh session on the same engine, from_dao."""
    engine = create_engine("sqlite:///:memory:")
    module.Base.metadata.create_all(engine)
    with Session(engine) as session:
        dao = to_dao(obj)
        session.add(dao)
        session.commit()
        key = dao.database_id
        load_as = load_as or type(dao)
    with Session(engine) as fresh_session:
        loaded = fresh_session.scalars(
            select(load_as).where(load_as.database_id == key)
        ).one()
        return loaded.from_dao()


if __name__ == "__main__":
    interface = build_interface(
        [Vehicle, Car], alternative_mappings=[VehicleMapping, CarMapping]
    )
    failures = 0
    for original, load_as in [
        (Vehicle(12.5), interface.VehicleMappingDAO),
        (Car(12.5, 2), interface.CarMappingDAO),
        (Car(12.5, 2), interface.VehicleMappingDAO),
    ]:
        restored = roundtrip(interface, original, load_as)
        ok = restored == original
        failures += not ok
        print("expected:", original, "loaded through", load_as.__name__)
        print("got:     ", restored, "" if ok else "<-- DIFFERENT")
    print("DEFECT" if failures else "ok")
    sys.exit(1 if failures else 0)
