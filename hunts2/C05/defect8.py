"""
C05 defect 8: tuples inside a JSON list come back as lists (and a Set of tuples cannot be restored at all).

A `List[tuple[int, int]]` (PEP 585 spelling of the element type; `tuple[int, int].__module__` is "builtins", so
WrappedField.is_collection_of_builtins accepts it) is stored in a JSON column.  json_serializer.to_json turns
every tuple into a JSON array, from_json gives lists back, and dao.declared_collection only converts the outermost
collection.  For `Set[tuple[int, int]]` the conversion of the outer collection then fails because the inner lists
are not hashable.

Expected: Polygon(points=[(0, 0), (1, 2)], cells={(1, 1)}) comes back equal ("JSON-list values come back equal").
Got:      points == [[0, 0], [1, 2]];  with a non-empty `cells`: TypeError: unhashable type: 'list' in from_dao.
"""
from __future__ import annotations

import importlib.util
import os
import shutil
import sys
import tempfile
import traceback
from dataclasses import dataclass, field
from typing import List, Optional, Set, Tuple, Type

from sqlalchemy import select
from sqlalchemy.orm import Session, configure_mappers

from krrood.class_diagrams import ClassDiagram
from krrood.ormatic.dao import to_dao
from krrood.ormatic.ormatic import ORMatic
from krrood.ormatic.utils import create_engine


@dataclass
class Polygon:
    points: List[tuple[int, int]] = field(default_factory=list)
    cells: Set[tuple[int, int]] = field(default_factory=set)


def build_interface(classes, **kwargs):
    """Generates the SQLAlchemy interface for the classes with ORMatic and imports it."""
    ormatic = ORMatic(ClassDiagram(list(classes)), **kwargs)
    ormatic.make_all_tables()
    directory = tempfile.mkdtemp()
    try:
        path = os.path.join(directory, "generated_interface.py")
        with open(path, "w") as f:
            ormatic.to_sqlalchemy_file(f)
        spec = importlib.util.spec_from_file_location("generated_interface", path)
        module = importlib.util.module_from_spec(spec)
        sys.modules["generated_interface"] = module
        spec.loader.exec_module(module)
    finally:
        shutil.rmtree(directory)
    configure_mappers()
    return module


def roundtrip(module, obj, load_as=None):
    """to_dao + commit in one session, load in a fresh session on the same engine, from_dao."""
    engine = create_engine("sqlite:///:memory:")
    module.Base.metadata.create_all(engine)
    with Session(engine) as session:
        dao = to_dao(obj)
        session.add(dao)
        session.commit()
        key = dao.database_id
        load_as = load_as or type(dao)
    with Session(engine) as fresh_session:
        loaded = fresh_session.scalars(
            select(load_as).where(load_as.database_id == key)
        ).one()
        return loaded.from_dao()


if __name__ == "__main__":
    interface = build_interface([Polygon])
    failures = 0
    for original in [Polygon([(0, 0), (1, 2)]), Polygon([], {(1, 1)})]:
        print("expected:", original)
        try:
            restored = roundtrip(interface, original)
            print("got:     ", restored)
            failures += restored != original
        except Exception as e:
            traceback.print_exc(limit=-2)
            print("got:      ", type(e).__name__, e)
            failures += 1
    print("DEFECT" if failures else "ok")
    sys.exit(1 if failures else 0)
