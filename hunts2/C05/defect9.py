"""
C05 defect 9 (generation, blocks the round trip): the standard spelling of a homogeneous tuple of builtins,
Tuple[int, ...], makes ORMatic.make_all_tables() fail with an AttributeError.

WrappedField.is_collection_of_builtins asks every type argument for its __module__; the Ellipsis of
Tuple[int, ...] has none.  (Tuple[Node, ...] happens to work, because all() stops at the first argument.)  The
repair "sets and tuples of builtins come back from the database as the declared collection" therefore only covers
fixed-length tuples.

Expected: Sample(values=(1, 2, 3)) is stored in a JSON column and comes back as the tuple (1, 2, 3).
Got:      AttributeError: 'ellipsis' object has no attribute '__module__' while the interface is generated.
"""
from __future__ import annotations

import importlib.util
import os
import shutil
import sys
import tempfile
import traceback
from dataclasses import dataclass, field
from typing import List, Optional, Set, Tuple, Type

from sqlalchemy import select
from sqlalchemy.orm import Session, configure_mappers

from krrood.class_diagrams import ClassDiagram
from krrood.ormatic.dao import to_dao
from krrood.ormatic.ormatic import ORMatic
from krrood.ormatic.utils import create_engine


@dataclass
class Sample:
    values: Tuple[int, ...] = ()


def build_interface(classes, **kwargs):
    """Generates the SQLAlchemy interface for the classes with ORMatic and imports it."""
    ormatic = ORMatic(ClassDiagram(list(classes)), **kwargs)
    ormatic.make_all_tables()
    directory = tempfile.mkdtemp()
    try:
        path = os.path.join(directory, "generated_interface.py")
        with open(path, "w") as f:
            ormatic.to_sqlalchemy_file(f)
        spec = importlib.util.spec_from_file_location("generated_interface", path)
        module = importlib.util.module_from_spec(spec)
        sys.modules["generated_interface"] = module
        spec.loader.exec_module(module)
    finally:
        shutil.rmtree(directory)
    configure_mappers()
    return module


def roundtrip(module, obj, load_as=None):
    """to_dao + commit in one session, load in a fresh session on the same engine, from_dao."""
    engine = create_engine("sqlite:///:memory:")
    module.Base.metadata.create_all(engine)
    with Session(engine) as session:
        dao = to_dao(obj)
        session.add(dao)
        session.commit()
        key = dao.database_id
        load_as = load_as or type(dao)
    with Session(engine) as fresh_session:
        loaded = fresh_session.scalars(
            select(load_as).where(load_as.database_id == key)
        ).one()
        return loaded.from_dao()


if __name__ == "__main__":
    original = Sample((1, 2, 3))
    print("expected:", original)
    try:
        interface = build_interface([Sample])
        restored = roundtrip(interface, original)
        print("got:     ", restored)
        failures = restored != original
    except Exception as e:
        traceback.print_exc(limit=-2)
        print("got:      ", type(e).__name__, e)
        failures = 1
    print("DEFECT" if failures else "ok")
    sys.exit(1 if failures else 0)
