"""
C05 defect 13: a function-valued field (the library's own FunctionMapping) that holds a method of a class defined
inside another class is restored as ANOTHER function, silently, or not at all.

krrood.ormatic.alternative_mappings.FunctionMapping.create_instance keeps only the FIRST component of the
qualified name as `class_name` (`obj.__qualname__.split(".")[0]`) and the bare function name; create_from_dao
returns getattr(getattr(module, class_name), function_name).  For Outer.Inner.run that is Outer.run when the outer
class has a method of the same name (wrong value, no error) and an AttributeError otherwise.

Expected: Wrapper(func=Outer.Inner.run) comes back with func is Outer.Inner.run.
Got:      func is Outer.run;  Wrapper(func=Outer.Inner.only_inner) -> AttributeError in from_dao.
"""
from __future__ import annotations

import importlib.util
import os
import shutil
import sys
import tempfile
import traceback
from dataclasses import dataclass, field
from typing import List, Optional, Set, Tuple, Type

from sqlalchemy import select
from sqlalchemy.orm import Session, configure_mappers

from krrood.class_diagrams import ClassDiagram
from krrood.ormatic.dao import to_dao
from krrood.ormatic.ormatic import ORMatic
from krrood.ormatic.utils import create_engine
from types import FunctionType
from krrood.ormatic.alternative_mappings import FunctionMapping


class Outer:
    def run(self):
        return "outer"

    class Inner:
        def run(self):
            return "inner"

        def only_inner(self):
            return "only inner"


@dataclass
class Wrapper:
    func: FunctionType


def build_interface(classes, **kwargs):
    """Generates the SQLAlchemy interface for the classes with ORMatic and imports it."""
    ormatic = ORMatic(ClassDiagram(list(classes)), **kwargs)
    ormatic.make_all_tables()
    directory = tempfile.mkdtemp()
    try:
        path = os.path.join(directory, "generated_interface.py")
        with open(path, "w") as f:
            ormatic.to_sqlalchemy_file(f)
        spec = importlib.util.spec_from_file_location("generated_interface", path)
        module = importlib.util.module_from_spec(spec)
        sys.modules["generated_interface"] = module
        spec.loader.exec_module(module)
    finally:
        shutil.rmtree(directory)
    configure_mappers()
    return module


def roundtrip(module, obj, load_as=None):
    """to_dao + commit in one session, load in a fresh session on the same engine, from_dao."""
    engine = create_engine("sqlite:///:memory:")
    module.Base.metadata.create_all(engine)
    with Session(engine) as session:
        dao = to_dao(obj)
        session.add(dao)
        session.commit()
        key = dao.database_id
        load_as = load_as or type(dao)
    with Session(engine) as fresh_session:
        loaded = fresh_session.scalars(
            select(load_as).where(load_as.database_id == key)
        ).one()
        return loaded.from_dao()


if __name__ == "__main__":
    interface = build_interface(
        [Wrapper, FunctionType], alternative_mappings=[FunctionMapping]
    )
    failures = 0
    for function in [Outer.run, Outer.Inner.run, Outer.Inner.only_inner]:
        print("expected:", function.__qualname__)
        try:
            restored = roundtrip(interface, Wrapper(function))
            ok = restored.func is function
            print("got:     ", restored.func.__qualname__, "" if ok else "<-- DIFFERENT")
            failures += not ok
        except Exception as e:
            print("got:      ", type(e).__name__, e)
            failures += 1
    print("DEFECT" if failures else "ok")
    sys.exit(1 if failures else 0)
