"""
C05 defect 3: every set / tuple field of a class that has one annotation imported under TYPE_CHECKING comes back
as a list.

dao._declared_collection_type calls typing.get_type_hints(clazz) and returns None on any exception.  A class whose
module imports one of its annotation names only under TYPE_CHECKING (the idiom the repository's
test/dataset/cyclic_imports.py uses, and which WrappedField.resolved_type was repaired to support) makes
get_type_hints raise NameError for the whole class, so no field of that class - not even a Set[str] of builtins -
is restored in its declared collection type.  Generation, to_dao and the database content are fine.

Expected: Club.tags is a set and Club.pair a tuple after the round trip (they are when the import is unconditional).
Got:      lists.
"""
from __future__ import annotations

import importlib.util
import os
import shutil
import sys
import tempfile
import traceback
from dataclasses import dataclass, field
from typing import List, Optional, Set, Tuple, Type

from sqlalchemy import select
from sqlalchemy.orm import Session, configure_mappers

from krrood.class_diagrams import ClassDiagram
from krrood.ormatic.dao import to_dao
from krrood.ormatic.ormatic import ORMatic
from krrood.ormatic.utils import create_engine


CLUB_MODULE = '''
from __future__ import annotations
from dataclasses import dataclass, field
from typing import List, Set, Tuple, TYPE_CHECKING

if TYPE_CHECKING:
    from c05_defect3_members import Member


@dataclass
class Club:
    tags: Set[str] = field(default_factory=set)
    pair: Tuple[int, int] = (0, 0)
    members: List[Member] = field(default_factory=list)
'''

MEMBER_MODULE = '''
from __future__ import annotations
from dataclasses import dataclass
from typing import Optional
from c05_defect3_clubs import Club


@dataclass
class Member:
    name: str = ""
    club: Optional[Club] = None
'''


def build_interface(classes, **kwargs):
    """Generates the SQLAlchemy interface for the classes with ORMatic and imports it."""
    ormatic = ORMatic(ClassDiagram(list(classes)), **kwargs)
    ormatic.make_all_tables()
    directory = tempfile.mkdtemp()
    try:
        path = os.path.join(directory, "generated_interface.py")
        with open(path, "w") as f:
            ormatic.to_sqlalchemy_file(f)
        spec = importlib.util.spec_from_file_location("generated_interface", path)
        module = importlib.util.module_from_spec(spec)
        sys.modules["generated_interface"] = module
        spec.loader.exec_module(module)
    finally:
        shutil.rmtree(directory)
    configure_mappers()
    return module


def roundtrip(module, obj, load_as=None):
    """to_dao + commit in one session, load in a fresh session on the same engine, from_dao."""
    engine = create_engine("sqlite:///:memory:")
    module.Base.metadata.create_all(engine)
    with Session(engine) as session:
        dao = to_dao(obj)
        session.add(dao)
        session.commit()
        key = dao.database_id
        load_as = load_as or type(dao)
    with Session(engine) as fresh_session:
        loaded = fresh_session.scalars(
            select(load_as).where(load_as.database_id == key)
        ).one()
        return loaded.from_dao()


if __name__ == "__main__":
    model_directory = tempfile.mkdtemp()
    try:
        for name, source in [("c05_defect3_clubs", CLUB_MODULE), ("c05_defect3_members", MEMBER_MODULE)]:
            with open(os.path.join(model_directory, name + ".py"), "w") as f:
                f.write(source)
        sys.path.insert(0, model_directory)
        from c05_defect3_clubs import Club
        from c05_defect3_members import Member

        interface = build_interface([Club, Member])
        original = Club({"a", "b"}, (1, 2), [Member("m")])
        restored = roundtrip(interface, original)
    finally:
        shutil.rmtree(model_directory)
    print("expected:", original)
    print("got:     ", restored)
    failures = (type(restored.tags) is not set) + (type(restored.pair) is not tuple)
    print("DEFECT" if failures else "ok")
    sys.exit(1 if failures else 0)
