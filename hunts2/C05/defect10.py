"""
C05 defect 10 (generation, blocks the round trip): a mapped dataclass that is defined inside another class gives a
generated interface that cannot be imported.

The repair "the generated interface refers to a class by its qualified name" changed utils.module_and_class_name,
which is used for column types (the nested enum of that repair).  The class statement of the DAO itself is written
by templates/sqlalchemy_model.py.jinja as
    DataAccessObject[{{ clazz.__module__ }}.{{ clazz.__name__ }}]
i.e. still with the plain name, so for Robot.Config it reads `DataAccessObject[module.Config]`.

Expected: Owner(cfg=Robot.Config(3)) round-trips.
Got:      AttributeError: module ... has no attribute 'Config' when the generated module is imported.
"""
from __future__ import annotations

import importlib.util
import os
import shutil
import sys
import tempfile
import traceback
from dataclasses import dataclass, field
from typing import List, Optional, Set, Tuple, Type

from sqlalchemy import select
from sqlalchemy.orm import Session, configure_mappers

from krrood.class_diagrams import ClassDiagram
from krrood.ormatic.dao import to_dao
from krrood.ormatic.ormatic import ORMatic
from krrood.ormatic.utils import create_engine


class Robot:
    @dataclass
    class Config:
        speed: int = 0


@dataclass
class Owner:
    cfg: Optional[Robot.Config] = None


def build_interface(classes, **kwargs):
    """Generates the SQLAlchemy interface for the classes with ORMatic and imports it."""
    ormatic = ORMatic(ClassDiagram(list(classes)), **kwargs)
    ormatic.make_all_tables()
    directory = tempfile.mkdtemp()
    try:
        path = os.path.join(directory, "generated_interface.py")
        with open(path, "w") as f:
            ormatic.to_sqlalchemy_file(f)
        spec = importlib.util.spec_from_file_location("generated_interface", path)
        module = importlib.util.module_from_spec(spec)
        sys.modules["generated_interface"] = module
        spec.loader.exec_module(module)
    finally:
        shutil.rmtree(directory)
    configure_mappers()
    return module


def roundtrip(module, obj, load_as=None):
    """to_dao + commit in one session, load in a fresh session on the same engine, from_dao."""
    engine = create_engine("sqlite:///:memory:")
    module.Base.metadata.create_all(engine)
    with Session(engine) as session:
        dao = to_dao(obj)
        session.add(dao)
        session.commit()
        key = dao.database_id
        load_as = load_as or type(dao)
    with Session(engine) as fresh_session:
        loaded = fresh_session.scalars(
            select(load_as).where(load_as.database_id == key)
        ).one()
        return loaded.from_dao()


if __name__ == "__main__":
    original = Owner(Robot.Config(3))
    print("expected:", original)
    try:
        interface = build_interface([Robot.Config, Owner])
        restored = roundtrip(interface, original)
        print("got:     ", restored)
        failures = restored != original
    except Exception as e:
        traceback.print_exc(limit=-1)
        print("got:      ", type(e).__name__, e)
        failures = 1
    print("DEFECT" if failures else "ok")
    sys.exit(1 if failures else 0)
