"""
C05 defect 4: an object that occurs twice in one collection field is restored once.

A collection field is an association table (owner id, element id) without a position; to_dao writes one
association row per occurrence, but the rows are loaded through a plain `relationship(secondary=...)`, and
SQLAlchemy de-duplicates the entities of a collection load by identity.  So [a, b, a] comes back as [a, b], and a
fixed-length Tuple[Node, Node] that names the same node twice (a self loop) comes back as a 1-tuple.

Expected: the relationship collections contain the same elements (property: "relationship collections contain the
          same elements"), i.e. Edge(ends=(n, n)) -> ends == (n, n); Path(nodes=[a, b, a]) -> 3 nodes.
Got:      ends == (n,) and 2 nodes, although the association tables hold 2 and 3 rows.
"""
from __future__ import annotations

import importlib.util
import os
import shutil
import sys
import tempfile
import traceback
from dataclasses import dataclass, field
from typing import List, Optional, Set, Tuple, Type

from sqlalchemy import select
from sqlalchemy.orm import Session, configure_mappers

from krrood.class_diagrams import ClassDiagram
from krrood.ormatic.dao import to_dao
from krrood.ormatic.ormatic import ORMatic
from krrood.ormatic.utils import create_engine


@dataclass
class Node:
    name: str = ""


@dataclass
class Edge:
    ends: Tuple[Node, Node]


@dataclass
class Path:
    nodes: List[Node] = field(default_factory=list)


def build_interface(classes, **kwargs):
    """Generates the SQLAlchemy interface for the classes with ORMatic and imports it."""
    ormatic = ORMatic(ClassDiagram(list(classes)), **kwargs)
    ormatic.make_all_tables()
    directory = tempfile.mkdtemp()
    try:
        path = os.path.join(directory, "generated_interface.py")
        with open(path, "w") as f:
            ormatic.to_sqlalchemy_file(f)
        spec = importlib.util.spec_from_file_location("generated_interface", path)
        module = importlib.util.module_from_spec(spec)
        sys.modules["generated_interface"] = module
        spec.loader.exec_module(module)
    finally:
        shutil.rmtree(directory)
    configure_mappers()
    return module


def roundtrip(module, obj, load_as=None):
    """to_dao + commit in one session, load in a fresh session on the same engine, from_dao."""
    engine = create_engine("sqlite:///:memory:")
    module.Base.metadata.create_all(engine)
    with Session(engine) as session:
        dao = to_dao(obj)
        session.add(dao)
        session.commit()
        key = dao.database_id
        load_as = load_as or type(dao)
    with Session(engine) as fresh_session:
        loaded = fresh_session.scalars(
            select(load_as).where(load_as.database_id == key)
        ).one()
        return loaded.from_dao()


if __name__ == "__main__":
    interface = build_interface([Node, Edge, Path])
    a, b = Node("a"), Node("b")
    failures = 0
    for original in [Edge((a, b)), Edge((a, a)), Path([a, b, a])]:
        restored = roundtrip(interface, original)
        ok = restored == original
        failures += not ok
        print("expected:", original)
        print("got:     ", restored, "" if ok else "<-- DIFFERENT")
    print("DEFECT" if failures else "ok")
    sys.exit(1 if failures else 0)
