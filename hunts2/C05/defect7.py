"""
C05 defect 7: a Type[...] field whose value is a class defined inside another class is written but cannot be read.

TypeType.process_bind_param writes utils.module_and_class_name(value), which is the *qualified* name since the
repair "the generated interface refers to a class by its qualified name" ("module.Outer.Inner").
TypeType.process_result_value still splits at the last dot and imports "module.Outer" as a module.  (Before that
repair "module.Inner" was written and getattr(module, "Inner") failed; the JSON serialiser got
_resolve_enclosing_class for exactly this, custom_types.TypeType did not.)

Expected: Holder(kind=Shapes.Circle) comes back equal.
Got:      ModuleNotFoundError while the row is loaded in the fresh session.
"""
from __future__ import annotations

import importlib.util
import os
import shutil
import sys
import tempfile
import traceback
from dataclasses import dataclass, field
from typing import List, Optional, Set, Tuple, Type

from sqlalchemy import select
from sqlalchemy.orm import Session, configure_mappers

from krrood.class_diagrams import ClassDiagram
from krrood.ormatic.dao import to_dao
from krrood.ormatic.ormatic import ORMatic
from krrood.ormatic.utils import create_engine


@dataclass
class Shape:
    a: int = 0


class Shapes:
    @dataclass
    class Circle(Shape):
        r: int = 0


@dataclass
class Holder:
    kind: Type[Shape] = Shape


def build_interface(classes, **kwargs):
    """Generates the SQLAlchemy interface for the classes with ORMatic and imports it."""
    ormatic = ORMatic(ClassDiagram(list(classes)), **kwargs)
    ormatic.make_all_tables()
    directory = tempfile.mkdtemp()
    try:
        path = os.path.join(directory, "generated_interface.py")
        with open(path, "w") as f:
            ormatic.to_sqlalchemy_file(f)
        spec = importlib.util.spec_from_file_location("generated_interface", path)
        module = importlib.util.module_from_spec(spec)
        sys.modules["generated_interface"] = module
        spec.loader.exec_module(module)
    finally:
        shutil.rmtree(directory)
    configure_mappers()
    return module


def roundtrip(module, obj, load_as=None):
    """to_dao + commit in one session, load in a fresh session on the same engine, from_dao."""
    engine = create_engine("sqlite:///:memory:")
    module.Base.metadata.create_all(engine)
    with Session(engine) as session:
        dao = to_dao(obj)
        session.add(dao)
        session.commit()
        key = dao.database_id
        load_as = load_as or type(dao)
    with Session(engine) as fresh_session:
        loaded = fresh_session.scalars(
            select(load_as).where(load_as.database_id == key)
        ).one()
        return loaded.from_dao()


if __name__ == "__main__":
    interface = build_interface([Shape, Holder])
    failures = 0
    for original in [Holder(Shape), Holder(Shapes.Circle)]:
        print("expected:", original)
        try:
            restored = roundtrip(interface, original)
            print("got:     ", restored)
            failures += restored != original
        except Exception as e:
            traceback.print_exc(limit=-2)
            print("got:      ", type(e).__name__, e)
            failures += 1
    print("DEFECT" if failures else "ok")
    sys.exit(1 if failures else 0)
