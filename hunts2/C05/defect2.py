"""
C05 defect 2: a set / tuple that is declared Optional comes back from the database as a list.

The repairs "sets and tuples of builtins come back from the database as the declared collection" and "from_dao
restores collections in the declared type" look the declared collection type up with
dao._declared_collection_type, which takes typing.get_origin of the annotation as it is written:
for Optional[Set[int]] that is Union, so the value stays the list the DAO holds.  The class-diagram side
(WrappedField.type_without_optional) does look through Optional, dao.py does not.

Expected: Optional[Set[int]] / Optional[Tuple[int, int]] / Optional[Set[Member]] / Optional[Tuple[Member, Member]]
          values come back equal to what was stored (as their non-Optional spellings do).
Got:      lists.
"""
from __future__ import annotations

import importlib.util
import os
import shutil
import sys
import tempfile
import traceback
from dataclasses import dataclass, field
from typing import List, Optional, Set, Tuple, Type

from sqlalchemy import select
from sqlalchemy.orm import Session, configure_mappers

from krrood.class_diagrams import ClassDiagram
from krrood.ormatic.dao import to_dao
from krrood.ormatic.ormatic import ORMatic
from krrood.ormatic.utils import create_engine


@dataclass(eq=False)
class Member:
    name: str = ""


@dataclass
class Team:
    numbers: Optional[Set[int]] = None
    pair: Optional[Tuple[int, int]] = None
    members: Optional[Set[Member]] = None
    leaders: Optional[Tuple[Member, Member]] = None
    # the same without Optional, for comparison: these are restored correctly
    plain_numbers: Set[int] = field(default_factory=set)
    plain_members: Set[Member] = field(default_factory=set)


def build_interface(classes, **kwargs):
    """Generates the SQLAlchemy interface for the classes with ORMatic and imports it."""
    ormatic = ORMatic(ClassDiagram(list(classes)), **kwargs)
    ormatic.make_all_tables()
    directory = tempfile.mkdtemp()
    try:
        path = os.path.join(directory, "generated_interface.py")
        with open(path, "w") as f:
            ormatic.to_sqlalchemy_file(f)
        spec = importlib.util.spec_from_file_location("generated_interface", path)
        module = importlib.util.module_from_spec(spec)
        sys.modules["generated_interface"] = module
        spec.loader.exec_module(module)
    finally:
        shutil.rmtree(directory)
    configure_mappers()
    return module


def roundtrip(module, obj, load_as=None):
    """to_dao + commit in one session, load in a fresh session on the same engine, from_dao."""
    engine = create_engine("sqlite:///:memory:")
    module.Base.metadata.create_all(engine)
    with Session(engine) as session:
        dao = to_dao(obj)
        session.add(dao)
        session.commit()
        key = dao.database_id
        load_as = load_as or type(dao)
    with Session(engine) as fresh_session:
        loaded = fresh_session.scalars(
            select(load_as).where(load_as.database_id == key)
        ).one()
        return loaded.from_dao()


if __name__ == "__main__":
    interface = build_interface([Member, Team])
    a, b = Member("a"), Member("b")
    original = Team({1, 2}, (3, 4), {a}, (a, b), {5}, {b})
    restored = roundtrip(interface, original)
    failures = 0
    for name in ["numbers", "pair", "members", "leaders", "plain_numbers", "plain_members"]:
        expected, got = getattr(original, name), getattr(restored, name)
        ok = type(expected) is type(got)
        failures += not ok
        print(f"{name:14} expected {type(expected).__name__:6} got {type(got).__name__:6} {'' if ok else '<-- DIFFERENT'}")
    print("expected == restored:", original.numbers == restored.numbers and original.pair == restored.pair)
    print("DEFECT" if failures else "ok")
    sys.exit(1 if failures else 0)
