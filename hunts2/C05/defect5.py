"""
C05 defect 5: from_dao fails on a reference cycle that passes through a Set field whose elements hash by a field.

Since the repair "from_dao restores collections in the declared type", DataAccessObject._collect_relationship_kwargs
builds `set(parsed_list)` right away.  In a cycle the list still holds objects that were only allocated with
__new__ (FromDAOState.allocate_and_memoize) and not initialised yet; hashing them calls the user's __hash__, which
reads a field that does not exist yet.  The shape is the one of the repository's own
test/dataset/university_ontology_like_classes.py (Company.members: Set[Person], __hash__ over the name).
Whether it fails depends on the row the load starts from: starting at the Company works, starting at a Person
(its own DAO class) does not.

Expected: loading the PersonDAO row in a fresh session and from_dao() gives Person p with p.works_for.members == {p, q}.
Got:      AttributeError: 'Person' object has no attribute 'name' inside from_dao.
"""
from __future__ import annotations

import importlib.util
import os
import shutil
import sys
import tempfile
import traceback
from dataclasses import dataclass, field
from typing import List, Optional, Set, Tuple, Type

from sqlalchemy import select
from sqlalchemy.orm import Session, configure_mappers

from krrood.class_diagrams import ClassDiagram
from krrood.ormatic.dao import to_dao
from krrood.ormatic.ormatic import ORMatic
from krrood.ormatic.utils import create_engine


@dataclass
class Company:
    name: str
    members: Set[Person] = field(default_factory=set)

    def __hash__(self):
        return hash(self.name)


@dataclass
class Person:
    name: str
    works_for: Optional[Company] = None

    def __hash__(self):
        return hash(self.name)


def build_interface(classes, **kwargs):
    """Generates the SQLAlchemy interface for the classes with ORMatic and imports it."""
    ormatic = ORMatic(ClassDiagram(list(classes)), **kwargs)
    ormatic.make_all_tables()
    directory = tempfile.mkdtemp()
    try:
        path = os.path.join(directory, "generated_interface.py")
        with open(path, "w") as f:
            ormatic.to_sqlalchemy_file(f)
        spec = importlib.util.spec_from_file_location("generated_interface", path)
        module = importlib.util.module_from_spec(spec)
        sys.modules["generated_interface"] = module
        spec.loader.exec_module(module)
    finally:
        shutil.rmtree(directory)
    configure_mappers()
    return module


def roundtrip(module, obj, load_as=None):
    """to_dao + commit in one session, load in a fresh session on the same engine, from_dao."""
    engine = create_engine("sqlite:///:memory:")
    module.Base.metadata.create_all(engine)
    with Session(engine) as session:
        dao = to_dao(obj)
        session.add(dao)
        session.commit()
        key = dao.database_id
        load_as = load_as or type(dao)
    with Session(engine) as fresh_session:
        loaded = fresh_session.scalars(
            select(load_as).where(load_as.database_id == key)
        ).one()
        return loaded.from_dao()


if __name__ == "__main__":
    interface = build_interface([Company, Person])
    company = Company("c")
    p, q = Person("p", company), Person("q", company)
    company.members = {p, q}
    failures = 0
    for root in [company, p]:
        print("loading the row of", type(root).__name__, root.name)
        print("  expected: company c with members", sorted(m.name for m in company.members))
        try:
            restored = roundtrip(interface, root)
            restored_company = restored if isinstance(restored, Company) else restored.works_for
            members = restored_company.members
            print("  got:      company", restored_company.name, "with members", sorted(m.name for m in members), type(members).__name__)
            if isinstance(restored, Person):
                failures += restored not in members
        except Exception as e:
            traceback.print_exc(limit=-3)
            print("  got:     ", type(e).__name__, e)
            failures += 1
    print("DEFECT" if failures else "ok")
    sys.exit(1 if failures else 0)
