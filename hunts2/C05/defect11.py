"""
C05 defect 11 (error path / second use): a to_dao call that fails because the generated interface is not imported
yet makes the class unpersistable for the rest of the process.

dao.get_dao_class (and get_alternative_mapping) are functools.lru_cache'd over a scan of the DataAccessObject
subclasses that exist at the time of the call; the negative answer None is cached like any other.  After the
interface has been imported the same call still raises NoDAOFoundError, also for objects of that class that are
reached through a relationship of another object (NoDAOFoundDuringParsingError).

Expected: after the interface is imported, to_dao(Item(1)) / to_dao(Bag([Item(1)])) work and round-trip.
Got:      NoDAOFoundError / NoDAOFoundDuringParsingError.
"""
from __future__ import annotations

import importlib.util
import os
import shutil
import sys
import tempfile
import traceback
from dataclasses import dataclass, field
from typing import List, Optional, Set, Tuple, Type

from sqlalchemy import select
from sqlalchemy.orm import Session, configure_mappers

from krrood.class_diagrams import ClassDiagram
from krrood.ormatic.dao import to_dao
from krrood.ormatic.ormatic import ORMatic
from krrood.ormatic.utils import create_engine


@dataclass
class Item:
    n: int = 0


@dataclass
class Bag:
    items: List[Item] = field(default_factory=list)


def build_interface(classes, **kwargs):
    """Generates the SQLAlchemy interface for the classes with ORMatic and imports it."""
    ormatic = ORMatic(ClassDiagram(list(classes)), **kwargs)
    ormatic.make_all_tables()
    directory = tempfile.mkdtemp()
    try:
        path = os.path.join(directory, "generated_interface.py")
        with open(path, "w") as f:
            ormatic.to_sqlalchemy_file(f)
        spec = importlib.util.spec_from_file_location("generated_interface", path)
        module = importlib.util.module_from_spec(spec)
        sys.modules["generated_interface"] = module
        spec.loader.exec_module(module)
    finally:
        shutil.rmtree(directory)
    configure_mappers()
    return module


def roundtrip(module, obj, load_as=None):
    """to_dao + commit in one session, load in a fresh session on the same engine, from_dao."""
    engine = create_engine("sqlite:///:memory:")
    module.Base.metadata.create_all(engine)
    with Session(engine) as session:
        dao = to_dao(obj)
        session.add(dao)
        session.commit()
        key = dao.database_id
        load_as = load_as or type(dao)
    with Session(engine) as fresh_session:
        loaded = fresh_session.scalars(
            select(load_as).where(load_as.database_id == key)
        ).one()
        return loaded.from_dao()


if __name__ == "__main__":
    try:
        to_dao(Item(1))
    except Exception as e:
        print("before the interface exists (expected to fail):", type(e).__name__)
    interface = build_interface([Item, Bag])
    failures = 0
    for original in [Item(1), Bag([Item(2)])]:
        print("expected:", original)
        try:
            restored = roundtrip(interface, original)
            print("got:     ", restored)
            failures += restored != original
        except Exception as e:
            print("got:      ", type(e).__name__, str(e)[:120])
            failures += 1
    print("DEFECT" if failures else "ok")
    sys.exit(1 if failures else 0)
