"""
defect2: a collection-valued relationship at the end of an attribute chain is translated as if it were a many-to-one
reference: the "foreign key" that is used is the primary key of the owner.

 * in_(owner.favourite, owner.pets)  ->  instr(OwnerDAO.database_id, OwnerDAO.favourite_id) > 0
 * owner.pets as a condition (non-empty) -> WHERE OwnerDAO.database_id (always true)
 * owner.pets == vet.patient -> JOIN VetDAO ON VetDAO.patient_id = OwnerDAO.database_id (ids of different tables)

Run:  cd /tmp/hunt2/C07 && PYTHONPATH=/repo/src:/tmp/hunt2/C07 /venv/bin/python HUNT/defect2.py
Exits non-zero when the translated statement and the in-memory evaluation disagree (the defect is present).
"""
import importlib, os, sys, tempfile, warnings
from dataclasses import is_dataclass

warnings.simplefilter("ignore")

MODEL = '''
from __future__ import annotations
import enum
from dataclasses import dataclass, field
from typing import List, Optional

@dataclass
class Animal:
    name: str


@dataclass
class Owner:
    name: str
    favourite: Animal
    pets: List[Animal] = field(default_factory=list)


@dataclass
class Vet:
    name: str
    patient: Animal
'''

# ---------------------------------------------------------------- set-up: model module, generated interface, database
workdir = tempfile.mkdtemp(prefix="c07_d2_")
sys.path.insert(0, workdir)
with open(os.path.join(workdir, "d2_model.py"), "w") as f:
    f.write(MODEL)
M = importlib.import_module("d2_model")

from sqlalchemy.orm import Session, configure_mappers
from krrood.class_diagrams.class_diagram import ClassDiagram
from krrood.entity_query_language.entity import let, entity, and_, or_, in_, contains, flatten
from krrood.entity_query_language.quantify_entity import an, the
from krrood.ormatic.dao import to_dao, ToDAOState
from krrood.ormatic.eql_interface import eql_to_sql, EQLTranslationError
from krrood.ormatic.ormatic import ORMatic
from krrood.ormatic.utils import classes_of_module, create_engine

classes = [c for c in classes_of_module(M) if is_dataclass(c)]
ormatic = ORMatic(ClassDiagram(sorted(classes, key=lambda c: c.__name__, reverse=True)))
ormatic.make_all_tables()
with open(os.path.join(workdir, "d2_interface.py"), "w") as f:
    ormatic.to_sqlalchemy_file(f)
I = importlib.import_module("d2_interface")
configure_mappers()


def persist(objects):
    """One database holding exactly the given objects (and what they refer to), one row per object."""
    engine = create_engine("sqlite:///:memory:")
    I.Base.metadata.create_all(engine)
    session = Session(engine)
    state = ToDAOState()
    session.add_all([to_dao(o, state) for o in objects])
    session.commit()
    return session


FAILED = []


def check(label, make_query, objects):
    """
    make_query(objects) builds the query (variables range over the given objects). It is evaluated in memory and,
    built a second time, translated and executed on a database holding the same objects.
    """
    session = persist(objects)
    try:
        in_memory = sorted({repr(o) for o in make_query(objects).evaluate()})
    except Exception as e:
        in_memory = f"raises {type(e).__name__}: {e}"
    try:
        translator = eql_to_sql(make_query(objects), session)
    except EQLTranslationError as e:
        print(f"[{label}] rejected with {type(e).__name__} - fine")
        return
    except Exception as e:
        print(f"[{label}] VIOLATION: eql_to_sql raised {type(e).__name__} (not an EQLTranslationError): {str(e)[:150]}")
        print(f"    expected (in memory): {in_memory}")
        FAILED.append(label)
        return
    statement = " ".join(str(translator.sql_query).split())
    try:
        from_sql = sorted({repr(row.from_dao()) for row in translator.evaluate()})
    except Exception as e:
        from_sql = f"raises {type(e).__name__}: {str(e)[:150]}"
    if in_memory == from_sql:
        print(f"[{label}] agree: {in_memory}")
        return
    print(f"[{label}] VIOLATION")
    print(f"    expected (in memory): {in_memory}")
    print(f"    got (translated)    : {from_sql}")
    print(f"    statement           : {statement}")
    FAILED.append(label)


# ---------------------------------------------------------------- the case
rex, tom, kit = M.Animal("rex"), M.Animal("tom"), M.Animal("kit")
o1, o2, o3 = M.Owner("o1", rex, [rex, tom]), M.Owner("o2", tom, []), M.Owner("o3", kit, [rex])
v1, v2 = M.Vet("v1", rex), M.Vet("v2", tom)
objects = [rex, tom, kit, o1, o2, o3, v1, v2]
check("membership in a collection of the same variable: in_(ow.favourite, ow.pets)",
      lambda o: an(entity(ow := let(M.Owner, o), in_(ow.favourite, ow.pets))), objects)
check("a collection as a condition: entity(ow, ow.pets)",
      lambda o: an(entity(ow := let(M.Owner, o), ow.pets)), objects)


def collection_equals_reference(o):
    ow, vet = let(M.Owner, o, name="ow"), let(M.Vet, o, name="vet")
    return an(entity(ow, ow.pets == vet.patient))


check("a collection == a reference of another variable (taken for an equality join)", collection_equals_reference, objects)

if FAILED:
    print("DEFECT PRESENT:", FAILED)
    sys.exit(1)
print("no violation")
