"""
defect4: the selected variable ranges over a subclass (joined-table inheritance) and another variable is followed
across a relationship: the table of the subclass and the table of its base class end up as two unrelated FROM
elements (no inherit condition), the rows of the selected class are assembled from two different animals.

SELECT DogDAO.database_id, AnimalDAO.* FROM VetDAO JOIN AnimalDAO AS a1 ON ..., "DogDAO", "AnimalDAO" WHERE ...

Run:  cd /tmp/hunt2/C07 && PYTHONPATH=/repo/src:/tmp/hunt2/C07 /venv/bin/python HUNT/defect4.py
Exits non-zero when the translated statement and the in-memory evaluation disagree (the defect is present).
"""
import importlib, os, sys, tempfile, warnings
from dataclasses import is_dataclass

warnings.simplefilter("ignore")

MODEL = '''
from __future__ import annotations
import enum
from dataclasses import dataclass, field
from typing import List, Optional

@dataclass
class Animal:
    name: str
    age: int = 0


@dataclass
class Dog(Animal):
    tricks: int = 0


@dataclass
class Cat(Animal):
    lives: int = 9


@dataclass
class Vet:
    name: str
    patient: Animal
'''

# ---------------------------------------------------------------- set-up: model module, generated interface, database
workdir = tempfile.mkdtemp(prefix="c07_d4_")
sys.path.insert(0, workdir)
with open(os.path.join(workdir, "d4_model.py"), "w") as f:
    f.write(MODEL)
M = importlib.import_module("d4_model")

from sqlalchemy.orm import Session, configure_mappers
from krrood.class_diagrams.class_diagram import ClassDiagram
from krrood.entity_query_language.entity import let, entity, and_, or_, in_, contains, flatten
from krrood.entity_query_language.quantify_entity import an, the
from krrood.ormatic.dao import to_dao, ToDAOState
from krrood.ormatic.eql_interface import eql_to_sql, EQLTranslationError
from krrood.ormatic.ormatic import ORMatic
from krrood.ormatic.utils import classes_of_module, create_engine

classes = [c for c in classes_of_module(M) if is_dataclass(c)]
ormatic = ORMatic(ClassDiagram(sorted(classes, key=lambda c: c.__name__, reverse=True)))
ormatic.make_all_tables()
with open(os.path.join(workdir, "d4_interface.py"), "w") as f:
    ormatic.to_sqlalchemy_file(f)
I = importlib.import_module("d4_interface")
configure_mappers()


def persist(objects):
    """One database holding exactly the given objects (and what they refer to), one row per object."""
    engine = create_engine("sqlite:///:memory:")
    I.Base.metadata.create_all(engine)
    session = Session(engine)
    state = ToDAOState()
    session.add_all([to_dao(o, state) for o in objects])
    session.commit()
    return session


FAILED = []


def check(label, make_query, objects):
    """
    make_query(objects) builds the query (variables range over the given objects). It is evaluated in memory and,
    built a second time, translated and executed on a database holding the same objects.
    """
    session = persist(objects)
    try:
        in_memory = sorted({repr(o) for o in make_query(objects).evaluate()})
    except Exception as e:
        in_memory = f"raises {type(e).__name__}: {e}"
    try:
        translator = eql_to_sql(make_query(objects), session)
    except EQLTranslationError as e:
        print(f"[{label}] rejected with {type(e).__name__} - fine")
        return
    except Exception as e:
        print(f"[{label}] VIOLATION: eql_to_sql raised {type(e).__name__} (not an EQLTranslationError): {str(e)[:150]}")
        print(f"    expected (in memory): {in_memory}")
        FAILED.append(label)
        return
    statement = " ".join(str(translator.sql_query).split())
    try:
        from_sql = sorted({repr(row.from_dao()) for row in translator.evaluate()})
    except Exception as e:
        from_sql = f"raises {type(e).__name__}: {str(e)[:150]}"
    if in_memory == from_sql:
        print(f"[{label}] agree: {in_memory}")
        return
    print(f"[{label}] VIOLATION")
    print(f"    expected (in memory): {in_memory}")
    print(f"    got (translated)    : {from_sql}")
    print(f"    statement           : {statement}")
    FAILED.append(label)


# ---------------------------------------------------------------- the case
dog_a, dog_b, cat = M.Dog("a", 2, 5), M.Dog("b", 4, 0), M.Cat("cat", 4, 9)


def dogs_with_more_tricks_than_the_age_of_a_patient(o):
    v, d = let(M.Vet, o, name="v"), let(M.Dog, o, name="d")
    return an(entity(d, v.patient.age < d.tricks))


def dogs_as_old_as_a_patient(o):
    v, d = let(M.Vet, o, name="v"), let(M.Dog, o, name="d")
    return an(entity(d, v.patient.age == d.age))


check("selected Dog, vet.patient.age < dog.tricks (dogs only in the database: wrong rows)",
      dogs_with_more_tricks_than_the_age_of_a_patient, [dog_a, dog_b, M.Vet("v", dog_b)])
check("selected Dog, vet.patient.age == dog.age (a cat of that age in the database: the statement cannot be loaded)",
      dogs_as_old_as_a_patient, [dog_a, dog_b, cat, M.Vet("v", cat)])

if FAILED:
    print("DEFECT PRESENT:", FAILED)
    sys.exit(1)
print("no violation")
