"""
defect9: a variable that holds ONE instance of a mapped class, compared with a reference
(`task.robot == let(Robot, [r1])`). DomainValueExtractor looks the row of the instance up by `name` (or `id_`) only and
then uses `dao.id` as the key - the generated DAOs call their key `database_id`:
 * a class with a field `id` of its own: the value of THAT field is compared with the foreign key -> other rows;
 * a class without: the DAO object itself is bound -> sqlalchemy ArgumentError out of eql_to_sql (no EQLTranslationError);
 * the lookup by name alone finds the first row of that name (equal names, different objects).
 * a variable without a domain (the way the tests declare variables for SQL) -> IndexError out of eql_to_sql.

Run:  cd /tmp/hunt2/C07 && PYTHONPATH=/repo/src:/tmp/hunt2/C07 /venv/bin/python HUNT/defect9.py
Exits non-zero when the translated statement and the in-memory evaluation disagree (the defect is present).
"""
import importlib, os, sys, tempfile, warnings
from dataclasses import is_dataclass

warnings.simplefilter("ignore")

MODEL = '''
from __future__ import annotations
import enum
from dataclasses import dataclass, field
from typing import List, Optional

@dataclass
class Robot:
    id: int
    name: str


@dataclass
class Task:
    title: str
    robot: Robot


@dataclass
class Body:
    name: str
    size: int = 0


@dataclass
class Link:
    label: str
    parent: Body
'''

# ---------------------------------------------------------------- set-up: model module, generated interface, database
workdir = tempfile.mkdtemp(prefix="c07_d9_")
sys.path.insert(0, workdir)
with open(os.path.join(workdir, "d9_model.py"), "w") as f:
    f.write(MODEL)
M = importlib.import_module("d9_model")

from sqlalchemy.orm import Session, configure_mappers
from krrood.class_diagrams.class_diagram import ClassDiagram
from krrood.entity_query_language.entity import let, entity, and_, or_, in_, contains, flatten
from krrood.entity_query_language.quantify_entity import an, the
from krrood.ormatic.dao import to_dao, ToDAOState
from krrood.ormatic.eql_interface import eql_to_sql, EQLTranslationError
from krrood.ormatic.ormatic import ORMatic
from krrood.ormatic.utils import classes_of_module, create_engine

classes = [c for c in classes_of_module(M) if is_dataclass(c)]
ormatic = ORMatic(ClassDiagram(sorted(classes, key=lambda c: c.__name__, reverse=True)))
ormatic.make_all_tables()
with open(os.path.join(workdir, "d9_interface.py"), "w") as f:
    ormatic.to_sqlalchemy_file(f)
I = importlib.import_module("d9_interface")
configure_mappers()


def persist(objects):
    """One database holding exactly the given objects (and what they refer to), one row per object."""
    engine = create_engine("sqlite:///:memory:")
    I.Base.metadata.create_all(engine)
    session = Session(engine)
    state = ToDAOState()
    session.add_all([to_dao(o, state) for o in objects])
    session.commit()
    return session


FAILED = []


def check(label, make_query, objects):
    """
    make_query(objects) builds the query (variables range over the given objects). It is evaluated in memory and,
    built a second time, translated and executed on a database holding the same objects.
    """
    session = persist(objects)
    try:
        in_memory = sorted({repr(o) for o in make_query(objects).evaluate()})
    except Exception as e:
        in_memory = f"raises {type(e).__name__}: {e}"
    try:
        translator = eql_to_sql(make_query(objects), session)
    except EQLTranslationError as e:
        print(f"[{label}] rejected with {type(e).__name__} - fine")
        return
    except Exception as e:
        print(f"[{label}] VIOLATION: eql_to_sql raised {type(e).__name__} (not an EQLTranslationError): {str(e)[:150]}")
        print(f"    expected (in memory): {in_memory}")
        FAILED.append(label)
        return
    statement = " ".join(str(translator.sql_query).split())
    try:
        from_sql = sorted({repr(row.from_dao()) for row in translator.evaluate()})
    except Exception as e:
        from_sql = f"raises {type(e).__name__}: {str(e)[:150]}"
    if in_memory == from_sql:
        print(f"[{label}] agree: {in_memory}")
        return
    print(f"[{label}] VIOLATION")
    print(f"    expected (in memory): {in_memory}")
    print(f"    got (translated)    : {from_sql}")
    print(f"    statement           : {statement}")
    FAILED.append(label)


# ---------------------------------------------------------------- the case
r1, r2, r3 = M.Robot(2, "r1"), M.Robot(3, "r2"), M.Robot(1, "r3")
t1, t2, t3 = M.Task("t1", r1), M.Task("t2", r2), M.Task("t3", r3)
check("class with a field named id: task.robot == let(Robot, [r1])",
      lambda o: an(entity(t := let(M.Task, o), t.robot == let(M.Robot, [r1], name="r"))),
      [r1, r2, r3, t1, t2, t3])

b1, b2 = M.Body("b", 1), M.Body("b", 2)
l1, l2 = M.Link("l1", b1), M.Link("l2", b2)
check("class without: link.parent == let(Body, [b2])",
      lambda o: an(entity(l := let(M.Link, o), l.parent == let(M.Body, [b2], name="b"))),
      [b1, b2, l1, l2])


def sql_only_variables(o):
    l, b = let(M.Link, [], name="l"), let(M.Body, [], name="b")
    return an(entity(l, and_(l.parent == b, b.size == 2)))


check("variables without a domain: and_(link.parent == body, body.size == 2)", sql_only_variables, [b1, b2, l1, l2])

if FAILED:
    print("DEFECT PRESENT:", FAILED)
    sys.exit(1)
print("no violation")
