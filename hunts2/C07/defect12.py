"""
defect12: == / != between two references compares the keys of the rows, in memory it is the == of the objects.
Two distinct but equal dataclass instances (eq=True is the dataclass default) are equal in memory and two rows in the
database.

Run:  cd /tmp/hunt2/C07 && PYTHONPATH=/repo/src:/tmp/hunt2/C07 /venv/bin/python HUNT/defect12.py
Exits non-zero when the translated statement and the in-memory evaluation disagree (the defect is present).
"""
import importlib, os, sys, tempfile, warnings
from dataclasses import is_dataclass

warnings.simplefilter("ignore")

MODEL = '''
from __future__ import annotations
import enum
from dataclasses import dataclass, field
from typing import List, Optional

@dataclass
class Position:
    x: int
    y: int


@dataclass
class Pose:
    name: str
    position: Position
    other: Position
'''

# ---------------------------------------------------------------- set-up: model module, generated interface, database
workdir = tempfile.mkdtemp(prefix="c07_d12_")
sys.path.insert(0, workdir)
with open(os.path.join(workdir, "d12_model.py"), "w") as f:
    f.write(MODEL)
M = importlib.import_module("d12_model")

from sqlalchemy.orm import Session, configure_mappers
from krrood.class_diagrams.class_diagram import ClassDiagram
from krrood.entity_query_language.entity import let, entity, and_, or_, in_, contains, flatten
from krrood.entity_query_language.quantify_entity import an, the
from krrood.ormatic.dao import to_dao, ToDAOState
from krrood.ormatic.eql_interface import eql_to_sql, EQLTranslationError
from krrood.ormatic.ormatic import ORMatic
from krrood.ormatic.utils import classes_of_module, create_engine

classes = [c for c in classes_of_module(M) if is_dataclass(c)]
ormatic = ORMatic(ClassDiagram(sorted(classes, key=lambda c: c.__name__, reverse=True)))
ormatic.make_all_tables()
with open(os.path.join(workdir, "d12_interface.py"), "w") as f:
    ormatic.to_sqlalchemy_file(f)
I = importlib.import_module("d12_interface")
configure_mappers()


def persist(objects):
    """One database holding exactly the given objects (and what they refer to), one row per object."""
    engine = create_engine("sqlite:///:memory:")
    I.Base.metadata.create_all(engine)
    session = Session(engine)
    state = ToDAOState()
    session.add_all([to_dao(o, state) for o in objects])
    session.commit()
    return session


FAILED = []


def check(label, make_query, objects):
    """
    make_query(objects) builds the query (variables range over the given objects). It is evaluated in memory and,
    built a second time, translated and executed on a database holding the same objects.
    """
    session = persist(objects)
    try:
        in_memory = sorted({repr(o) for o in make_query(objects).evaluate()})
    except Exception as e:
        in_memory = f"raises {type(e).__name__}: {e}"
    try:
        translator = eql_to_sql(make_query(objects), session)
    except EQLTranslationError as e:
        print(f"[{label}] rejected with {type(e).__name__} - fine")
        return
    except Exception as e:
        print(f"[{label}] VIOLATION: eql_to_sql raised {type(e).__name__} (not an EQLTranslationError): {str(e)[:150]}")
        print(f"    expected (in memory): {in_memory}")
        FAILED.append(label)
        return
    statement = " ".join(str(translator.sql_query).split())
    try:
        from_sql = sorted({repr(row.from_dao()) for row in translator.evaluate()})
    except Exception as e:
        from_sql = f"raises {type(e).__name__}: {str(e)[:150]}"
    if in_memory == from_sql:
        print(f"[{label}] agree: {in_memory}")
        return
    print(f"[{label}] VIOLATION")
    print(f"    expected (in memory): {in_memory}")
    print(f"    got (translated)    : {from_sql}")
    print(f"    statement           : {statement}")
    FAILED.append(label)


# ---------------------------------------------------------------- the case
p1, p2, p3 = M.Position(1, 2), M.Position(1, 2), M.Position(7, 7)
poses = [M.Pose("same object", p1, p1), M.Pose("equal objects", p1, p2), M.Pose("different", p1, p3)]
objects = [p1, p2, p3] + poses
check("pose.position == pose.other", lambda o: an(entity(v := let(M.Pose, o), v.position == v.other)), objects)
check("pose.position != pose.other", lambda o: an(entity(v := let(M.Pose, o), v.position != v.other)), objects)

if FAILED:
    print("DEFECT PRESENT:", FAILED)
    sys.exit(1)
print("no violation")
