"""
defect8: an attribute used as a condition (its truth value) is translated to the bare column. That is the truth value
of the attribute only for numbers and booleans: a non-empty string, an enum member and a non-empty list of builtins
(stored as JSON) are true in memory, the bare text column is false in SQL.

Run:  cd /tmp/hunt2/C07 && PYTHONPATH=/repo/src:/tmp/hunt2/C07 /venv/bin/python HUNT/defect8.py
Exits non-zero when the translated statement and the in-memory evaluation disagree (the defect is present).
"""
import importlib, os, sys, tempfile, warnings
from dataclasses import is_dataclass

warnings.simplefilter("ignore")

MODEL = '''
from __future__ import annotations
import enum
from dataclasses import dataclass, field
from typing import List, Optional

class Color(enum.Enum):
    RED = 1
    GREEN = 2


@dataclass
class Item:
    name: str
    count: int = 0
    color: Color = Color.RED
    tags: List[str] = field(default_factory=list)
'''

# ---------------------------------------------------------------- set-up: model module, generated interface, database
workdir = tempfile.mkdtemp(prefix="c07_d8_")
sys.path.insert(0, workdir)
with open(os.path.join(workdir, "d8_model.py"), "w") as f:
    f.write(MODEL)
M = importlib.import_module("d8_model")

from sqlalchemy.orm import Session, configure_mappers
from krrood.class_diagrams.class_diagram import ClassDiagram
from krrood.entity_query_language.entity import let, entity, and_, or_, in_, contains, flatten
from krrood.entity_query_language.quantify_entity import an, the
from krrood.ormatic.dao import to_dao, ToDAOState
from krrood.ormatic.eql_interface import eql_to_sql, EQLTranslationError
from krrood.ormatic.ormatic import ORMatic
from krrood.ormatic.utils import classes_of_module, create_engine

classes = [c for c in classes_of_module(M) if is_dataclass(c)]
ormatic = ORMatic(ClassDiagram(sorted(classes, key=lambda c: c.__name__, reverse=True)))
ormatic.make_all_tables()
with open(os.path.join(workdir, "d8_interface.py"), "w") as f:
    ormatic.to_sqlalchemy_file(f)
I = importlib.import_module("d8_interface")
configure_mappers()


def persist(objects):
    """One database holding exactly the given objects (and what they refer to), one row per object."""
    engine = create_engine("sqlite:///:memory:")
    I.Base.metadata.create_all(engine)
    session = Session(engine)
    state = ToDAOState()
    session.add_all([to_dao(o, state) for o in objects])
    session.commit()
    return session


FAILED = []


def check(label, make_query, objects):
    """
    make_query(objects) builds the query (variables range over the given objects). It is evaluated in memory and,
    built a second time, translated and executed on a database holding the same objects.
    """
    session = persist(objects)
    try:
        in_memory = sorted({repr(o) for o in make_query(objects).evaluate()})
    except Exception as e:
        in_memory = f"raises {type(e).__name__}: {e}"
    try:
        translator = eql_to_sql(make_query(objects), session)
    except EQLTranslationError as e:
        print(f"[{label}] rejected with {type(e).__name__} - fine")
        return
    except Exception as e:
        print(f"[{label}] VIOLATION: eql_to_sql raised {type(e).__name__} (not an EQLTranslationError): {str(e)[:150]}")
        print(f"    expected (in memory): {in_memory}")
        FAILED.append(label)
        return
    statement = " ".join(str(translator.sql_query).split())
    try:
        from_sql = sorted({repr(row.from_dao()) for row in translator.evaluate()})
    except Exception as e:
        from_sql = f"raises {type(e).__name__}: {str(e)[:150]}"
    if in_memory == from_sql:
        print(f"[{label}] agree: {in_memory}")
        return
    print(f"[{label}] VIOLATION")
    print(f"    expected (in memory): {in_memory}")
    print(f"    got (translated)    : {from_sql}")
    print(f"    statement           : {statement}")
    FAILED.append(label)


# ---------------------------------------------------------------- the case
objects = [M.Item("abc", 1, M.Color.RED, ["t"]), M.Item("", 0, M.Color.GREEN, [])]
check("an int attribute as a condition (control)", lambda o: an(entity(i := let(M.Item, o), i.count)), objects)
check("a str attribute as a condition", lambda o: an(entity(i := let(M.Item, o), i.name)), objects)
check("and_(str attribute, comparison)", lambda o: an(entity(i := let(M.Item, o), and_(i.name, i.count > 0))), objects)
check("an enum attribute as a condition", lambda o: an(entity(i := let(M.Item, o), i.color)), objects)
check("a list of builtins as a condition", lambda o: an(entity(i := let(M.Item, o), i.tags)), objects)

if FAILED:
    print("DEFECT PRESENT:", FAILED)
    sys.exit(1)
print("no violation")
