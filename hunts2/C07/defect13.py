"""
defect13 (minor, value typing): values whose Python type is not the type of the column.
 * item.count == "1" / in_(item.count, ["1"]): False in memory, SQLite's column affinity turns '1' into 1 -> row returned;
 * item.color == "RED": an enum member is not equal to its name in memory, the Enum column type accepts the name;
 * item.tags == ["b", "a"]: collections are compared as sets in memory, the JSON column as serialised text (order);
 * in_(item.count, range(2)): a container that is not a list/tuple/set is bound as ONE parameter ->
   sqlalchemy ProgrammingError at evaluate() instead of an EQLTranslationError at translation.

Run:  cd /tmp/hunt2/C07 && PYTHONPATH=/repo/src:/tmp/hunt2/C07 /venv/bin/python HUNT/defect13.py
Exits non-zero when the translated statement and the in-memory evaluation disagree (the defect is present).
"""
import importlib, os, sys, tempfile, warnings
from dataclasses import is_dataclass

warnings.simplefilter("ignore")

MODEL = '''
from __future__ import annotations
import enum
from dataclasses import dataclass, field
from typing import List, Optional

class Color(enum.Enum):
    RED = 1
    GREEN = 2


@dataclass
class Item:
    name: str
    count: int = 0
    color: Color = Color.RED
    tags: List[str] = field(default_factory=list)
'''

# ---------------------------------------------------------------- set-up: model module, generated interface, database
workdir = tempfile.mkdtemp(prefix="c07_d13_")
sys.path.insert(0, workdir)
with open(os.path.join(workdir, "d13_model.py"), "w") as f:
    f.write(MODEL)
M = importlib.import_module("d13_model")

from sqlalchemy.orm import Session, configure_mappers
from krrood.class_diagrams.class_diagram import ClassDiagram
from krrood.entity_query_language.entity import let, entity, and_, or_, in_, contains, flatten
from krrood.entity_query_language.quantify_entity import an, the
from krrood.ormatic.dao import to_dao, ToDAOState
from krrood.ormatic.eql_interface import eql_to_sql, EQLTranslationError
from krrood.ormatic.ormatic import ORMatic
from krrood.ormatic.utils import classes_of_module, create_engine

classes = [c for c in classes_of_module(M) if is_dataclass(c)]
ormatic = ORMatic(ClassDiagram(sorted(classes, key=lambda c: c.__name__, reverse=True)))
ormatic.make_all_tables()
with open(os.path.join(workdir, "d13_interface.py"), "w") as f:
    ormatic.to_sqlalchemy_file(f)
I = importlib.import_module("d13_interface")
configure_mappers()


def persist(objects):
    """One database holding exactly the given objects (and what they refer to), one row per object."""
    engine = create_engine("sqlite:///:memory:")
    I.Base.metadata.create_all(engine)
    session = Session(engine)
    state = ToDAOState()
    session.add_all([to_dao(o, state) for o in objects])
    session.commit()
    return session


FAILED = []


def check(label, make_query, objects):
    """
    make_query(objects) builds the query (variables range over the given objects). It is evaluated in memory and,
    built a second time, translated and executed on a database holding the same objects.
    """
    session = persist(objects)
    try:
        in_memory = sorted({repr(o) for o in make_query(objects).evaluate()})
    except Exception as e:
        in_memory = f"raises {type(e).__name__}: {e}"
    try:
        translator = eql_to_sql(make_query(objects), session)
    except EQLTranslationError as e:
        print(f"[{label}] rejected with {type(e).__name__} - fine")
        return
    except Exception as e:
        print(f"[{label}] VIOLATION: eql_to_sql raised {type(e).__name__} (not an EQLTranslationError): {str(e)[:150]}")
        print(f"    expected (in memory): {in_memory}")
        FAILED.append(label)
        return
    statement = " ".join(str(translator.sql_query).split())
    try:
        from_sql = sorted({repr(row.from_dao()) for row in translator.evaluate()})
    except Exception as e:
        from_sql = f"raises {type(e).__name__}: {str(e)[:150]}"
    if in_memory == from_sql:
        print(f"[{label}] agree: {in_memory}")
        return
    print(f"[{label}] VIOLATION")
    print(f"    expected (in memory): {in_memory}")
    print(f"    got (translated)    : {from_sql}")
    print(f"    statement           : {statement}")
    FAILED.append(label)


# ---------------------------------------------------------------- the case
objects = [M.Item("one", 1, M.Color.RED, ["a", "b"]), M.Item("two", 2, M.Color.GREEN, ["c"])]
check("item.count == '1'", lambda o: an(entity(i := let(M.Item, o), i.count == "1")), objects)
check("in_(item.count, ['1'])", lambda o: an(entity(i := let(M.Item, o), in_(i.count, ["1"]))), objects)
check("item.color == 'RED'", lambda o: an(entity(i := let(M.Item, o), i.color == "RED")), objects)
check("item.tags == ['b', 'a']", lambda o: an(entity(i := let(M.Item, o), i.tags == ["b", "a"])), objects)
check("in_(item.count, range(2))", lambda o: an(entity(i := let(M.Item, o), in_(i.count, range(2)))), objects)

if FAILED:
    print("DEFECT PRESENT:", FAILED)
    sys.exit(1)
print("no violation")
