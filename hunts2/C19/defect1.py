"""
C19 - a module that ends with sys.exit on import lets SystemExit escape from from_json
as soon as the tag has one more dotted part behind the module (the nested-class fallback
imports the module again and only catches Exception).
"""
import os
import sys
import tempfile

from krrood.adapters.json_serializer import (
    from_json,
    JSON_TYPE_NAME,
    JSONSerializationError,
    UnknownModuleError,
)

directory = tempfile.mkdtemp()
with open(os.path.join(directory, "c19_exiting_module.py"), "w") as f:
    f.write("import sys\nsys.exit(3)\n")
sys.path.insert(0, directory)

failures = 0
for tag in (
    "c19_exiting_module.Thing",  # handled by the repair: UnknownModuleError
    "c19_exiting_module.Outer.Inner",  # one more part: SystemExit escapes
    "c19_exiting_module.sub.Thing",
):
    try:
        result = from_json({JSON_TYPE_NAME: tag})
        print(f"{tag!r}: expected UnknownModuleError, got the object {result!r}")
        failures += 1
    except JSONSerializationError as error:
        print(f"{tag!r}: expected UnknownModuleError, got {type(error).__name__} - fine")
    except BaseException as error:
        print(
            f"{tag!r}: expected UnknownModuleError, got {type(error).__name__}({error}) "
            f"- NOT a JSONSerializationError"
        )
        failures += 1

sys.exit(1 if failures else 0)
