"""
C19 - a tag that names a class which is not deserialisable and not hashable (its metaclass defines __eq__ and
therefore has __hash__ = None) raises TypeError from the dictionary lookup in the registry instead of
ClassNotDeserializableError.
"""
import sys

from krrood.adapters.json_serializer import (
    from_json,
    JSON_TYPE_NAME,
    JSONSerializationError,
)


class ComparableByName(type):
    """Classes compare equal when their names are equal."""

    def __eq__(cls, other):
        return isinstance(other, type) and cls.__name__ == other.__name__


class Unit(metaclass=ComparableByName):
    pass


class Plain:
    pass


failures = 0
for tag in (f"{__name__}.Plain", f"{__name__}.Unit"):
    try:
        result = from_json({JSON_TYPE_NAME: tag})
        print(f"{tag!r}: expected ClassNotDeserializableError, got the object {result!r}")
        failures += 1
    except JSONSerializationError as error:
        print(f"{tag!r}: expected ClassNotDeserializableError, got {type(error).__name__} - fine")
    except BaseException as error:
        print(
            f"{tag!r}: expected ClassNotDeserializableError, got {type(error).__name__}({error})"
        )
        failures += 1

sys.exit(1 if failures else 0)
