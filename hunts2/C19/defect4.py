"""
C19 - a tag that names a module level object which is not a class, and whose attribute access fails with something
else than AttributeError (a settings object backed by a dictionary, a proxy that is not bound yet), raises that
exception while ClassNotDeserializableError builds its message (getattr(obj, "__name__", repr(obj))).
"""
import sys

from krrood.adapters.json_serializer import (
    from_json,
    JSON_TYPE_NAME,
    JSONSerializationError,
)


class Settings:
    """Values are read as attributes; an unknown name is a KeyError."""

    def __init__(self, **values):
        self._values = values

    def __getattr__(self, name):
        return self.__dict__["_values"][name]


settings = Settings(debug=True)
a_list = [1, 2]

failures = 0
for tag in (f"{__name__}.a_list", f"{__name__}.settings"):
    try:
        result = from_json({JSON_TYPE_NAME: tag})
        print(f"{tag!r}: expected ClassNotDeserializableError, got the object {result!r}")
        failures += 1
    except JSONSerializationError as error:
        print(f"{tag!r}: expected ClassNotDeserializableError, got {type(error).__name__} - fine")
    except BaseException as error:
        print(
            f"{tag!r}: expected ClassNotDeserializableError, got {type(error).__name__}({error})"
        )
        failures += 1

sys.exit(1 if failures else 0)
