"""
C19 - a module that cannot be imported because it skips itself at module level (pytest.importorskip /
pytest.skip(allow_module_level=True), both raise a BaseException that is not an Exception) lets that exception
escape from from_json. Inside a pytest run the calling test is then silently reported as skipped.
"""
import os
import sys
import tempfile

from krrood.adapters.json_serializer import (
    from_json,
    JSON_TYPE_NAME,
    JSONSerializationError,
)

directory = tempfile.mkdtemp()
with open(os.path.join(directory, "c19_optional_models.py"), "w") as f:
    f.write(
        "import pytest\n"
        "pytest.importorskip('c19_a_dependency_that_is_not_installed')\n"
        "class Thing: pass\n"
    )
sys.path.insert(0, directory)

tag = "c19_optional_models.Thing"
try:
    result = from_json({JSON_TYPE_NAME: tag})
    print(f"{tag!r}: expected UnknownModuleError, got the object {result!r}")
    sys.exit(1)
except JSONSerializationError as error:
    print(f"{tag!r}: expected UnknownModuleError, got {type(error).__name__} - fine")
    sys.exit(0)
except BaseException as error:
    print(
        f"{tag!r}: expected UnknownModuleError, got {type(error).__module__}.{type(error).__name__}({error}), "
        f"bases {[b.__name__ for b in type(error).__mro__]}"
    )
    sys.exit(1)
