"""
C19 (borderline, neighbour of a repair) - a _from_json that cannot be called on the class with the document is
reported as ClassNotDeserializableError when it is a plain function with a class parameter, but the same mistake
written as a static method (or a callable object) lets the TypeError of the call escape.
"""
import sys

from krrood.adapters.json_serializer import (
    from_json,
    JSON_TYPE_NAME,
    JSONSerializationError,
    SubclassJSONSerializer,
)


class PlainFunction(SubclassJSONSerializer):
    def _from_json(cls, data, **kwargs):  # forgot @classmethod
        return cls()


class StaticMethod(SubclassJSONSerializer):
    @staticmethod  # should have been @classmethod
    def _from_json(cls, data, **kwargs):
        return cls()


failures = 0
for tag in (f"{__name__}.PlainFunction", f"{__name__}.StaticMethod"):
    try:
        result = from_json({JSON_TYPE_NAME: tag})
        print(f"{tag!r}: expected ClassNotDeserializableError, got the object {result!r}")
        failures += 1
    except JSONSerializationError as error:
        print(f"{tag!r}: expected ClassNotDeserializableError, got {type(error).__name__} - fine")
    except BaseException as error:
        print(
            f"{tag!r}: expected ClassNotDeserializableError, got {type(error).__name__}({error})"
        )
        failures += 1

sys.exit(1 if failures else 0)
