"""
C19 - the class name is looked up with getattr(module, name) under `except Exception`. A package with a module level
__getattr__ that imports its sub-modules lazily (the case the comment on that line names) lets SystemExit escape when
the tag names a sub-module that exits on import; the same sub-module named as the module part of a tag is reported as
UnknownModuleError.
"""
import os
import sys
import tempfile

from krrood.adapters.json_serializer import (
    from_json,
    JSON_TYPE_NAME,
    JSONSerializationError,
)

directory = tempfile.mkdtemp()
package = os.path.join(directory, "c19_lazy_package")
os.mkdir(package)
with open(os.path.join(package, "__init__.py"), "w") as f:
    f.write(
        "import importlib\n"
        "def __getattr__(name):\n"
        "    return importlib.import_module('.' + name, __name__)\n"
    )
with open(os.path.join(package, "tool.py"), "w") as f:
    f.write("import sys\nsys.exit(2)\n")
sys.path.insert(0, directory)

failures = 0
for tag in (
    "c19_lazy_package.tool.Thing",  # the exiting module as module part: UnknownModuleError
    "c19_lazy_package.tool",  # the exiting module as the last part: SystemExit escapes
):
    try:
        result = from_json({JSON_TYPE_NAME: tag})
        print(f"{tag!r}: expected a JSONSerializationError, got the object {result!r}")
        failures += 1
    except JSONSerializationError as error:
        print(f"{tag!r}: expected a JSONSerializationError, got {type(error).__name__} - fine")
    except BaseException as error:
        print(
            f"{tag!r}: expected a JSONSerializationError (ClassNotFoundError / UnknownModuleError), "
            f"got {type(error).__name__}({error})"
        )
        failures += 1

sys.exit(1 if failures else 0)
