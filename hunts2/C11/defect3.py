"""
C11 - an untyped nested pattern match()(...) that is used in a second pattern keeps the type it inferred in the first
one (incomplete repair "a pattern object that is used in a second pattern is resolved again there").

Match._update_fields sets type_ from the attribute the first time (type_ is None -> Part). When the same object is
resolved again on an attribute of another type, type_ is still Part: a HasType(attribute, Part) filter is added and
nothing matches.
"""
from __future__ import annotations

import sys
from dataclasses import dataclass
from typing import Optional

from krrood.entity_query_language.predicate import Symbol
from krrood.entity_query_language.symbol_graph import SymbolGraph
from krrood.entity_query_language.quantify_entity import an
from krrood.entity_query_language.match import entity_matching, match


@dataclass(eq=False)
class Part(Symbol):
    name: str


@dataclass(eq=False)
class Box(Symbol):
    name: str
    main: Part = None


@dataclass(eq=False)
class Shelf(Symbol):
    name: str
    top: Box = None


SymbolGraph()
box = Box("a", main=Part("a"))
shelf = Shelf("shelf", top=box)

named_a = match()(name="a")
first = [b.name for b in an(entity_matching(Box, [box])(main=named_a)).evaluate()]
second = [s.name for s in an(entity_matching(Shelf, [shelf])(top=named_a)).evaluate()]
fresh = [s.name for s in an(entity_matching(Shelf, [shelf])(top=match()(name="a"))).evaluate()]
print("Box(main=named_a)            expected ['a']     got", first)
print("Shelf(top=named_a)           expected ['shelf'] got", second)
print("Shelf(top=match()(name='a')) expected ['shelf'] got", fresh)
sys.exit(0 if second == ["shelf"] else 1)
