"""
C11 - "selected inner parts are reported consistently with the matched element".

select(Type)(...) on a COLLECTION attribute: the answer reported for the select is the whole collection (including the
members that do not satisfy the nested pattern, or are not even of the selected type), not the matched member.
"""
from __future__ import annotations

import sys
from dataclasses import dataclass, field
from typing import List

from krrood.entity_query_language.predicate import Symbol
from krrood.entity_query_language.symbol_graph import SymbolGraph
from krrood.entity_query_language.quantify_entity import an
from krrood.entity_query_language.match import entity_selection, select


@dataclass(eq=False)
class Part(Symbol):
    name: str


@dataclass(eq=False)
class SpecialPart(Part):
    extra: int = 0


@dataclass(eq=False)
class Box(Symbol):
    name: str
    parts: List[Part] = field(default_factory=list)


SymbolGraph()
a, b, s = Part("a"), Part("b"), SpecialPart("s", extra=1)
box = Box("box", parts=[a, b, s])

failed = False

# 1. nested pattern with a keyword constraint
root, part = entity_selection(Box, [box]), select(Part)
answers = list(an(root(parts=part(name="a"))).evaluate())
print("select(Part)(name='a') on Box.parts")
for answer in answers:
    got = answer[part]
    print("   expected the matched member", a, "- got", got)
    if got is not a:
        failed = True

# 2. nested pattern that only narrows the type
root, special = entity_selection(Box, [box]), select(SpecialPart)
answers = list(an(root(parts=special())).evaluate())
print("select(SpecialPart)() on Box.parts")
for answer in answers:
    got = answer[special]
    print("   expected the matched member", s, "- got", got)
    if got is not s:
        failed = True

sys.exit(1 if failed else 0)
