"""
C11 - equivalence with the explicit query: a symbolic variable (or match(variable), or a quantified query) as the value
of a plain attribute. AttributeAssignment.is_iterable_value asks value._is_iterable_, and Variable._is_iterable_ is
"has a domain" (true for every let(...) variable and every Literal), so the condition becomes
"attribute in <value of the variable>" and evaluation raises TypeError: argument of type 'Part' is not iterable.
The keyword constraints of match(variable)(...) are dropped as well. The same happens for a single value that is wrapped
by match(value) / match_any(value): the wrapping Literal "is iterable" whatever it holds.
"""
from __future__ import annotations

import sys
from dataclasses import dataclass

from krrood.entity_query_language.predicate import Symbol
from krrood.entity_query_language.symbol_graph import SymbolGraph
from krrood.entity_query_language.quantify_entity import an
from krrood.entity_query_language.entity import entity, let
from krrood.entity_query_language.match import entity_matching, match, match_any


@dataclass(eq=False)
class Part(Symbol):
    name: str


@dataclass(eq=False)
class Box(Symbol):
    name: str
    main: Part = None


SymbolGraph()
pa, pb = Part("a"), Part("b")
boxes = [Box("b1", pa), Box("b2", pb), Box("b3", Part("c"))]

box, part = let(Box, boxes), let(Part, [pa, pb])
explicit = sorted(b.name for b in an(entity(box, box.main == part)).evaluate())
print("explicit  box.main == part          :", explicit)

failed = False
for label, value in (
    ("main=part", lambda: let(Part, [pa, pb])),
    ("main=match(part)(name='a')", lambda: match(let(Part, [pa, pb]))(name="a")),
    ("main=match_any(pa)", lambda: match_any(pa)),
):
    expected = ["b1", "b2"] if label == "main=part" else ["b1"]
    try:
        got = sorted(b.name for b in an(entity_matching(Box, boxes)(main=value())).evaluate())
    except Exception as error:
        got = f"{type(error).__name__}: {error}"
    print(f"pattern   {label:28}: expected {expected} got {got}")
    failed = failed or got != expected
sys.exit(1 if failed else 0)
