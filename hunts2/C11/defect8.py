"""
C11 - "match_all the same set of elements": match_all on a collection whose elements are not hashable raises TypeError.
A plain @dataclass Symbol (eq=True, the default) has __hash__ = None; everything else in EQL identifies values by id(),
but Comparator.apply_operation turns both sides of == into a set() (symbolic.py, make_set).
"""
from __future__ import annotations

import sys
from dataclasses import dataclass, field
from typing import List

from krrood.entity_query_language.predicate import Symbol
from krrood.entity_query_language.symbol_graph import SymbolGraph
from krrood.entity_query_language.quantify_entity import an
from krrood.entity_query_language.match import entity_matching, match_all, match_any


@dataclass
class Item(Symbol):  # default dataclass: __eq__ by value, not hashable
    name: str


@dataclass(eq=False)
class Holder(Symbol):
    name: str
    items: List[Item] = field(default_factory=list)


SymbolGraph()
x, y = Item("x"), Item("y")
holders = [Holder("h1", [x, y]), Holder("h2", [y])]
print("match_any([y]) :", sorted(h.name for h in an(entity_matching(Holder, holders)(items=match_any([y]))).evaluate()))
try:
    got = sorted(h.name for h in an(entity_matching(Holder, holders)(items=match_all([y, x]))).evaluate())
except Exception as error:
    got = f"{type(error).__name__}: {error}"
print("match_all([y, x]) expected ['h1'] got", got)
sys.exit(0 if got == ["h1"] else 1)
