"""
C11 - a top level pattern object can be quantified only once (incomplete repair "a pattern object that is used in a
second pattern is resolved again there").

an(pattern) resolves the pattern, which sets pattern.variable. quantify_entity._quantify_entity still decides with
"not entity_.variable" whether it has to take pattern.expression, so the second an(pattern) / the(pattern) hands the
Match object itself to the quantifier and raises InvalidEntityType.
"""
from __future__ import annotations

import sys
from dataclasses import dataclass

from krrood.entity_query_language.predicate import Symbol
from krrood.entity_query_language.symbol_graph import SymbolGraph
from krrood.entity_query_language.quantify_entity import an, the
from krrood.entity_query_language.match import entity_matching


@dataclass(eq=False)
class Part(Symbol):
    name: str


SymbolGraph()
parts = [Part("a"), Part("b")]
pattern = entity_matching(Part, parts)(name="a")

first = [p.name for p in an(pattern).evaluate()]
print("an(pattern)  :", first)
try:
    second = the(pattern).evaluate().name
    print("the(pattern) :", second)
except Exception as error:
    print("the(pattern) : expected 'a', got", type(error).__name__, "-", error)
    sys.exit(1)
sys.exit(0 if first == ["a"] and second == "a" else 1)
