"""
C11 - "a literal means equality": a literal that happens to be iterable (an object with __iter__, e.g. a point / vector
/ named tuple like class) on a plain, non-collection attribute is not compared with ==, it is used as a container:
the condition becomes "attribute in literal", which is false (or arbitrary).
"""
from __future__ import annotations

import sys
from dataclasses import dataclass

from krrood.entity_query_language.predicate import Symbol
from krrood.entity_query_language.symbol_graph import SymbolGraph
from krrood.entity_query_language.quantify_entity import an
from krrood.entity_query_language.entity import entity, let
from krrood.entity_query_language.match import entity_matching


@dataclass
class Point:
    x: int
    y: int

    def __iter__(self):
        return iter((self.x, self.y))


@dataclass(eq=False)
class Body(Symbol):
    name: str
    origin: Point = None


SymbolGraph()
bodies = [Body("b1", Point(1, 2)), Body("b2", Point(3, 4)), Body("b3", Point(1, 2))]

body = let(Body, bodies)
explicit = sorted(b.name for b in an(entity(body, body.origin == Point(1, 2))).evaluate())
pattern = sorted(b.name for b in an(entity_matching(Body, bodies)(origin=Point(1, 2))).evaluate())
print("explicit query  body.origin == Point(1, 2):", explicit)
print("pattern         origin=Point(1, 2)        :", pattern)
sys.exit(0 if pattern == explicit == ["b1", "b3"] else 1)
