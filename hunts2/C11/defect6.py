"""
C11 - "membership for collection attributes ... match_any at least one common element ... match_all the same set":
whether an attribute is a collection is decided from its annotation by WrappedField.container_types
(list, set, tuple, type, Sequence) only. A collection attribute that is annotated FrozenSet[X], Iterable[X] or with a
bare `list` is taken for a plain value: literal -> ==, match_any / match_all -> "attribute in values". All of them
silently return nothing; a nested match raises TypeError (FrozenSet / Iterable) or returns nothing (bare list).
"""
from __future__ import annotations

import sys
from dataclasses import dataclass, field
from typing import FrozenSet, Iterable

from krrood.entity_query_language.predicate import Symbol
from krrood.entity_query_language.symbol_graph import SymbolGraph
from krrood.entity_query_language.quantify_entity import an
from krrood.entity_query_language.match import entity_matching, match, match_any, match_all


@dataclass(eq=False)
class Item(Symbol):
    name: str


@dataclass(eq=False)
class Frozen(Symbol):
    name: str
    items: FrozenSet[Item] = frozenset()


@dataclass(eq=False)
class Bare(Symbol):
    name: str
    items: list = field(default_factory=list)


@dataclass(eq=False)
class Lazy(Symbol):
    name: str
    items: Iterable[Item] = ()


SymbolGraph()
x, y, z = Item("x"), Item("y"), Item("z")
failed = False
for cls, make in ((Frozen, frozenset), (Bare, list), (Lazy, tuple)):
    holders = [cls("h1", make([x, y])), cls("h2", make([y, z])), cls("h3", make([]))]
    cases = {
        "items=x": (lambda: x, ["h1"]),
        "items=match_any([x, z])": (lambda: match_any([x, z]), ["h1", "h2"]),
        "items=match_all([x, y])": (lambda: match_all([x, y]), ["h1"]),
        "items=match(Item)(name='x')": (lambda: match(Item)(name="x"), ["h1"]),
    }
    for label, (value, expected) in cases.items():
        try:
            got = sorted({h.name for h in an(entity_matching(cls, holders)(items=value())).evaluate()})
        except Exception as error:
            got = f"{type(error).__name__}: {error}"
        print(f"{cls.__name__:7}{label:30} expected {expected} got {got}")
        failed = failed or got != expected
sys.exit(1 if failed else 0)
