"""
C11 - a one-shot iterable (generator, map, filter, ...) as the collection of possible values: the literal is kept as it
is and every element of the domain is tested with `x in generator`, which consumes the generator; the first test eats
the values the later elements need. Literal.__init__ deliberately accepts such iterables ("building a query does not
consume or ask the data"), so they are legal values.
"""
from __future__ import annotations

import sys
from dataclasses import dataclass

from krrood.entity_query_language.predicate import Symbol
from krrood.entity_query_language.symbol_graph import SymbolGraph
from krrood.entity_query_language.quantify_entity import an
from krrood.entity_query_language.match import entity_matching, match_any


@dataclass(eq=False)
class Part(Symbol):
    name: str


SymbolGraph()
parts = [Part("a"), Part("b"), Part("c")]
wanted = ["a", "c"]
with_list = sorted(p.name for p in an(entity_matching(Part, parts)(name=list(wanted))).evaluate())
with_gen = sorted(p.name for p in an(entity_matching(Part, parts)(name=(n for n in wanted))).evaluate())
with_any = sorted(p.name for p in an(entity_matching(Part, parts)(name=match_any(map(str, wanted)))).evaluate())
print("name=['a', 'c']                 :", with_list)
print("name=(n for n in ['a', 'c'])    : expected ['a', 'c'] got", with_gen)
print("name=match_any(map(str, ...))   : expected ['a', 'c'] got", with_any)
sys.exit(0 if with_gen == with_any == ["a", "c"] else 1)
