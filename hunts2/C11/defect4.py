"""
C11 - nested match on a collection whose ELEMENTS may be missing (List[Optional[X]]) crashes on a None element
(incomplete repair "nested match on an Optional attribute filters None" / "a declared type is seen through Optional and
container wrappers together").

AttributeAssignment.is_type_filter_needed only looks at wrapped_field.is_optional (the field itself); for
List[Optional[Item]] the contained type is unwrapped to Item, no HasType filter is added and None.name is evaluated.
"""
from __future__ import annotations

import sys
from dataclasses import dataclass, field
from typing import List, Optional

from krrood.entity_query_language.predicate import Symbol
from krrood.entity_query_language.symbol_graph import SymbolGraph
from krrood.entity_query_language.quantify_entity import an
from krrood.entity_query_language.match import entity_matching, match


@dataclass(eq=False)
class Item(Symbol):
    name: str


@dataclass(eq=False)
class Holder(Symbol):
    name: str
    slots: List[Optional[Item]] = field(default_factory=list)


SymbolGraph()
h1 = Holder("h1", slots=[None, Item("x")])
h2 = Holder("h2", slots=[Item("y")])
expected = [h.name for h in (h1, h2) if any(isinstance(i, Item) and i.name == "x" for i in h.slots)]
try:
    got = [h.name for h in an(entity_matching(Holder, [h1, h2])(slots=match(Item)(name="x"))).evaluate()]
except Exception as error:
    got = f"{type(error).__name__}: {error}"
print("Holder(slots=match(Item)(name='x')) expected", expected, "got", got)
sys.exit(0 if got == expected else 1)
