"""
C11 - equivalence with the explicit query: a class that is defined after the SymbolGraph singleton exists (it is created
by the first Symbol instance) is not in the class diagram. The explicit query works on it, every pattern on it raises
NoneWrappedFieldError, because AttributeAssignment.attr insists on a WrappedField from the (stale) class diagram.
"""
from __future__ import annotations

import sys
from dataclasses import dataclass

from krrood.entity_query_language.predicate import Symbol
from krrood.entity_query_language.quantify_entity import an
from krrood.entity_query_language.entity import entity, let
from krrood.entity_query_language.match import entity_matching


@dataclass(eq=False)
class Early(Symbol):
    name: str


Early("first instance: the symbol graph and its class diagram are built now")


@dataclass(eq=False)
class Late(Symbol):  # e.g. a module imported later, a notebook cell
    name: str


lates = [Late("a"), Late("b")]
late = let(Late, lates)
explicit = sorted(x.name for x in an(entity(late, late.name == "a")).evaluate())
try:
    pattern = sorted(x.name for x in an(entity_matching(Late, lates)(name="a")).evaluate())
except Exception as error:
    pattern = f"{type(error).__name__}: {error}"
print("explicit query :", explicit)
print("pattern        :", pattern)
sys.exit(0 if pattern == explicit else 1)
