"""
C11 - "match_any means at least one common element ... two distinct elements that both satisfy the pattern are both
returned": on a collection attribute that is managed by an ontomatic PropertyDescriptor only the FIRST matching element
is returned, although the collections of the elements have different contents.

The existential wrapper de-duplicates by == of the collection value (symbolic.py Exists, seen_var_values). The managed
collections are MonitoredSet / MonitoredList, which are declared @dataclass(init=False) without fields, so the generated
__eq__ compares () == (): ANY two monitored containers are equal (ontomatic/property_descriptor/monitored_container.py).
This is a different root cause than the recorded "equal collections collapse": the collections here are not equal.
"""
from __future__ import annotations

import sys
from dataclasses import dataclass, field
from typing import Set, List, Type

from krrood.entity_query_language.predicate import Symbol
from krrood.entity_query_language.symbol_graph import SymbolGraph
from krrood.entity_query_language.quantify_entity import an
from krrood.entity_query_language.match import entity_matching, match_any
from krrood.ontomatic.property_descriptor.property_descriptor import PropertyDescriptor


@dataclass(eq=False)
class Person(Symbol):
    name: str


@dataclass(eq=False)
class Company(Symbol):
    name: str
    members: Set[Person] = field(default_factory=set)


@dataclass
class Member(PropertyDescriptor):
    pass


Company.members = Member(Company, "members")

SymbolGraph().clear()
SymbolGraph()
p1, p2, p3 = Person("p1"), Person("p2"), Person("p3")
c1, c2, c3 = Company("c1"), Company("c2"), Company("c3")
c1.members.add(p1)
c2.members.update([p2, p3])
companies = [c1, c2, c3]

print("contents:", {c.name: sorted(p.name for p in c.members) for c in companies})
print("c1.members == c2.members ->", c1.members == c2.members)
expected = sorted(c.name for c in companies if {p1, p2} & set(c.members))
got = sorted(c.name for c in an(entity_matching(Company, companies)(members=match_any([p1, p2]))).evaluate())
print("Company(members=match_any([p1, p2])) expected", expected, "got", got)
sys.exit(0 if got == expected else 1)
