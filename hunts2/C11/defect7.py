"""
C11 - "a nested match constrains the attribute value's type and attributes": on an attribute that is declared as a
Union of two classes the nested match cannot be built at all. AttributeAssignment.is_type_filter_needed calls
issubclass(attr_type, matched_type) with attr_type == typing.Union[...] (repair "the type of a nested match is enforced
also when it is not a subclass of the declared type") -> TypeError; the explicit query works.
"""
from __future__ import annotations

import sys
from dataclasses import dataclass
from typing import Union

from krrood.entity_query_language.predicate import Symbol, HasType
from krrood.entity_query_language.symbol_graph import SymbolGraph
from krrood.entity_query_language.quantify_entity import an
from krrood.entity_query_language.entity import entity, let
from krrood.entity_query_language.match import entity_matching, match


@dataclass(eq=False)
class Item(Symbol):
    name: str


@dataclass(eq=False)
class Other(Symbol):
    name: str


@dataclass(eq=False)
class Holder(Symbol):
    name: str
    thing: Union[Item, Other] = None


SymbolGraph()
holders = [Holder("h1", Item("x")), Holder("h2", Other("x")), Holder("h3", Item("y"))]
h = let(Holder, holders)
explicit = sorted(r.name for r in an(entity(h, HasType(h.thing, Item), h.thing.name == "x")).evaluate())
try:
    pattern = sorted(r.name for r in an(entity_matching(Holder, holders)(thing=match(Item)(name="x"))).evaluate())
except Exception as error:
    pattern = f"{type(error).__name__}: {error}"
print("explicit query                      :", explicit)
print("pattern thing=match(Item)(name='x') :", pattern)
sys.exit(0 if pattern == explicit == ["h1"] else 1)
