"""
C11 - the documented factory spelling `part = match(Part)` / `part(...)`: Match.__call__ stores the keyword arguments on
the object and returns the object itself, so two uses of the factory inside one pattern are the SAME pattern object and
the first constraint is silently replaced by the second one.
"""
from __future__ import annotations

import sys
from dataclasses import dataclass
from typing import Optional

from krrood.entity_query_language.predicate import Symbol
from krrood.entity_query_language.symbol_graph import SymbolGraph
from krrood.entity_query_language.quantify_entity import an
from krrood.entity_query_language.match import entity_matching, match


@dataclass(eq=False)
class Part(Symbol):
    name: str


@dataclass(eq=False)
class Box(Symbol):
    name: str
    main: Part = None
    spare: Optional[Part] = None


SymbolGraph()
a, b = Part("a"), Part("b")
boxes = [Box("ab", a, b), Box("bb", b, b), Box("aa", a, a)]

part = match(Part)
got = sorted(x.name for x in an(entity_matching(Box, boxes)(main=part(name="a"), spare=part(name="b"))).evaluate())
separate = sorted(
    x.name for x in an(entity_matching(Box, boxes)(main=match(Part)(name="a"), spare=match(Part)(name="b"))).evaluate()
)
print("two match(Part) objects            :", separate)
print("part = match(Part), part(..) twice : expected ['ab'] got", got)
sys.exit(0 if got == ["ab"] else 1)
