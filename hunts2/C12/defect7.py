"""
C12 defect 7: callables that are legal to decorate but are not plain Python functions.
  (a) a builtin without an introspectable signature (max, str.startswith, getattr ...): merge_args_and_kwargs asks
      inspect.signature unconditionally, so even the call with ordinary objects raises ValueError instead of running.
      (_parameters_of_ on the evaluation side tolerates a missing signature, the construction side does not.)
  (b) a callable without __name__ (functools.partial, an object with __call__): the concrete call works, the
      symbolic call raises AttributeError because the variable is named function.__name__.

Clause violated: "called with ordinary objects runs immediately and returns its plain result" (a); "called with at
least one query variable ... returns a condition" (b).
"""
import functools
import sys

from krrood.entity_query_language.entity import let, entity
from krrood.entity_query_language.quantify_entity import an
from krrood.entity_query_language.predicate import symbolic_function

failures = 0

for function, args, expected in ((max, (3, 4), 4), (str.startswith, ("abc", "a"), True)):
    wrapped = symbolic_function(function)
    try:
        got = wrapped(*args)
        ok = got == expected
        failures += not ok
        print(("OK   " if ok else "FAIL "), function, args, "->", got)
    except Exception as e:
        failures += 1
        print("FAIL concrete call of symbolic_function(%r)%r raised %s: %s" % (function, args, type(e).__name__, e))


def less_than(a, b):
    return a < b


class GreaterThanOne:
    def __call__(self, a):
        return a > 1


for title, wrapped, expected in (
    ("functools.partial(less_than, 1)", symbolic_function(functools.partial(less_than, 1)), [2]),
    ("GreaterThanOne()", symbolic_function(GreaterThanOne()), [2]),
):
    print("concrete", title, "(2) ->", wrapped(2))
    try:
        v = let(int, [0, 1, 2])
        got = list(an(entity(v, wrapped(v))).evaluate())
        ok = got == expected
        failures += not ok
        print(("OK   " if ok else "FAIL "), title, "(v) ->", got, "expected", expected)
    except Exception as e:
        failures += 1
        print("FAIL symbolic call of", title, "raised %s: %s" % (type(e).__name__, e))

sys.exit(1 if failures else 0)
