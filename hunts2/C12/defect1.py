"""
C12 defect 1: a predicate / symbolic function that is a condition AND is used in a second position of the same query
(selected next to it, or given as an argument to another call) loses its truth value: after the first solution its
false results count as true (or, under not_, its false results count as true and are dropped).

Clause violated: "... contributing exactly the truth value the concrete call returns for those values."
"""
import sys
from dataclasses import dataclass
from typing import Any

from krrood.entity_query_language.entity import let, set_of, entity, and_, not_
from krrood.entity_query_language.quantify_entity import an
from krrood.entity_query_language.predicate import Predicate, symbolic_function


@symbolic_function
def big(a):
    return a > 2


@dataclass(eq=False)
class Big(Predicate):
    a: Any

    def __call__(self):
        return self.a > 2


@symbolic_function
def is_bool(x):
    return isinstance(x, bool)


DOMAIN = [3, 0, 4, 1]
failures = 0


def check(title, got, expected):
    global failures
    ok = got == expected
    failures += not ok
    print(("OK   " if ok else "FAIL ") + title)
    print("   expected:", expected)
    print("   got     :", got)


for name, make in (("symbolic_function", big), ("Predicate subclass", Big)):
    # 1. the predicate is one of two conditions and its value is selected as well
    v = let(int, DOMAIN)
    p = make(v)
    query = an(set_of([v, p], p, v < 4))
    got = [(r[v], r[p]) for r in query.evaluate()]
    expected = [(x, big(x)) for x in DOMAIN if big(x) and x < 4]
    check(f"{name}: set_of([v, p], p, v < 4)", got, expected)

    # 2. the same under not_
    v = let(int, DOMAIN)
    p = make(v)
    query = an(set_of([v, p], not_(p)))
    got = [(r[v], r[p]) for r in query.evaluate()]
    expected = [(x, big(x)) for x in DOMAIN if not big(x)]
    check(f"{name}: set_of([v, p], not_(p))", got, expected)

    # 3. nothing is selected but the predicate: it is a condition and, later, the argument of another call
    v = let(int, DOMAIN)
    p = make(v)
    condition = and_(p, v < 5)
    query = an(entity(v, condition, is_bool(p)))
    got = list(query.evaluate())
    expected = [x for x in DOMAIN if big(x) and x < 5 and is_bool(big(x))]
    check(f"{name}: entity(v, and_(p, v < 5), is_bool(p))", got, expected)

sys.exit(1 if failures else 0)
