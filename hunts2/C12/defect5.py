"""
C12 defect 5: the symbolic / concrete dispatch only looks for CanBehaveLikeAVariable arguments. A symbolic expression
over a query variable that is not "variable like" (a comparison v > 2, and_/or_/not_ of conditions, exists, ...) is
evaluated per binding when it stands next to a variable argument, but when it is the only symbolic argument the call
is taken for a concrete one: the body runs at construction time on the expression object.

Clause violated: "called with at least one query variable ... it returns a condition without running".
"""
import sys

from krrood.entity_query_language.entity import let, entity
from krrood.entity_query_language.quantify_entity import an
from krrood.entity_query_language.predicate import symbolic_function

log = []


@symbolic_function
def both(a, flag):
    log.append((a, flag))
    return bool(flag) and a > 0


DOMAIN = [0, 1, 2, 3, 4]
failures = 0

# next to a variable the comparison is an argument like any other: evaluated for every binding
v = let(int, DOMAIN)
query = an(entity(v, both(v, v > 2)))
got = list(query.evaluate())
print("both(v, v > 2)  ->", got, " (expected [3, 4])")
failures += got != [3, 4]
log.clear()

# alone it is not recognised
v = let(int, DOMAIN)
condition = both(1, v > 2)
if log:
    failures += 1
    print("FAIL both(1, v > 2) ran at construction time with", [(a, type(f).__name__) for a, f in log])
try:
    got = list(an(entity(v, condition)).evaluate())
except Exception as e:  # pragma: no cover
    got = f"{type(e).__name__}: {e}"
expected = [x for x in DOMAIN if both.__wrapped__(1, x > 2)]
ok = got == expected
failures += not ok
print(("OK   " if ok else "FAIL ") + "entity(v, both(1, v > 2)) ->", got, " expected", expected)

sys.exit(1 if failures else 0)
