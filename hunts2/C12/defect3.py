"""
C12 defect 3: a positional-only parameter and a keyword of the same name caught by **kwargs (legal Python:
def f(a, /, **kw); f(1, a=2)) fall on the same key of the merged argument dictionary. The keyword overwrites the
positional argument, so
  * the parameter is bound to the wrong value during evaluation and the keyword is missing from **kw, or
  * if the overwritten argument was the only variable, the call is not recognised as symbolic and the body is executed
    at construction time on the Variable object.

Clause violated: "called with at least one query variable - passed positionally or by keyword - it returns a condition
without running ... each parameter bound to the value of the argument written in that position".
"""
import sys

from krrood.entity_query_language.entity import let, set_of
from krrood.entity_query_language.quantify_entity import an
from krrood.entity_query_language.predicate import symbolic_function
from krrood.entity_query_language.symbolic import Variable

log = []


@symbolic_function
def describe(a, /, **options):
    log.append((a, dict(options)))
    return f"a={a!r} options={sorted(options.items())!r}"


failures = 0
print("concrete:", describe(1, a="opt"))
log.clear()

# (i) variable in the positional-only slot, concrete keyword of the same name
v = let(int, [1, 2])
expression = describe(v, a="opt")
if not isinstance(expression, Variable):
    failures += 1
    print("FAIL describe(v, a='opt') ran immediately; it was called with", log)
else:
    print("OK   describe(v, a='opt') is symbolic")
log.clear()

# (ii) both are variables: the call is symbolic but the parameters get the wrong values
v = let(int, [1, 2])
w = let(str, ["x"])
expression = describe(v, a=w)
got = [r[expression] for r in an(set_of([v, w, expression])).evaluate()]
expected = [describe.__wrapped__(x, a=y) for x in [1, 2] for y in ["x"]]
log.clear()
ok = got == expected
failures += not ok
print(("OK   " if ok else "FAIL ") + "describe(v, a=w)")
print("   expected:", expected)
print("   got     :", got)

sys.exit(1 if failures else 0)
