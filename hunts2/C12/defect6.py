"""
C12 defect 6 (regression of the repair "a symbolic call with a shape the function rejects is rejected"):
Predicate.__new__ now binds its arguments against the signature of __init__. copy / deepcopy / pickle create an
instance with cls.__new__(cls) - no arguments - so a concrete predicate instance with a required field can no longer
be copied or unpickled (TypeError: missing a required argument). Before that repair merge_args_and_kwargs returned {}
for this call and the instance was created.

Clause violated: "called with ordinary objects [it] runs immediately and returns its plain result" - the plain result
(the instance) is not an ordinary object any more.
"""
import copy
import pickle
import sys

from krrood.entity_query_language.predicate import HasType

p = HasType(1, int)
assert p() is True
failures = 0
for name, operation in (
    ("copy.copy", copy.copy),
    ("copy.deepcopy", copy.deepcopy),
    ("pickle round trip", lambda x: pickle.loads(pickle.dumps(x))),
):
    try:
        q = operation(p)
        print("OK  ", name, "->", q, q())
    except TypeError as e:
        failures += 1
        print("FAIL", name, "raised TypeError:", e)

sys.exit(1 if failures else 0)
