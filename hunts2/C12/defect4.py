"""
C12 defect 4: a Predicate whose constructor has a parameter called `cls` (e.g. IsInstance(obj, cls)) cannot be called
with that parameter by keyword - neither with ordinary objects nor with a variable: Predicate.__new__(cls, *args,
**kwargs) (and Symbol.__new__) take the class under the same name.

Clause violated: "passed positionally or by keyword", "for every signature".
"""
import sys
from dataclasses import dataclass
from typing import Any

from krrood.entity_query_language.entity import let, entity
from krrood.entity_query_language.quantify_entity import an
from krrood.entity_query_language.predicate import Predicate


@dataclass(eq=False)
class IsInstance(Predicate):
    obj: Any
    cls: Any

    def __call__(self):
        return isinstance(self.obj, self.cls)


failures = 0
print("positional, concrete:", IsInstance(1, int)())

try:
    print("keyword, concrete   :", IsInstance(obj=1, cls=int)())
except TypeError as e:
    failures += 1
    print("FAIL IsInstance(obj=1, cls=int) raised TypeError:", e)

try:
    v = let(object, [1, "a"])
    got = list(an(entity(v, IsInstance(v, cls=int))).evaluate())
    ok = got == [1]
    failures += not ok
    print(("OK   " if ok else "FAIL ") + "IsInstance(v, cls=int) ->", got, "expected [1]")
except TypeError as e:
    failures += 1
    print("FAIL IsInstance(v, cls=int) raised TypeError:", e)

sys.exit(1 if failures else 0)
