"""
C12 defect 2: a Predicate subclass called with ordinary objects only (no variable) gives an instance; used as a
condition of a query (ConditionType = Union[SymbolicExpression, bool, Predicate] allows exactly that) the instance is
never called: it is wrapped in a Literal and counts as true because objects are truthy. The same predicate with one
variable argument, or the same test written as a @symbolic_function, filters correctly.

Clause violated: the split "all arguments concrete" of the quantifier; "contributing exactly the truth value the
concrete call returns for those values".
"""
import sys
from dataclasses import dataclass
from typing import Any

from krrood.entity_query_language.entity import let, entity, or_, not_
from krrood.entity_query_language.quantify_entity import an
from krrood.entity_query_language.predicate import Predicate, symbolic_function

calls = []


@dataclass(eq=False)
class Gt(Predicate):
    a: Any
    b: Any

    def __call__(self):
        calls.append((self.a, self.b))
        return self.a > self.b


@symbolic_function
def gt(a, b):
    return a > b


DOMAIN = [0, 1, 2]
failures = 0


def check(title, got, expected):
    global failures
    ok = got == expected
    failures += not ok
    print(("OK   " if ok else "FAIL ") + title)
    print("   expected:", expected, "  got:", got, "  calls of Gt.__call__:", list(calls))
    calls.clear()


assert Gt(1, 2)() is False
calls.clear()

v = let(int, DOMAIN)
check("entity(v, Gt(1, 2))  (false for every v)", list(an(entity(v, Gt(1, 2))).evaluate()), [])

v = let(int, DOMAIN)
check("entity(v, v >= 0, Gt(1, 2))", list(an(entity(v, v >= 0, Gt(1, 2))).evaluate()), [])

v = let(int, DOMAIN)
check("entity(v, or_(Gt(1, 2), v > 1))", list(an(entity(v, or_(Gt(1, 2), v > 1))).evaluate()), [2])

v = let(int, DOMAIN)
check("entity(v, not_(Gt(1, 2)))", list(an(entity(v, not_(Gt(1, 2)))).evaluate()), DOMAIN)

v = let(int, DOMAIN)
check("entity(v, Gt(v, 0), Gt(1, 2))  (one symbolic, one concrete)",
      list(an(entity(v, Gt(v, 0), Gt(1, 2))).evaluate()), [])

# for comparison: the symbolic function spelling of the same conditions is right
v = let(int, DOMAIN)
check("[comparison] entity(v, v >= 0, gt(1, 2))", list(an(entity(v, v >= 0, gt(1, 2))).evaluate()), [])

sys.exit(1 if failures else 0)
