"""
C01 defect 3: for_all whose condition mentions a nested query that selects an expression (an attribute) and has no
condition of its own. The nested query is a free variable of the outer query, but the universal operator forgets the
value it chose for it: every value of the nested query is returned, also the ones that violate the condition.

(The same nested query with any condition, e.g. z.a >= 0, gives the right answer.)
"""
import sys
from dataclasses import dataclass

from krrood.entity_query_language.entity import entity, let, for_all
from krrood.entity_query_language.quantify_entity import an


@dataclass
class Item:
    name: str
    a: int


items = [Item("p0", 0), Item("p1", 1), Item("p2", 2)]
limits = [Item("q1", 1), Item("q2", 2)]

expected = sorted({i.a for i in items if all(l.a >= i.a for l in limits)})

z = let(Item, items, name="z")
q = let(Item, limits, name="q")
value = an(entity(z.a))  # the values 0, 1, 2
query = an(entity(value, for_all(q, q.a >= value)))
got = sorted(set(query.evaluate()))
print("values v of z.a with q.a >= v for every q: expected", expected, "got", got)

z = let(Item, items, name="z")
q = let(Item, limits, name="q")
value = an(entity(z.a, z.a >= 0))
query = an(entity(value, for_all(q, q.a >= value)))
print("control (nested query with a condition): got", sorted(set(query.evaluate())))

sys.exit(0 if got == expected else 1)
