"""
C01 defect 1: for_all whose condition mentions a flatten(...) variable that is not bound yet.

The flatten variable is a free variable of the query (it is NOT the quantified one). The universal operator only keeps
the values of plain variables in its candidate solutions, so the value chosen for the flatten variable is forgotten:
for every further value of the universal variable the condition is checked for "some element" instead of "the same
element", and the selected flatten variable is enumerated again afterwards.
"""
import sys
from dataclasses import dataclass, field
from typing import List

from krrood.entity_query_language.entity import entity, let, for_all, flatten
from krrood.entity_query_language.quantify_entity import an


@dataclass
class Box:
    name: str
    sizes: List[int] = field(default_factory=list)


@dataclass
class Limit:
    value: int


failed = False

# ---- (a) the flatten variable is selected -------------------------------------------------------------------------
boxes = [Box("box", [0, 2, 1])]
limits = [Limit(2)]
box = let(Box, boxes, name="box")
size = flatten(box.sizes)
limit = let(Limit, limits, name="limit")
query = an(entity(size, for_all(limit, limit.value <= size)))
got = sorted(query.evaluate())
expected = sorted(s for b in boxes for s in b.sizes if all(l.value <= s for l in limits))
print("(a) sizes that are >= every limit          expected", expected, "got", got)
failed |= got != expected

# the same query with the flatten variable bound by an earlier condition is right
box = let(Box, boxes, name="box")
size = flatten(box.sizes)
limit = let(Limit, limits, name="limit")
query = an(entity(size, size >= 0, for_all(limit, limit.value <= size)))
print("    same, flatten variable bound beforehand: got", sorted(query.evaluate()))

# ---- (b) only the plain variable is selected: a box is returned although no assignment satisfies the condition ---
boxes = [Box("box", [1, 2])]
limits = [Limit(1), Limit(2)]
box = let(Box, boxes, name="box")
size = flatten(box.sizes)
limit = let(Limit, limits, name="limit")
query = an(entity(box, for_all(limit, limit.value != size)))
got = [b.name for b in query.evaluate()]
expected = [
    b.name for b in boxes if any(all(l.value != s for l in limits) for s in b.sizes)
]
print("(b) boxes with a size that differs from every limit   expected", expected, "got", got)
failed |= got != expected

sys.exit(1 if failed else 0)
