"""
C01 defect 5 (depends on the reading of a nested query): two nested queries that are written over the same variable
object are not independent. A nested query an(entity(z, C(z))) stands for "an answer of the query"; the outer query
below asks for the pairs (a handle, a container). Because both nested queries were written with the same `body`
variable, the value bound by the first one is kept for the second one and no pair is found.
With two different variable objects the answer is right.
"""
import sys
from dataclasses import dataclass

from krrood.entity_query_language.entity import entity, set_of, let, contains
from krrood.entity_query_language.quantify_entity import an


@dataclass
class Body:
    name: str


bodies = [Body("Handle1"), Body("Container1"), Body("Handle2")]


def pairs(rows, first, second):
    result = set()
    for row in rows:
        values = {k: v.value for k, v in row.data.items()}
        result.add((values[first].name, values[second].name))
    return result


expected = {
    (h.name, c.name)
    for h in bodies
    for c in bodies
    if "Handle" in h.name and "Container" in c.name
}

body = let(Body, bodies, name="body")
handles = an(entity(body, contains(body.name, "Handle")))
containers = an(entity(body, contains(body.name, "Container")))
got = pairs(an(set_of([handles, containers])).evaluate(), handles, containers)
print("same variable object in both nested queries:  expected", sorted(expected), "got", sorted(got))

body_1 = let(Body, bodies, name="body")
body_2 = let(Body, bodies, name="body")
handles_2 = an(entity(body_1, contains(body_1.name, "Handle")))
containers_2 = an(entity(body_2, contains(body_2.name, "Container")))
control = pairs(an(set_of([handles_2, containers_2])).evaluate(), handles_2, containers_2)
print("control, two variable objects: got", sorted(control))

sys.exit(0 if got == expected else 1)
