"""
C01 defect 2: exists(...) reports "false" for a binding for which it also reported "true", when its condition contains
a literal in a part that and_/or_ may skip. Under not_(and_(...)) / not_(or_(...)) the false result becomes an answer.

All the other variables are bound when exists is evaluated (x is bound by the first condition), so this is not the
known "exists with other free variables" behaviour.
"""
import sys
from dataclasses import dataclass

from krrood.entity_query_language.entity import entity, let, exists, and_, or_, not_
from krrood.entity_query_language.quantify_entity import an


@dataclass
class Item:
    name: str
    a: int
    b: int = 0


items = [Item("x0", 0), Item("x9", 9)]
others = [Item("q2", 2), Item("q0", 0)]


def oracle(negated_disjunction: bool):
    result = []
    for x in items:
        ex = any(q.a > x.a and x.b == 0 for q in others)
        value = not (ex or x.a > 20) if negated_disjunction else not (ex and x.a < 20)
        if value:
            result.append(x.name)
    return result


failed = False

x = let(Item, items, name="x")
q = let(Item, others, name="q")
query = an(
    entity(
        x,
        x.a >= 0,  # binds x
        not_(or_(exists(q, and_(q.a > x.a, x.b == 0)), x.a > 20)),
    )
)
got = [i.name for i in query.evaluate()]
expected = oracle(True)
print("not_(or_(exists(q, and_(q.a > x.a, x.b == 0)), x.a > 20))   expected", expected, "got", got)
failed |= sorted(got) != sorted(expected)

x = let(Item, items, name="x")
q = let(Item, others, name="q")
query = an(
    entity(
        x,
        x.a >= 0,
        not_(and_(exists(q, and_(q.a > x.a, x.b == 0)), x.a < 20)),
    )
)
got = [i.name for i in query.evaluate()]
expected = oracle(False)
print("not_(and_(exists(q, and_(q.a > x.a, x.b == 0)), x.a < 20))  expected", expected, "got", got)
failed |= sorted(got) != sorted(expected)

# control: without a literal inside the condition of exists the answer is right
x = let(Item, items, name="x")
q = let(Item, others, name="q")
query = an(
    entity(
        x,
        x.a >= 0,
        not_(or_(exists(q, and_(q.a > x.a, x.b == x.b)), x.a > 20)),
    )
)
print("control without a literal: got", [i.name for i in query.evaluate()])

sys.exit(1 if failed else 0)
