"""
C01 defect 6: whether a comparison with a correlated the(...) has answers depends on the order of the conditions.
The comparator always evaluates the side that contains the(...) first. When the nested query refers to a variable of
the outer query that is not bound yet, the nested query ranges over that variable as well, counts the answers for all
of its values together and raises MultipleSolutionFound - although there is exactly one answer for every value.
"""
import sys
from dataclasses import dataclass

from krrood.entity_query_language.entity import entity, let
from krrood.entity_query_language.quantify_entity import an, the
from krrood.entity_query_language.failures import MultipleSolutionFound


@dataclass
class Item:
    name: str
    a: int
    b: int


items = [Item("x0", 0, 1), Item("x1", 1, 2), Item("x2", 2, 0)]
# for every x there is exactly one z with z.a == x.b
expected = [
    x.name for x in items if x.a < [z for z in items if z.a == x.b][0].a
]

x = let(Item, items, name="x")
z = let(Item, items, name="z")
bound_first = an(entity(x, x.a >= 0, x.a < the(entity(z, z.a == x.b)).a))
print("x bound by an earlier condition: got", [i.name for i in bound_first.evaluate()], "expected", expected)

x = let(Item, items, name="x")
z = let(Item, items, name="z")
query = an(entity(x, x.a < the(entity(z, z.a == x.b)).a))
try:
    got = [i.name for i in query.evaluate()]
    print("same query without the earlier condition: got", got, "expected", expected)
    sys.exit(0 if got == expected else 1)
except MultipleSolutionFound as error:
    print("same query without the earlier condition: raises MultipleSolutionFound:", error, " expected", expected)
    sys.exit(1)
