"""
C01 defect 4: a row of set_of([...]) that selects a nested query cannot be read with row[nested_query] (the documented
way to read a row, see doc/eql/domain_mapping.md: r[drawers]); it raises KeyError. The value is in the row, but the
lookup translates the nested query to the variable it selects, which is not a key of the row.
"""
import sys
from dataclasses import dataclass

from krrood.entity_query_language.entity import entity, set_of, let
from krrood.entity_query_language.quantify_entity import an


@dataclass
class Item:
    name: str
    a: int


items = [Item("p0", 0), Item("p1", 1), Item("p2", 2)]

x = let(Item, items, name="x")
z = let(Item, items, name="z")
small = an(entity(z, z.a == 0))
query = an(set_of([x, small], x.a > small.a))
rows = list(query.evaluate())
print("rows:", [{k._name_: v.value.name for k, v in row.data.items()} for row in rows])
failed = False
for row in rows:
    try:
        print("row[x] =", row[x].name, " row[small] =", row[small].name)
    except KeyError as error:
        print("row[x] =", row[x].name, " row[small] raises KeyError:", error)
        failed = True
print("expected: row[small] is p0 in every row")
sys.exit(1 if failed else 0)
