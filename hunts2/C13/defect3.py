"""
C13 - defect 3: instances that are not created through Symbol.__new__ are never registered.

Registration happens in Symbol.__new__ only. Unpickling with protocol 0 or 1 rebuilds an object with
copyreg._reconstructor, i.e. object.__new__(cls) (the same holds for every library that allocates with
object.__new__): the instance is alive, isinstance(instance, T) holds, but let(T, None) does not range over it.
Protocols 2 and later call cls.__new__ and are registered.
"""
import pickle
import sys
from dataclasses import dataclass

from krrood.entity_query_language.entity import let, entity
from krrood.entity_query_language.predicate import Symbol
from krrood.entity_query_language.quantify_entity import an


@dataclass(eq=False)
class Body(Symbol):
    name: str = ""


original = Body("b")
failed = False
clones = []
for protocol in range(0, pickle.HIGHEST_PROTOCOL + 1):
    before = len(list(an(entity(let(Body, None))).evaluate()))
    clones.append(pickle.loads(pickle.dumps(original, protocol=protocol)))
    after = len(list(an(entity(let(Body, None))).evaluate()))
    print(f"pickle protocol {protocol}: expected 1 new instance in the range of let(Body, None), got {after - before}")
    failed = failed or after - before != 1
sys.exit(1 if failed else 0)
