"""
C13 - defect 1: the domain of let(T, None) is neither a snapshot nor live.

SymbolGraph.get_instances_of_type copies the per-class list of T when the walk starts, but the list of every
subclass only when the walk reaches that subclass. Instances created while the query is being evaluated are therefore
left out if they are of class T itself and included if they are of a subclass of T. A rule that infers instances of a
subclass of the class it ranges over consumes its own conclusions.
"""
import gc
import sys
from dataclasses import dataclass

from krrood.entity_query_language.conclusion import Add
from krrood.entity_query_language.entity import let, entity, inference
from krrood.entity_query_language.predicate import Symbol
from krrood.entity_query_language.quantify_entity import an


@dataclass(eq=False)
class Animal(Symbol):
    x: int = 0


@dataclass(eq=False)
class Dog(Animal):
    pass


failed = False

# 1. plain query, two instances created after the evaluation has begun
keep = [Animal(1), Animal(2)]
results = an(entity(let(Animal, None))).evaluate()
first = next(results)
keep.append(Animal(3))  # same class as the variable
keep.append(Dog(4))  # subclass
seen = sorted(o.x for o in [first] + list(results))
print("plain query         : expected [1, 2] (snapshot) or [1, 2, 3, 4] (live), got", seen)
if seen not in ([1, 2], [1, 2, 3, 4]):
    failed = True
del results, first
keep.clear()
gc.collect()

# 2. a rule: every Animal that exists gets a Dog. Two animals exist -> two conclusions.
keep = [Animal(1), Animal(2)]
animal = let(Animal, None)
dogs = inference(Dog)()
with an(entity(dogs, animal.x > 0)) as rule:
    Add(dogs, inference(Dog)(x=animal.x))
inferred = list(rule.evaluate())
print("rule Animal -> Dog  : expected 2 conclusions, got", len(inferred))
if len(inferred) != 2:
    failed = True
del inferred
gc.collect()

# for comparison: the same rule concluding instances of the class itself behaves like a snapshot
animal = let(Animal, None)
animals = inference(Animal)()
with an(entity(animals, animal.x > 0)) as rule:
    Add(animals, inference(Animal)(x=animal.x))
inferred = list(rule.evaluate())
print("rule Animal -> Animal: expected 2 conclusions, got", len(inferred))
if len(inferred) != 2:
    failed = True

sys.exit(1 if failed else 0)
