"""
C13 - defect 4: subclasses registered with ABC.register are not looked up.

get_instances_of_type walks type_.__subclasses__(). A class that is a subclass by registration (issubclass and
isinstance hold, and let() with a given domain would keep its instances because it filters with isinstance) is not
found there.
"""
import sys
from abc import ABC
from dataclasses import dataclass

from krrood.entity_query_language.entity import let, entity
from krrood.entity_query_language.predicate import Symbol
from krrood.entity_query_language.quantify_entity import an


class Shape(Symbol, ABC):
    pass


@dataclass(eq=False)
class Circle(Symbol):
    radius: int = 1


Shape.register(Circle)

circle = Circle()
assert isinstance(circle, Shape) and issubclass(Circle, Shape)
with_domain = list(an(entity(let(Shape, [circle]))).evaluate())
without_domain = list(an(entity(let(Shape, None))).evaluate())
print("let(Shape, [circle]): expected 1, got", len(with_domain))
print("let(Shape, None)    : expected 1, got", len(without_domain))
sys.exit(0 if len(without_domain) == 1 else 1)
