"""
C13 - defect 5: the class of an instance is recorded once, at creation.

WrappedInstance.instance_type is type(instance) when the instance is registered and the per-class index is keyed by
it. After `instance.__class__ = Other` (legal between classes of the same layout) the instance is still served for
its old class, of which it is no instance any more, and not for its new one.
"""
import sys
from dataclasses import dataclass

from krrood.entity_query_language.entity import let, entity
from krrood.entity_query_language.predicate import Symbol
from krrood.entity_query_language.quantify_entity import an


@dataclass(eq=False)
class Caterpillar(Symbol):
    name: str = ""


@dataclass(eq=False)
class Butterfly(Symbol):
    name: str = ""


animal = Caterpillar("a")
animal.__class__ = Butterfly

caterpillars = list(an(entity(let(Caterpillar, None))).evaluate())
butterflies = list(an(entity(let(Butterfly, None))).evaluate())
print("let(Caterpillar, None): expected 0, got", len(caterpillars),
      "- isinstance of the result:", [isinstance(o, Caterpillar) for o in caterpillars])
print("let(Butterfly, None)  : expected 1, got", len(butterflies))
sys.exit(0 if (len(caterpillars), len(butterflies)) == (0, 1) else 1)
