"""
C13 - defect 2: live instances are merged when they answer to the attribute name `_id_`.

HashedValue.__post_init__ takes `value._id_` as the identity of a value if the value has such an attribute (meant for
symbolic expressions). HashedIterable de-duplicates the domain of a variable by that identity. A Symbol class that
has a field called `_id_`, or a permissive __getattr__ (a record that answers None for unknown names), therefore loses
all but one of the instances that share the answer.
"""
import sys
from dataclasses import dataclass, field

from krrood.entity_query_language.entity import let, entity
from krrood.entity_query_language.predicate import Symbol
from krrood.entity_query_language.quantify_entity import an


@dataclass(eq=False)
class Record(Symbol):
    """A record whose unknown attributes read as None."""

    data: dict = field(default_factory=dict)

    def __getattr__(self, name):
        return self.__dict__.get("data", {}).get(name)


@dataclass(eq=False)
class Row(Symbol):
    _id_: int = 0
    payload: str = ""


records = [Record({"a": 1}), Record({"a": 2}), Record({"a": 3})]
rows = [Row(7, "first"), Row(7, "second")]

found_records = list(an(entity(let(Record, None))).evaluate())
found_rows = list(an(entity(let(Row, None))).evaluate())
print("Record (permissive __getattr__): expected 3 instances, got", len(found_records))
print("Row (field named _id_)         : expected 2 instances, got", len(found_rows))
sys.exit(0 if (len(found_records), len(found_rows)) == (3, 2) else 1)
