"""
History: a variable with an explicit domain (a list) answers a second evaluation from the elements it remembered
during the first complete evaluation.  An element appended to the list before the first evaluation, or after an
evaluation that was abandoned early, is seen; an element appended after a complete evaluation is not - the second
evaluation drops a solution (and keeps returning elements that were removed from the list).
"""
import sys

from krrood.entity_query_language.entity import entity, let
from krrood.entity_query_language.quantify_entity import an
from krrood.entity_query_language.result_quantification_constraint import AtMost

failures = 0


def check(label, got, expected):
    global failures
    ok = got == expected
    failures += not ok
    print(f"{'ok  ' if ok else 'FAIL'} {label}: expected {expected}, got {got}")


# appended after let(), before the first evaluation: seen
domain = [1, 2, 3]
x = let(int, domain)
query = an(entity(x, x > 1))
domain.append(4)
check("append before first evaluation", list(query.evaluate()), [2, 3, 4])

# appended after an evaluation that stopped early: seen
domain = [1, 2, 3]
x = let(int, domain)
try:
    list(an(entity(x, x > 0), quantification=AtMost(1)).evaluate())
except Exception:
    pass
domain.append(4)
check("append after abandoned evaluation", list(an(entity(x, x > 1)).evaluate()), [2, 3, 4])

# appended after a complete evaluation: not seen
domain = [1, 2, 3]
x = let(int, domain)
query = an(entity(x, x > 1))
check("first evaluation", list(query.evaluate()), [2, 3])
domain.append(4)
check("append after complete evaluation", list(query.evaluate()), [2, 3, 4])
domain.remove(2)
check("remove after complete evaluation", list(query.evaluate()), [3, 4])

sys.exit(1 if failures else 0)
