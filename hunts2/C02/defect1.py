"""
A predicate all of whose arguments are plain Python values is accepted as a condition (ConditionType names
Predicate), but its __call__ is never consulted: the condition counts as true whatever the predicate says, and
not_(...) of it counts as false.  Solutions are therefore produced that satisfy no assignment / dropped.
"""
import sys
from dataclasses import dataclass

from krrood.entity_query_language.entity import entity, let, not_, or_, and_
from krrood.entity_query_language.predicate import Predicate, HasType
from krrood.entity_query_language.quantify_entity import an, the


@dataclass(eq=False)
class Less(Predicate):
    u: int
    v: int

    def __call__(self):
        return self.u < self.v


failures = 0


def check(label, got, expected):
    global failures
    ok = got == expected
    failures += not ok
    print(f"{'ok  ' if ok else 'FAIL'} {label}: expected {expected}, got {got}")


domain = [1, 2, 3]

# the same predicate with a variable argument behaves
x = let(int, domain)
check("x > 1 and Less(x, 1)", list(an(entity(x, x > 1, Less(x, 1))).evaluate()), [])

# plain arguments: Less(2, 1)() is False, HasType(5, str)() is False
x = let(int, domain)
check("x > 1 and Less(2, 1)", list(an(entity(x, x > 1, Less(2, 1))).evaluate()), [])
x = let(int, domain)
check("x > 1 and HasType(5, str)", list(an(entity(x, x > 1, HasType(5, str))).evaluate()), [])
x = let(int, domain)
check(
    "x > 1 and not HasType(5, str)",
    list(an(entity(x, x > 1, not_(HasType(5, str)))).evaluate()),
    [2, 3],
)
x = let(int, domain)
check(
    "(x > 1 and Less(2, 1)) or (x < 3 and Less(1, 2))",
    list(an(entity(x, or_(and_(x > 1, Less(2, 1)), and_(x < 3, Less(1, 2))))).evaluate()),
    [1, 2],
)
# the(...) must fail with NoSolutionFound, it returns an answer instead
x = let(int, domain)
try:
    answer = the(entity(x, x == 2, Less(2, 1))).evaluate()
    check("the(x == 2 and Less(2, 1))", answer, "NoSolutionFound")
except Exception as error:
    check("the(x == 2 and Less(2, 1))", type(error).__name__, "NoSolutionFound")

sys.exit(1 if failures else 0)
