"""
A nested query that selects an attribute of a variable which none of its own conditions binds (here it has no
conditions at all) binds that variable while it evaluates its selected expression and then forgets the binding.
The outer query enumerates the variable a second time: it returns assignments that do not satisfy the comparison
and returns some assignments twice.
"""
import sys
from collections import Counter
from dataclasses import dataclass

from krrood.entity_query_language.entity import entity, set_of, let
from krrood.entity_query_language.quantify_entity import an


@dataclass(eq=False)
class Q:
    k: int

    def __repr__(self):
        return f"Q{self.k}"


@dataclass(eq=False)
class P:
    a: int
    b: int

    def __repr__(self):
        return f"P{self.a}{self.b}"


qs = [Q(0), Q(1), Q(2)]
ps = [P(0, 1), P(1, 0), P(2, 0), P(1, 3)]
expected = Counter((p, q) for p in ps for q in qs if q.k == p.a and p.b > 0)

failures = 0


def run(label, make_sub):
    global failures
    x = let(P, ps, name="x")
    y = let(Q, qs, name="y")
    query = an(set_of((x, y), y.k == make_sub(x), x.b > 0))
    got = Counter((d[x], d[y]) for d in query.evaluate())
    ok = got == expected
    failures += not ok
    print(f"{'ok  ' if ok else 'FAIL'} {label}")
    print("     expected", sorted(expected.elements(), key=repr))
    print("     got     ", sorted(got.elements(), key=repr))


# reference spellings of the same query
run("y.k == x.a", lambda x: x.a)
run("y.k == an(entity(x.a, x.a >= 0))", lambda x: an(entity(x.a, x.a >= 0)))
# the nested query has no condition that binds x
run("y.k == an(entity(x.a))", lambda x: an(entity(x.a)))

sys.exit(1 if failures else 0)
