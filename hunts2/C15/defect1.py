"""
C15 defect 1: a sub property asserted through the constructor is lost from a SINGLE-VALUED super property field of the
same object (the container case was repaired in cc86ea6, the single valued neighbour was not).

Boss(head_of=c): the generated __init__ assigns head_of first -> WorksFor(b, c) is inferred and written to b.works_for,
then __init__ assigns the default works_for=None and PropertyDescriptor.__set__ overwrites the inferred value.
The graph keeps WorksFor(b, c); the field says None.
"""
from __future__ import annotations
import sys
from dataclasses import dataclass, field
from typing_extensions import List

from krrood.entity_query_language.predicate import Symbol
from krrood.entity_query_language.symbol_graph import SymbolGraph
from krrood.ontomatic.property_descriptor.property_descriptor import PropertyDescriptor


@dataclass(eq=False)
class Company(Symbol):
    name: str


@dataclass(eq=False)
class Boss(Symbol):
    name: str
    head_of: Company = None  # sub property, declared (and therefore assigned) first
    works_for: Company = None  # single valued super property
    member_of: List[Company] = field(default_factory=list)  # container super property (repaired case)


@dataclass
class MemberOf(PropertyDescriptor): ...


@dataclass
class WorksFor(MemberOf): ...


@dataclass
class HeadOf(WorksFor): ...


Boss.head_of = HeadOf(Boss, "head_of")
Boss.works_for = WorksFor(Boss, "works_for")
Boss.member_of = MemberOf(Boss, "member_of")
SymbolGraph().clear()
SymbolGraph()

c = Company("c")
b = Boss("b", head_of=c)  # history: one single-valued assignment, done by the constructor

graph = sorted(
    (type(r.wrapped_field.property_descriptor).__name__, r.source.instance.name, r.target.instance.name)
    for r in SymbolGraph().relations()
)
print("graph relations       :", graph)
print("b.member_of (container): expected [c], got", [x.name for x in b.member_of])
print("b.works_for (single)   : expected c,   got", b.works_for and b.works_for.name)

# the same fact asserted after construction gives the full closure
b2 = Boss("b2")
b2.head_of = c
print("b2.works_for (asserted after construction):", b2.works_for and b2.works_for.name)

ok = b.works_for is c
print("OK" if ok else "VIOLATION: graph holds WorksFor(b, c) but the field b.works_for is None")
sys.exit(0 if ok else 1)
