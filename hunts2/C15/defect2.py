"""
C15 defect 2: a sub property of a role that is asserted through the constructor does not reach the role taker when the
dataclass declares the role's own field before the role-taker field.

The generated __init__ assigns in field order: head_of is recorded while self.person does not exist yet,
PropertyDescriptorRelation.source_role_taker is getattr(..., None) -> None, so the role-taker super relations are
silently skipped and never made up for.
"""
from __future__ import annotations
import sys
from dataclasses import dataclass, field
from typing_extensions import List

from krrood.class_diagrams.utils import Role
from krrood.entity_query_language.predicate import Symbol
from krrood.entity_query_language.symbol_graph import SymbolGraph
from krrood.ontomatic.property_descriptor.property_descriptor import PropertyDescriptor


@dataclass(eq=False)
class Company(Symbol):
    name: str


@dataclass(eq=False)
class Person(Symbol):
    name: str
    member_of: List[Company] = field(default_factory=list)


@dataclass(eq=False)
class CEO(Role[Person], Symbol):
    head_of: Company  # declared before the role taker
    person: Person
    __hash__ = object.__hash__
    __eq__ = object.__eq__


@dataclass
class MemberOf(PropertyDescriptor): ...


@dataclass
class HeadOf(MemberOf): ...


Person.member_of = MemberOf(Person, "member_of")
CEO.head_of = HeadOf(CEO, "head_of")
SymbolGraph().clear()
SymbolGraph()

c = Company("c")
p = Person("p")
ceo = CEO(c, p)
print("constructor          : p.member_of expected [c], got", [x.name for x in p.member_of])

p2 = Person("p2")
ceo2 = CEO(None, p2)
ceo2.head_of = c
print("assigned afterwards  : p2.member_of expected [c], got", [x.name for x in p2.member_of])

ok = any(x is c for x in p.member_of)
print("OK" if ok else "VIOLATION: HeadOf(ceo, c) asserted, MemberOf(p, c) on the role taker is missing in field and graph")
sys.exit(0 if ok else 1)
