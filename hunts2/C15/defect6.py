"""
C15 defect 6: a role whose role-taker type is spelled as a forward reference, Role["Person"] (needed whenever the role
class is defined before the role taker), is not recognised as a role: ClassDiagram._create_association_relations
compares `get_generic_type_param(cls, Role)[0] is target_type`, i.e. ForwardRef('Person') with the class Person.
No HasRoleTaker association is created and sub properties asserted on the role silently never reach the role taker.
"""
from __future__ import annotations
import sys
from dataclasses import dataclass, field
from typing_extensions import List

from krrood.class_diagrams.utils import Role
from krrood.entity_query_language.predicate import Symbol
from krrood.entity_query_language.symbol_graph import SymbolGraph
from krrood.ontomatic.property_descriptor.property_descriptor import PropertyDescriptor


@dataclass(eq=False)
class Org(Symbol):
    name: str


@dataclass(eq=False)
class CEO(Role["Person"], Symbol):  # Person is defined below
    person: Person
    head_of: Org = None
    __hash__ = object.__hash__
    __eq__ = object.__eq__


@dataclass(eq=False)
class Person(Symbol):
    name: str
    member_of: List[Org] = field(default_factory=list)


@dataclass(eq=False)
class Chair(Role[Person], Symbol):  # the same role, spelled with the class
    person: Person
    chair_of: Org = None
    __hash__ = object.__hash__
    __eq__ = object.__eq__


@dataclass
class MemberOf(PropertyDescriptor): ...


@dataclass
class HeadOf(MemberOf): ...


@dataclass
class ChairOf(MemberOf): ...


Person.member_of = MemberOf(Person, "member_of")
CEO.head_of = HeadOf(CEO, "head_of")
Chair.chair_of = ChairOf(Chair, "chair_of")
SymbolGraph().clear()
SymbolGraph()

o = Org("o")
p1 = Person("p1")
Chair(p1).chair_of = o
print("Role[Person]   : p1.member_of expected ['o'], got", [x.name for x in p1.member_of])
p2 = Person("p2")
CEO(p2).head_of = o
print('Role["Person"] : p2.member_of expected [\'o\'], got', [x.name for x in p2.member_of])

ok = any(x is o for x in p2.member_of)
print("OK" if ok else "VIOLATION: HeadOf(ceo, o) asserted, MemberOf(p2, o) on the role taker is missing")
sys.exit(0 if ok else 1)
