"""
C15 defect 5: role-taker resolution stops after one level. A role whose role taker is itself a role (a role of a role)
does not pass a sub property on to the object at the end of the chain when the middle role does not carry a field for
the super property; the same for the inverse (there it ends in a ValueError and a graph/field mismatch).

Person <- Intern(Role[Person]) <- LeadIntern(Role[Intern]);  LeadsAt < MemberOf, member_of lives on Person only.
"""
from __future__ import annotations
import sys
from dataclasses import dataclass, field
from typing_extensions import List

from krrood.class_diagrams.utils import Role
from krrood.entity_query_language.predicate import Symbol
from krrood.entity_query_language.symbol_graph import SymbolGraph
from krrood.ontomatic.property_descriptor.mixins import HasInverseProperty
from krrood.ontomatic.property_descriptor.property_descriptor import PropertyDescriptor


@dataclass(eq=False)
class Org(Symbol):
    name: str
    members: List[Person] = field(default_factory=list)


@dataclass(eq=False)
class Person(Symbol):
    name: str
    member_of: List[Org] = field(default_factory=list)


@dataclass(eq=False)
class Intern(Role[Person], Symbol):
    person: Person
    __hash__ = object.__hash__
    __eq__ = object.__eq__


@dataclass(eq=False)
class LeadIntern(Role[Intern], Symbol):
    intern: Intern
    leads_at: Org = None
    __hash__ = object.__hash__
    __eq__ = object.__eq__


@dataclass
class Member(PropertyDescriptor, HasInverseProperty):
    @classmethod
    def get_inverse(cls):
        return MemberOf


@dataclass
class MemberOf(PropertyDescriptor): ...


@dataclass
class LeadsAt(MemberOf): ...


Person.member_of = MemberOf(Person, "member_of")
LeadIntern.leads_at = LeadsAt(LeadIntern, "leads_at")
Org.members = Member(Org, "members")
SymbolGraph().clear()
SymbolGraph()
failures = []

# one level works
o, p = Org("o"), Person("p")
intern = Intern(p)
o.members.append(intern)
print("one level : o.members.append(Intern(p))            -> p.member_of =", [x.name for x in p.member_of])

# two levels, super property
o, p = Org("o"), Person("p")
lead = LeadIntern(Intern(p))
lead.leads_at = o
print("two levels: LeadIntern(Intern(p)).leads_at = o      -> p.member_of expected ['o'], got", [x.name for x in p.member_of])
if not any(x is o for x in p.member_of):
    failures.append("LeadsAt(lead, o) does not reach MemberOf(p, o)")

# two levels, inverse
o, p = Org("o"), Person("p")
lead = LeadIntern(Intern(p))
try:
    o.members.append(lead)
    print("two levels: o.members.append(LeadIntern(Intern(p))) -> p.member_of =", [x.name for x in p.member_of])
except ValueError as error:
    print("two levels: o.members.append(LeadIntern(Intern(p))) -> ValueError:", error)
    failures.append("inverse through two role levels raises")
in_graph = any(r.source.instance is o and r.target.instance is lead for r in SymbolGraph().relations())
print("            Member(o, lead) in graph:", in_graph, "| in field o.members:", any(x is lead for x in o.members))
if in_graph != any(x is lead for x in o.members):
    failures.append("graph and field o.members disagree after the error")

print("OK" if not failures else "VIOLATION: " + "; ".join(failures))
sys.exit(0 if not failures else 1)
