"""
C15 defect 7 (low severity, alternative spellings of 'add'): mutators of the managed containers that are not
overridden put values into the field without recording a relation:
  * MonitoredSet.symmetric_difference_update(...)
  * copy.copy(instance): the copy shares the managed container of the original, PropertyDescriptor.__get__ re-binds the
    owner on every access, so an append through the copy lands in the original's field (without a relation for it) and
    the relation is recorded for whoever touched the field last.
"""
from __future__ import annotations
import copy
import sys
from dataclasses import dataclass, field
from typing_extensions import List, Set

from krrood.entity_query_language.predicate import Symbol
from krrood.entity_query_language.symbol_graph import SymbolGraph
from krrood.ontomatic.property_descriptor.mixins import HasInverseProperty
from krrood.ontomatic.property_descriptor.property_descriptor import PropertyDescriptor


@dataclass(eq=False)
class Org(Symbol):
    name: str
    members: Set[Person] = field(default_factory=set)


@dataclass(eq=False)
class Person(Symbol):
    name: str
    member_of: List[Org] = field(default_factory=list)


@dataclass
class Member(PropertyDescriptor, HasInverseProperty):
    @classmethod
    def get_inverse(cls):
        return MemberOf


@dataclass
class MemberOf(PropertyDescriptor, HasInverseProperty):
    @classmethod
    def get_inverse(cls):
        return Member


Org.members = Member(Org, "members")
Person.member_of = MemberOf(Person, "member_of")
SymbolGraph().clear()
SymbolGraph()
failures = []


def related(a, b):
    return any(r.source.instance is a and r.target.instance is b for r in SymbolGraph().relations())


o, p = Org("o"), Person("p")
o.members.symmetric_difference_update({p})
print("symmetric_difference_update: o.members =", [x.name for x in o.members], "| Member(o, p) in graph:", related(o, p),
      "| p.member_of expected ['o'], got", [x.name for x in p.member_of])
if not related(o, p):
    failures.append("symmetric_difference_update adds without a relation")

o1, o2, p = Org("o1"), Org("o2"), Person("p")
p.member_of.append(o1)
q = copy.copy(p)
q.name = "q"
q.member_of.append(o2)
print("copy.copy: p.member_of expected ['o1'], got", [x.name for x in p.member_of], "| MemberOf(p, o2) in graph:", related(p, o2))
print("           q.member_of =", [x.name for x in q.member_of], "| MemberOf(q, o1) in graph:", related(q, o1),
      "| o1.members =", sorted(x.name for x in o1.members))
if any(x is o2 for x in p.member_of) and not related(p, o2):
    failures.append("append through a copy lands in the original's field without a relation")

print("OK" if not failures else "VIOLATION: " + "; ".join(failures))
sys.exit(0 if not failures else 1)
