"""
C15 defect 3: assigning a collection to a managed field drops a value that is still derivable, when that value had
been asserted directly BEFORE it became derivable (repair ce33a5f keeps only relations whose `inferred` flag is set;
a relation that was first asserted and later also inferred keeps inferred=False).

History:  p.member_of.append(o) ; o.members.add(p) ; p.member_of = []
Member(o, p) is (still) asserted and implies MemberOf(p, o) - whatever the assignment means for the facts the field
held, o must be in p.member_of. The graph still holds MemberOf(p, o); the field does not.
"""
from __future__ import annotations
import sys
from dataclasses import dataclass, field
from typing_extensions import List

from krrood.entity_query_language.predicate import Symbol
from krrood.entity_query_language.symbol_graph import SymbolGraph
from krrood.ontomatic.property_descriptor.mixins import HasInverseProperty
from krrood.ontomatic.property_descriptor.property_descriptor import PropertyDescriptor


@dataclass(eq=False)
class Org(Symbol):
    name: str
    members: List[Person] = field(default_factory=list)


@dataclass(eq=False)
class Person(Symbol):
    name: str
    member_of: List[Org] = field(default_factory=list)


@dataclass
class Member(PropertyDescriptor, HasInverseProperty):
    @classmethod
    def get_inverse(cls):
        return MemberOf


@dataclass
class MemberOf(PropertyDescriptor, HasInverseProperty):
    @classmethod
    def get_inverse(cls):
        return Member


Org.members = Member(Org, "members")
Person.member_of = MemberOf(Person, "member_of")
SymbolGraph().clear()
SymbolGraph()


def history(order):
    o, p = Org("o"), Person("p")
    for step in order:
        if step == "p.member_of.append(o)":
            p.member_of.append(o)
        elif step == "o.members.append(p)":
            o.members.append(p)
    p.member_of = []
    in_graph = any(
        r.source.instance is p and r.target.instance is o for r in SymbolGraph().relations()
    )
    return [x.name for x in p.member_of], [x.name for x in o.members], in_graph


a = history(["o.members.append(p)", "p.member_of.append(o)"])
b = history(["p.member_of.append(o)", "o.members.append(p)"])
print("order 1 (members first)   : p.member_of =", a[0], " o.members =", a[1], " MemberOf(p,o) in graph:", a[2])
print("order 2 (member_of first) : p.member_of =", b[0], " o.members =", b[1], " MemberOf(p,o) in graph:", b[2])
print("expected in both orders   : p.member_of = ['o'] (Member(o, p) is asserted and implies it)")
ok = a[0] == ["o"] and b[0] == ["o"]
print("OK" if ok else "VIOLATION: result depends on the order of the two assertions; field disagrees with graph and closure")
sys.exit(0 if ok else 1)
