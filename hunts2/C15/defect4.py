"""
C15 defect 4: the inverse of a relation whose target is a role is looked up on the DECLARED role-taker type, not on the
class of the actual role taker (repair da72e89 did this for the super properties of the source, the inverse path
`inverse_field_from_target_role_taker` was left as it was).

Agent <- Employee(Agent) carries member_of; CEO is Role[Agent]; the CEO of an Employee:
  * ceo.head_of = o          raises ValueError although every consequence is derivable
  * o.members.append(ceo)    raises ValueError, Member(o, ceo) stays in the graph but not in o.members, and
                             MemberOf(e, o) / Member(o, e) are never inferred
"""
from __future__ import annotations
import sys
from dataclasses import dataclass, field
from typing_extensions import List

from krrood.class_diagrams.utils import Role
from krrood.entity_query_language.predicate import Symbol
from krrood.entity_query_language.symbol_graph import SymbolGraph
from krrood.ontomatic.property_descriptor.mixins import HasInverseProperty
from krrood.ontomatic.property_descriptor.property_descriptor import PropertyDescriptor


@dataclass(eq=False)
class Org(Symbol):
    name: str
    members: List[Agent] = field(default_factory=list)


@dataclass(eq=False)
class Agent(Symbol):
    name: str


@dataclass(eq=False)
class Employee(Agent):
    member_of: List[Org] = field(default_factory=list)


@dataclass(eq=False)
class CEO(Role[Agent], Symbol):
    agent: Agent
    head_of: Org = None
    __hash__ = object.__hash__
    __eq__ = object.__eq__


@dataclass
class Member(PropertyDescriptor, HasInverseProperty):
    @classmethod
    def get_inverse(cls):
        return MemberOf


@dataclass
class MemberOf(PropertyDescriptor, HasInverseProperty):
    @classmethod
    def get_inverse(cls):
        return Member


@dataclass
class HeadOf(MemberOf): ...


Employee.member_of = MemberOf(Employee, "member_of")
CEO.head_of = HeadOf(CEO, "head_of")
Org.members = Member(Org, "members")
SymbolGraph().clear()
SymbolGraph()

failures = []

o, e = Org("o"), Employee("e")
ceo = CEO(e)
try:
    ceo.head_of = o
    print("ceo.head_of = o        : no error")
except ValueError as error:
    failures.append("ceo.head_of = o raised")
    print("ceo.head_of = o        : raised ValueError:", error)
print("   (the super property on the actual role taker IS found: e.member_of =", [x.name for x in e.member_of], ")")

o2, e2 = Org("o2"), Employee("e2")
ceo2 = CEO(e2)
try:
    o2.members.append(ceo2)
    print("o2.members.append(ceo2): no error")
except ValueError as error:
    failures.append("o2.members.append(ceo2) raised")
    print("o2.members.append(ceo2): raised ValueError:", error)
in_graph = any(r.source.instance is o2 and r.target.instance is ceo2 for r in SymbolGraph().relations())
print("   Member(o2, ceo2) in graph:", in_graph, "| o2.members has ceo2:", any(x is ceo2 for x in o2.members))
print("   e2.member_of expected ['o2'], got", [x.name for x in e2.member_of])
if in_graph != any(x is ceo2 for x in o2.members):
    failures.append("graph and field o2.members disagree")
if not any(x is o2 for x in e2.member_of):
    failures.append("MemberOf(e2, o2) on the role taker missing")

print("OK" if not failures else "VIOLATION: " + "; ".join(failures))
sys.exit(0 if not failures else 1)
