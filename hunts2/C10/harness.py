"""Shared exploration harness (not a deliverable)."""
from __future__ import annotations
from dataclasses import dataclass, field
from typing import List, Optional
import itertools

import krrood
pass

from krrood.entity_query_language.entity import (
    and_, not_, contains, in_, entity, set_of, let, or_, exists, flatten, for_all, inference,
)
from krrood.entity_query_language.quantify_entity import an, a, the
from krrood.entity_query_language.predicate import HasType, symbolic_function, Predicate, Symbol
from krrood.entity_query_language.match import match, select, match_any, entity_matching, entity_selection

LOG: List[tuple] = []


def log(*event):
    LOG.append(event)


@dataclass(eq=False)
class Item:
    n: int
    tags: List[str] = field(default_factory=list)

    @property
    def value(self):
        log("attr", "value", self.n)
        return self.n

    def method(self, k=0):
        log("call", "method", self.n, k)
        return self.n + k

    def __bool__(self):
        log("bool", self.n)
        return True

    def __repr__(self):
        return f"Item({self.n})"


@dataclass(eq=False)
class Other:
    m: int

    @property
    def value(self):
        log("attr", "Other.value", self.m)
        return self.m

    def __repr__(self):
        return f"Other({self.m})"


def gen(name, items):
    """A one-shot generator domain that logs every element it hands out."""
    for it in items:
        log("domain", name, it)
        yield it


def consumed(name):
    return [e[2] for e in LOG if e[0] == "domain" and e[1] == name]
