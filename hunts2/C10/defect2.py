"""
C10 defect 2: let(T, collection) calls iter(collection) while the variable is constructed.

entity._get_domain_source_from_domain_and_type_values wraps the domain in the builtin filter(), and filter() takes
the iterator of its argument immediately. So the user's __iter__ runs at construction time, and the iteration of a
set / dict view "starts" when the query is written: filling the collection between writing and evaluating the query
makes the evaluation fail, while the same program with a list works.
"""
import sys
from dataclasses import dataclass

from krrood.entity_query_language.entity import let, entity
from krrood.entity_query_language.quantify_entity import an

LOG = []


@dataclass(eq=False)
class Body:
    name: str

    def __repr__(self):
        return self.name


class Table:
    """A re-iterable user collection whose __iter__ does the work (think: runs a database query)."""

    def __init__(self, rows):
        self.rows = rows

    def __iter__(self):
        LOG.append("Table.__iter__")
        return iter(self.rows)


failed = False

# 1. construction calls a method of the user's collection -------------------------------------------------------------
table = Table([Body("b1"), Body("b2")])
body = let(Body, table)
query = an(entity(body))
print("expected events while building : []")
print("got                            :", LOG)
if LOG:
    failed = True

# 2. observable consequence: the iterator exists since the query was written ------------------------------------------
for label, make in [
    ("list", lambda: []),
    ("set", lambda: set()),
    ("dict values", lambda: {}),
]:
    container = make()
    domain = container.values() if isinstance(container, dict) else container
    body = let(Body, domain)
    query = an(entity(body))
    # the world is filled after the query has been written, before it is evaluated for the first time
    b = Body("b1")
    if isinstance(container, list):
        container.append(b)
    elif isinstance(container, set):
        container.add(b)
    else:
        container["b1"] = b
    try:
        got = list(query.evaluate())
    except Exception as e:
        got = f"{type(e).__name__}: {e}"
        failed = True
    print(f"{label:12s} expected [b1]  got {got}")

sys.exit(1 if failed else 0)
