"""
C10 defect 3: a symbolic function / predicate is executed while the query is built when its symbolic argument is not
a "variable-like" node.

predicate.symbolic_function and Predicate.__new__ defer the call only if one of the arguments is an instance of
CanBehaveLikeAVariable (symbolic._any_of_the_kwargs_is_a_variable). A condition (x.value > 1, not_(...), and_(...),
exists(...)), a set_of(...), or a variable inside a list / tuple / dict argument is a symbolic expression too, but
the user's function is called immediately - with the expression object and with the user's data.
"""
import sys
from dataclasses import dataclass

from krrood.entity_query_language.entity import let, entity, not_
from krrood.entity_query_language.predicate import symbolic_function, Predicate
from krrood.entity_query_language.quantify_entity import an

LOG = []


@dataclass(eq=False)
class Robot:
    name: str
    battery: int

    @property
    def position(self):
        LOG.append(f"read {self.name}.position")
        return 0


@symbolic_function
def reachable(robot, condition):
    """An (expensive) user predicate: can `robot` reach a state in which `condition` holds?"""
    LOG.append(f"reachable() executed with {type(condition).__name__}")
    return robot.position == 0 and bool(condition)


@symbolic_function
def all_charged(robots):
    LOG.append(f"all_charged() executed with {[type(r).__name__ for r in robots]}")
    return all(r.battery > 10 for r in robots)


base = Robot("base", 100)
robots = [Robot("r1", 5), Robot("r2", 50)]

failed = False


def check(label, build):
    global failed
    LOG.clear()
    try:
        result = build()
        outcome = type(result).__name__
    except Exception as e:
        outcome = f"{type(e).__name__}: {e}"
    print(f"{label}")
    print(f"   expected: no user code runs, the call becomes a symbolic expression")
    print(f"   got     : events={LOG} result={outcome}")
    if LOG:
        failed = True


r = let(Robot, robots)
# control: with a plain variable the call is deferred
check("reachable(base, r)                      [control]", lambda: reachable(base, r))
LOG_control = list(LOG)
check("reachable(base, r.battery > 10)         [a condition as argument]", lambda: reachable(base, r.battery > 10))
check("reachable(base, not_(r.battery > 10))   [a negated condition]", lambda: reachable(base, not_(r.battery > 10)))
check("all_charged([r, base])                  [a variable inside a list]", lambda: all_charged([r, base]))

# the whole query: the predicate ran once at construction with the Comparator, its (constant) result is the condition
LOG.clear()
query = an(entity(r, reachable(base, r.battery > 10)))
built_events = list(LOG)
results = list(query.evaluate())
print("an(entity(r, reachable(base, r.battery > 10)))")
print("   expected: nothing runs while building; reachable() is evaluated per robot; result [r2]")
print(f"   got     : events while building={built_events}; result {[x.name for x in results]}")
if built_events or [x.name for x in results] != ["r2"]:
    failed = True

sys.exit(1 if failed else 0)
