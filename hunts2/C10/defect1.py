"""
C10 defect 1: let(T, <single object>) asks the object for its truth value (and for an attribute) while the
variable is constructed.

A single, non-iterable object is a supported domain (test_queries.py: let(type_=World, domain=world); the code
has a branch for it: `elif not is_iterable(domain): domain = [HashedValue(domain)]`).
The property says that constructing a variable never calls a method on / reads an attribute of user data.
"""
import sys
from dataclasses import dataclass, field
from typing import List

from krrood.entity_query_language.entity import let, entity
from krrood.entity_query_language.quantify_entity import an

LOG = []


@dataclass(eq=False)
class World:
    bodies: List[str] = field(default_factory=list)

    def __len__(self):  # the truth value of a World is "has bodies"
        LOG.append("World.__len__")
        return len(self.bodies)

    def __getattr__(self, name):  # only reached for names that do not exist
        LOG.append(f"World.__getattr__({name})")
        raise AttributeError(name)


failed = False

# 1. construction runs user code -------------------------------------------------------------------------------------
world = World(["b1", "b2"])
LOG.clear()
w = let(World, world)
query = an(entity(w))
print("expected events while building : []")
print("got                            :", LOG)
if LOG:
    failed = True

# 2. ... and the answer decides whether the variable has a domain at all ---------------------------------------------
empty_world = World([])
w = let(World, empty_world)
query = an(entity(w))
print("expected results for a world without bodies : [World(bodies=[])]")
try:
    results = list(query.evaluate())
    print("got                                         :", results)
    if results != [empty_world]:
        failed = True
except Exception as e:
    print("got                                         :", type(e).__name__, e)
    failed = True

sys.exit(1 if failed else 0)
