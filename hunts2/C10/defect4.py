"""
C10 defect 4: a one-shot iterable written directly into a query (flatten(generator), in_(x, generator)) is walked
again for every binding of the other variables and for every evaluation - unlike the domain of let(), which is
remembered item by item (HashedIterable). The first binding drains it, every later binding sees an empty iterable.

The result sequence therefore depends on how often the engine happens to revisit the expression, the results for a
generator are not the results for the same items in a list, and a second evaluate() of the same query is empty.
(flatten(generator) / in_(x, generator) are spellings the library cares about: building such a query was repaired
not to drain the generator.)
"""
import sys
from dataclasses import dataclass

from krrood.entity_query_language.entity import let, entity, set_of, flatten, in_
from krrood.entity_query_language.quantify_entity import an


@dataclass(eq=False)
class Item:
    n: int

    def __repr__(self):
        return f"Item({self.n})"


def one_shot(values):
    yield from values


failed = False
items = [Item(i) for i in range(3)]
tags = ["a", "b"]


def pairs(tag_domain):
    x = let(Item, one_shot(items))
    t = flatten(tag_domain)
    query = an(set_of([x, t]))
    return query, x, t


# 1. flatten(one-shot) next to another variable ------------------------------------------------------------------------
q_list, x, t = pairs(tags)
expected = [(r[x], r[t]) for r in q_list.evaluate()]
q_gen, x, t = pairs(one_shot(tags))
got = [(r[x], r[t]) for r in q_gen.evaluate()]
print("set_of([x, flatten(tags)])")
print("   expected (tags as list)      :", expected)
print("   got      (tags as generator) :", got)
if got != expected:
    failed = True

# 2. first k results, then a second evaluation of the same query ------------------------------------------------------
query = an(entity(flatten(one_shot(tags))))
it = query.evaluate()
first = next(it)
it.close()
again = list(query.evaluate())
print("an(entity(flatten(generator))): one result pulled, then evaluated again")
print("   expected second evaluation : ['a', 'b']  (as with let(str, generator))")
print("   got                        :", again)
if again != ["a", "b"]:
    failed = True

# control: the same through let() is fine
v = let(str, one_shot(tags))
query = an(entity(v))
it = query.evaluate()
next(it)
it.close()
print("   control let(str, generator):", list(query.evaluate()))

# 3. in_(x, one-shot) ----------------------------------------------------------------------------------------------------
def members(container):
    x = let(Item, one_shot(items))
    return an(entity(x, in_(x.n, container)))


expected = list(members([2, 1, 0]).evaluate())
got = list(members(one_shot([2, 1, 0])).evaluate())
print("entity(x, in_(x.n, container))")
print("   expected (container as list)      :", expected)
print("   got      (container as generator) :", got)
if got != expected:
    failed = True

sys.exit(1 if failed else 0)
