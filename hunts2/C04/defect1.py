"""
defect1: an Optional collection of mapped objects that is None ("None for optional fields").

to_dao iterates the value of every collection relationship without looking at None, so an object whose
Optional[List[X]] field is None cannot be converted at all.
"""
import importlib
import os
import sys
import tempfile
import textwrap
import uuid
from dataclasses import is_dataclass

import krrood

pass

from krrood.class_diagrams.class_diagram import ClassDiagram
from krrood.ormatic.dao import AlternativeMapping, to_dao
from krrood.ormatic.ormatic import ORMatic
from krrood.ormatic.utils import classes_of_module


def build(source, module_name=None, directory=None):
    """Write the model to a module of its own, generate the ORMatic interface for all its dataclasses and import both."""
    directory = directory or tempfile.mkdtemp(prefix="c04_")
    if directory not in sys.path:
        sys.path.insert(0, directory)
    tag = uuid.uuid4().hex[:8]
    module_name = module_name or f"model_{tag}"
    with open(os.path.join(directory, module_name + ".py"), "w") as f:
        f.write(textwrap.dedent(source))
    model = importlib.import_module(module_name)
    members = classes_of_module(model)
    classes = [c for c in members if is_dataclass(c) and not issubclass(c, AlternativeMapping)]
    mappings = [c for c in members if issubclass(c, AlternativeMapping)]
    ormatic = ORMatic(
        class_dependency_graph=ClassDiagram(sorted(classes, key=lambda c: c.__name__)),
        alternative_mappings=mappings,
    )
    ormatic.make_all_tables()
    with open(os.path.join(directory, f"interface_{tag}.py"), "w") as f:
        ormatic.to_sqlalchemy_file(f)
    return model, importlib.import_module(f"interface_{tag}")


failures = []


def expect(label, expected, got):
    verdict = "ok" if expected == got else "VIOLATION"
    print(f"{label}: expected {expected!r}, got {got!r}  [{verdict}]")
    if expected != got:
        failures.append(label)


def attempt(label, function):
    """Run function; an exception is a violation (the round trip has to work)."""
    try:
        return function()
    except Exception as e:
        print(f"{label}: expected a converted object, got {type(e).__name__}: {e}  [VIOLATION]")
        failures.append(label)
        return None

model, interface = build(
    '''
    from __future__ import annotations
    from dataclasses import dataclass
    from typing import List, Optional


    @dataclass(eq=False)
    class Leaf:
        value: int


    @dataclass(eq=False)
    class Branch:
        name: str
        leaves: Optional[List[Leaf]] = None
    '''
)

# the field works as long as it is a list
with_leaves = model.Branch("a", [model.Leaf(1)])
restored = to_dao(with_leaves).from_dao()
expect("Optional[List[Leaf]] holding a list", [1], [leaf.value for leaf in restored.leaves])

# None is what the annotation (and the default) says is legal
without_leaves = model.Branch("b")
restored = attempt("Optional[List[Leaf]] = None", lambda: to_dao(without_leaves).from_dao())
if restored is not None:
    expect("Optional[List[Leaf]] = None comes back as", None, restored.leaves)

sys.exit(1 if failures else 0)
