"""
defect4: a back reference into a Set whose elements are hashed by a field (the style of the repository's own
test/dataset/university_ontology_like_classes.py: Company.members: Set[Person], Person.works_for: Company,
__hash__ = hash(self.name)).

from_dao allocates an object (cls.__new__), memoises it and initialises it only after its references were converted.
When the conversion reaches a member before the collection that holds it (the member is the root, or it is listed
before its company somewhere), the company's set is built while the member is still uninitialised: hash(member)
reads a field that is not there yet.
"""
import importlib
import os
import sys
import tempfile
import textwrap
import uuid
from dataclasses import is_dataclass

import krrood

pass

from krrood.class_diagrams.class_diagram import ClassDiagram
from krrood.ormatic.dao import AlternativeMapping, to_dao
from krrood.ormatic.ormatic import ORMatic
from krrood.ormatic.utils import classes_of_module


def build(source, module_name=None, directory=None):
    """Write the model to a module of its own, generate the ORMatic interface for all its dataclasses and import both."""
    directory = directory or tempfile.mkdtemp(prefix="c04_")
    if directory not in sys.path:
        sys.path.insert(0, directory)
    tag = uuid.uuid4().hex[:8]
    module_name = module_name or f"model_{tag}"
    with open(os.path.join(directory, module_name + ".py"), "w") as f:
        f.write(textwrap.dedent(source))
    model = importlib.import_module(module_name)
    members = classes_of_module(model)
    classes = [c for c in members if is_dataclass(c) and not issubclass(c, AlternativeMapping)]
    mappings = [c for c in members if issubclass(c, AlternativeMapping)]
    ormatic = ORMatic(
        class_dependency_graph=ClassDiagram(sorted(classes, key=lambda c: c.__name__)),
        alternative_mappings=mappings,
    )
    ormatic.make_all_tables()
    with open(os.path.join(directory, f"interface_{tag}.py"), "w") as f:
        ormatic.to_sqlalchemy_file(f)
    return model, importlib.import_module(f"interface_{tag}")


failures = []


def expect(label, expected, got):
    verdict = "ok" if expected == got else "VIOLATION"
    print(f"{label}: expected {expected!r}, got {got!r}  [{verdict}]")
    if expected != got:
        failures.append(label)


def attempt(label, function):
    """Run function; an exception is a violation (the round trip has to work)."""
    try:
        return function()
    except Exception as e:
        print(f"{label}: expected a converted object, got {type(e).__name__}: {e}  [VIOLATION]")
        failures.append(label)
        return None

model, interface = build(
    '''
    from __future__ import annotations
    from dataclasses import dataclass, field
    from typing import List, Optional, Set


    @dataclass(eq=False)
    class Company:
        name: str
        members: Set[Person] = field(default_factory=set)

        def __hash__(self):
            return hash(self.name)


    @dataclass(eq=False)
    class Person:
        name: str
        works_for: Optional[Company] = None

        def __hash__(self):
            return hash(self.name)


    @dataclass(eq=False)
    class Registry:
        people: List[Person] = field(default_factory=list)
        companies: List[Company] = field(default_factory=list)
    '''
)


def example():
    company = model.Company("acme")
    alice, bob = model.Person("alice", company), model.Person("bob", company)
    company.members = {alice, bob}
    return company, alice, bob


def describe(company):
    return sorted(p.name for p in company.members), all(p.works_for is company for p in company.members)


company, alice, bob = example()
restored = attempt("root = the company", lambda: to_dao(company).from_dao())
if restored is not None:
    expect("root = the company", (["alice", "bob"], True), describe(restored))

company, alice, bob = example()
restored = attempt("root = a member", lambda: to_dao(alice).from_dao())
if restored is not None:
    expect("root = a member", (["alice", "bob"], True), describe(restored.works_for))
    expect("the member is in the set of its company", True, any(p is restored for p in restored.works_for.members))

company, alice, bob = example()
restored = attempt("a registry that lists people before companies",
                   lambda: to_dao(model.Registry([alice, bob], [company])).from_dao())
if restored is not None:
    expect("registry", (["alice", "bob"], True), describe(restored.companies[0]))

# the silent variant: the hashed field has a default, so the uninitialised object "has" it (the class attribute)
# and is filed in the set under the hash of the default
model2, interface2 = build(
    '''
    from __future__ import annotations
    from dataclasses import dataclass, field
    from typing import Optional, Set


    @dataclass(eq=False)
    class Team:
        title: str = ""
        players: Set[Player] = field(default_factory=set)


    @dataclass(eq=False)
    class Player:
        nick: str = ""
        team: Optional[Team] = None

        def __hash__(self):
            return hash(self.nick)
    '''
)
team = model2.Team("t")
player = model2.Player("zed", team)
team.players = {player}
expect("original: the player is found in the set of its team", True, player in team.players)
restored = attempt("root = a player whose hashed field has a default", lambda: to_dao(player).from_dao())
if restored is not None:
    expect("restored: the set holds the player", True, any(p is restored for p in restored.team.players))
    expect("restored: the player is found in the set of its team", True, restored in restored.team.players)

sys.exit(1 if failures else 0)
