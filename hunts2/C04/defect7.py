"""
defect7: the alternative mapping for functions that the library ships (krrood.ormatic.alternative_mappings.
FunctionMapping) brings a function that is defined in a NESTED class back as a different function.

create_instance keeps only the first component of __qualname__ as the class name ("Outer" for "Outer.Inner.run"),
create_from_dao then looks the function name up on that class: it silently returns Outer.run when there is one and
raises AttributeError otherwise.
"""
import importlib
import os
import sys
import tempfile
import textwrap
import uuid
from dataclasses import is_dataclass

import krrood

pass

from krrood.class_diagrams.class_diagram import ClassDiagram
from krrood.ormatic.dao import AlternativeMapping, to_dao
from krrood.ormatic.ormatic import ORMatic
from krrood.ormatic.utils import classes_of_module


def build(source, module_name=None, directory=None):
    """Write the model to a module of its own, generate the ORMatic interface for all its dataclasses and import both."""
    directory = directory or tempfile.mkdtemp(prefix="c04_")
    if directory not in sys.path:
        sys.path.insert(0, directory)
    tag = uuid.uuid4().hex[:8]
    module_name = module_name or f"model_{tag}"
    with open(os.path.join(directory, module_name + ".py"), "w") as f:
        f.write(textwrap.dedent(source))
    model = importlib.import_module(module_name)
    members = classes_of_module(model)
    classes = [c for c in members if is_dataclass(c) and not issubclass(c, AlternativeMapping)]
    mappings = [c for c in members if issubclass(c, AlternativeMapping)]
    ormatic = ORMatic(
        class_dependency_graph=ClassDiagram(sorted(classes, key=lambda c: c.__name__)),
        alternative_mappings=mappings,
    )
    ormatic.make_all_tables()
    with open(os.path.join(directory, f"interface_{tag}.py"), "w") as f:
        ormatic.to_sqlalchemy_file(f)
    return model, importlib.import_module(f"interface_{tag}")


failures = []


def expect(label, expected, got):
    verdict = "ok" if expected == got else "VIOLATION"
    print(f"{label}: expected {expected!r}, got {got!r}  [{verdict}]")
    if expected != got:
        failures.append(label)


def attempt(label, function):
    """Run function; an exception is a violation (the round trip has to work)."""
    try:
        return function()
    except Exception as e:
        print(f"{label}: expected a converted object, got {type(e).__name__}: {e}  [VIOLATION]")
        failures.append(label)
        return None

from types import FunctionType

from krrood.ormatic.alternative_mappings import FunctionMapping

directory = tempfile.mkdtemp(prefix="c04_")
sys.path.insert(0, directory)
with open(os.path.join(directory, "c04_functions.py"), "w") as f:
    f.write(textwrap.dedent('''
    from __future__ import annotations
    from dataclasses import dataclass
    from types import FunctionType
    from typing import Optional


    def plain():
        return "plain"


    class Robot:
        def run(self):
            return "Robot.run"

        class Arm:
            def run(self):
                return "Robot.Arm.run"

            def grasp(self):
                return "Robot.Arm.grasp"


    @dataclass(eq=False)
    class Task:
        action: FunctionType
        fallback: Optional[FunctionType] = None
    '''))
import c04_functions as model

ormatic = ORMatic(
    class_dependency_graph=ClassDiagram([model.Task, FunctionType]),
    alternative_mappings=[FunctionMapping],
)
ormatic.make_all_tables()
with open(os.path.join(directory, "c04_functions_interface.py"), "w") as f:
    ormatic.to_sqlalchemy_file(f)
import c04_functions_interface

restored = to_dao(model.Task(model.plain, model.Robot.run)).from_dao()
expect("module level function", "plain", restored.action.__qualname__)
expect("method of a class", "Robot.run", restored.fallback.__qualname__)

restored = attempt("method of a nested class", lambda: to_dao(model.Task(model.Robot.Arm.run)).from_dao())
if restored is not None:
    expect("method of a nested class", "Robot.Arm.run", restored.action.__qualname__)
    expect("... is the same function", True, restored.action is model.Robot.Arm.run)

restored = attempt("method of a nested class whose name the outer class does not have",
                   lambda: to_dao(model.Task(model.Robot.Arm.grasp)).from_dao())
if restored is not None:
    expect("method of a nested class (2)", "Robot.Arm.grasp", restored.action.__qualname__)

sys.exit(1 if failures else 0)
