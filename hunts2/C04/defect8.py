"""
defect8: the alternatively mapped type that the library itself ships (FunctionType through FunctionMapping) does not
pass through its mapping when it occurs in a COLLECTION ("alternatively-mapped objects nested in collections").

A single FunctionType field is a relationship to FunctionMappingDAO. For List[FunctionType] the field is classified by
WrappedField.is_collection_of_builtins, whose test is "the module of the element type is builtins" - true for
types.FunctionType - and which is asked BEFORE the one-to-many branch in WrappedTable.parse_field. The field becomes a
JSON column annotated Mapped[typing.List[builtins.function]]; the generated interface cannot even be imported
(and functions are not JSON serialisable anyway), so no round trip is possible.
"""
import importlib
import os
import sys
import tempfile
import textwrap
import uuid
from dataclasses import is_dataclass

import krrood

pass

from krrood.class_diagrams.class_diagram import ClassDiagram
from krrood.ormatic.dao import AlternativeMapping, to_dao
from krrood.ormatic.ormatic import ORMatic
from krrood.ormatic.utils import classes_of_module


def build(source, module_name=None, directory=None):
    """Write the model to a module of its own, generate the ORMatic interface for all its dataclasses and import both."""
    directory = directory or tempfile.mkdtemp(prefix="c04_")
    if directory not in sys.path:
        sys.path.insert(0, directory)
    tag = uuid.uuid4().hex[:8]
    module_name = module_name or f"model_{tag}"
    with open(os.path.join(directory, module_name + ".py"), "w") as f:
        f.write(textwrap.dedent(source))
    model = importlib.import_module(module_name)
    members = classes_of_module(model)
    classes = [c for c in members if is_dataclass(c) and not issubclass(c, AlternativeMapping)]
    mappings = [c for c in members if issubclass(c, AlternativeMapping)]
    ormatic = ORMatic(
        class_dependency_graph=ClassDiagram(sorted(classes, key=lambda c: c.__name__)),
        alternative_mappings=mappings,
    )
    ormatic.make_all_tables()
    with open(os.path.join(directory, f"interface_{tag}.py"), "w") as f:
        ormatic.to_sqlalchemy_file(f)
    return model, importlib.import_module(f"interface_{tag}")


failures = []


def expect(label, expected, got):
    verdict = "ok" if expected == got else "VIOLATION"
    print(f"{label}: expected {expected!r}, got {got!r}  [{verdict}]")
    if expected != got:
        failures.append(label)


def attempt(label, function):
    """Run function; an exception is a violation (the round trip has to work)."""
    try:
        return function()
    except Exception as e:
        print(f"{label}: expected a converted object, got {type(e).__name__}: {e}  [VIOLATION]")
        failures.append(label)
        return None

from types import FunctionType

from krrood.ormatic.alternative_mappings import FunctionMapping

directory = tempfile.mkdtemp(prefix="c04_")
sys.path.insert(0, directory)
with open(os.path.join(directory, "c04_pipeline.py"), "w") as f:
    f.write(textwrap.dedent('''
    from __future__ import annotations
    from dataclasses import dataclass, field
    from types import FunctionType
    from typing import List, Optional


    def first(x):
        return x


    def second(x):
        return x


    @dataclass(eq=False)
    class Pipeline:
        entry: Optional[FunctionType] = None
        steps: List[FunctionType] = field(default_factory=list)
    '''))
import c04_pipeline as model


def roundtrip():
    ormatic = ORMatic(
        class_dependency_graph=ClassDiagram([model.Pipeline, FunctionType]),
        alternative_mappings=[FunctionMapping],
    )
    ormatic.make_all_tables()
    with open(os.path.join(directory, "c04_pipeline_interface.py"), "w") as f:
        ormatic.to_sqlalchemy_file(f)
    import c04_pipeline_interface

    pipeline = model.Pipeline(model.first, [model.first, model.second, model.first])
    return to_dao(pipeline).from_dao()


restored = attempt("Pipeline(entry=first, steps=[first, second, first])", roundtrip)
if restored is not None:
    expect("entry", model.first, restored.entry)
    expect("steps", [model.first, model.second, model.first], restored.steps)

sys.exit(1 if failures else 0)
