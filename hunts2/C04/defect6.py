"""
defect6: a dataclass field with init=False that belongs to an alternatively mapped ancestor is lost (or comes back
as the mapped value) in instances of a normally mapped subclass.

Two repairs meet here. "from_dao takes inherited fields of an alternatively mapped ancestor through its mapping"
(_build_base_kwargs_for_alternative_parent) copies from the object the mapping rebuilds only what is a constructor
argument. "dataclass fields declared with init=False come back from the DAO"
(_assign_fields_that_are_not_constructor_arguments) reads only columns of the DAO that carry the name of the field -
which, below an alternative mapping, hold the MAPPED value or do not exist at all.
"""
import importlib
import os
import sys
import tempfile
import textwrap
import uuid
from dataclasses import is_dataclass

import krrood

pass

from krrood.class_diagrams.class_diagram import ClassDiagram
from krrood.ormatic.dao import AlternativeMapping, to_dao
from krrood.ormatic.ormatic import ORMatic
from krrood.ormatic.utils import classes_of_module


def build(source, module_name=None, directory=None):
    """Write the model to a module of its own, generate the ORMatic interface for all its dataclasses and import both."""
    directory = directory or tempfile.mkdtemp(prefix="c04_")
    if directory not in sys.path:
        sys.path.insert(0, directory)
    tag = uuid.uuid4().hex[:8]
    module_name = module_name or f"model_{tag}"
    with open(os.path.join(directory, module_name + ".py"), "w") as f:
        f.write(textwrap.dedent(source))
    model = importlib.import_module(module_name)
    members = classes_of_module(model)
    classes = [c for c in members if is_dataclass(c) and not issubclass(c, AlternativeMapping)]
    mappings = [c for c in members if issubclass(c, AlternativeMapping)]
    ormatic = ORMatic(
        class_dependency_graph=ClassDiagram(sorted(classes, key=lambda c: c.__name__)),
        alternative_mappings=mappings,
    )
    ormatic.make_all_tables()
    with open(os.path.join(directory, f"interface_{tag}.py"), "w") as f:
        ormatic.to_sqlalchemy_file(f)
    return model, importlib.import_module(f"interface_{tag}")


failures = []


def expect(label, expected, got):
    verdict = "ok" if expected == got else "VIOLATION"
    print(f"{label}: expected {expected!r}, got {got!r}  [{verdict}]")
    if expected != got:
        failures.append(label)


def attempt(label, function):
    """Run function; an exception is a violation (the round trip has to work)."""
    try:
        return function()
    except Exception as e:
        print(f"{label}: expected a converted object, got {type(e).__name__}: {e}  [VIOLATION]")
        failures.append(label)
        return None

model, interface = build(
    '''
    from __future__ import annotations
    from dataclasses import dataclass, field
    from krrood.ormatic.dao import AlternativeMapping


    @dataclass(eq=False)
    class Sensor:
        name: str = ""
        readings: int = field(default=0, init=False)   # a counter, no constructor argument
        offset: int = field(default=0, init=False)


    @dataclass(eq=False)
    class Camera(Sensor):
        resolution: int = 0


    @dataclass
    class SensorMapping(AlternativeMapping[Sensor]):
        name: str
        readings_in_thousands: int   # renamed by the mapping
        offset: int                  # keeps its name, stored negated

        @classmethod
        def create_instance(cls, obj):
            return cls(obj.name, obj.readings * 1000, -obj.offset)

        def create_from_dao(self):
            result = Sensor(self.name)
            result.readings = self.readings_in_thousands // 1000
            result.offset = -self.offset
            return result
    '''
)

sensor = model.Sensor("s")
sensor.readings, sensor.offset = 7, 3
restored = to_dao(sensor).from_dao()
expect("the alternatively mapped class itself", ("s", 7, 3), (restored.name, restored.readings, restored.offset))

camera = model.Camera("c", 1080)
camera.readings, camera.offset = 7, 3
restored = to_dao(camera).from_dao()
expect("class of the subclass instance", "Camera", type(restored).__name__)
expect("constructor arguments (inherited one goes through the mapping)", ("c", 1080), (restored.name, restored.resolution))
expect("inherited init=False field that the mapping renames", 7, restored.readings)
expect("inherited init=False field that the mapping stores transformed", 3, restored.offset)

sys.exit(1 if failures else 0)
