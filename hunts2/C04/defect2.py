"""
defect2: a collection of mapped objects that is declared Optional[Set[X]] / Optional[Tuple[X, X]] comes back as a list.

from_dao restores "the collection type that the class declares" (declared_collection), but looks only at the
outermost origin of the annotation: for Optional[Set[X]] that is Union, so the list of the DAO is handed out.
"""
import importlib
import os
import sys
import tempfile
import textwrap
import uuid
from dataclasses import is_dataclass

import krrood

pass

from krrood.class_diagrams.class_diagram import ClassDiagram
from krrood.ormatic.dao import AlternativeMapping, to_dao
from krrood.ormatic.ormatic import ORMatic
from krrood.ormatic.utils import classes_of_module


def build(source, module_name=None, directory=None):
    """Write the model to a module of its own, generate the ORMatic interface for all its dataclasses and import both."""
    directory = directory or tempfile.mkdtemp(prefix="c04_")
    if directory not in sys.path:
        sys.path.insert(0, directory)
    tag = uuid.uuid4().hex[:8]
    module_name = module_name or f"model_{tag}"
    with open(os.path.join(directory, module_name + ".py"), "w") as f:
        f.write(textwrap.dedent(source))
    model = importlib.import_module(module_name)
    members = classes_of_module(model)
    classes = [c for c in members if is_dataclass(c) and not issubclass(c, AlternativeMapping)]
    mappings = [c for c in members if issubclass(c, AlternativeMapping)]
    ormatic = ORMatic(
        class_dependency_graph=ClassDiagram(sorted(classes, key=lambda c: c.__name__)),
        alternative_mappings=mappings,
    )
    ormatic.make_all_tables()
    with open(os.path.join(directory, f"interface_{tag}.py"), "w") as f:
        ormatic.to_sqlalchemy_file(f)
    return model, importlib.import_module(f"interface_{tag}")


failures = []


def expect(label, expected, got):
    verdict = "ok" if expected == got else "VIOLATION"
    print(f"{label}: expected {expected!r}, got {got!r}  [{verdict}]")
    if expected != got:
        failures.append(label)


def attempt(label, function):
    """Run function; an exception is a violation (the round trip has to work)."""
    try:
        return function()
    except Exception as e:
        print(f"{label}: expected a converted object, got {type(e).__name__}: {e}  [VIOLATION]")
        failures.append(label)
        return None

model, interface = build(
    '''
    from __future__ import annotations
    from dataclasses import dataclass, field
    from typing import Optional, Set, Tuple


    @dataclass(eq=False)
    class Leaf:
        value: int


    @dataclass(eq=False)
    class Plain:
        leaves: Set[Leaf] = field(default_factory=set)
        pair: Tuple[Leaf, Leaf] = None


    @dataclass(eq=False)
    class Wrapped:
        leaves: Optional[Set[Leaf]] = None
        pair: Optional[Tuple[Leaf, Leaf]] = None
        modern: set[Leaf] | None = None
    '''
)

a, b = model.Leaf(1), model.Leaf(2)

restored = to_dao(model.Plain({a, b}, (a, b))).from_dao()
expect("Set[Leaf]", "set", type(restored.leaves).__name__)
expect("Tuple[Leaf, Leaf]", "tuple", type(restored.pair).__name__)

restored = to_dao(model.Wrapped({a, b}, (a, b), {a})).from_dao()
expect("Optional[Set[Leaf]]", "set", type(restored.leaves).__name__)
expect("Optional[Tuple[Leaf, Leaf]]", "tuple", type(restored.pair).__name__)
expect("set[Leaf] | None", "set", type(restored.modern).__name__)

sys.exit(1 if failures else 0)
