"""
defect3: a Set / Tuple field comes back as a list as soon as ANY annotation of the class needs an import that is
only made under TYPE_CHECKING (the way cyclic imports between model modules are written, see
test/dataset/cyclic_imports.py).

The class diagram resolves such names itself (WrappedField.resolved_type), so the model is accepted and the
interface is generated. dao._declared_collection_type calls typing.get_type_hints(clazz) instead, which raises
NameError for the whole class; the error is swallowed and "no declared collection type" is returned.
"""
import importlib
import os
import sys
import tempfile
import textwrap
import uuid
from dataclasses import is_dataclass

import krrood

pass

from krrood.class_diagrams.class_diagram import ClassDiagram
from krrood.ormatic.dao import AlternativeMapping, to_dao
from krrood.ormatic.ormatic import ORMatic
from krrood.ormatic.utils import classes_of_module


def build(source, module_name=None, directory=None):
    """Write the model to a module of its own, generate the ORMatic interface for all its dataclasses and import both."""
    directory = directory or tempfile.mkdtemp(prefix="c04_")
    if directory not in sys.path:
        sys.path.insert(0, directory)
    tag = uuid.uuid4().hex[:8]
    module_name = module_name or f"model_{tag}"
    with open(os.path.join(directory, module_name + ".py"), "w") as f:
        f.write(textwrap.dedent(source))
    model = importlib.import_module(module_name)
    members = classes_of_module(model)
    classes = [c for c in members if is_dataclass(c) and not issubclass(c, AlternativeMapping)]
    mappings = [c for c in members if issubclass(c, AlternativeMapping)]
    ormatic = ORMatic(
        class_dependency_graph=ClassDiagram(sorted(classes, key=lambda c: c.__name__)),
        alternative_mappings=mappings,
    )
    ormatic.make_all_tables()
    with open(os.path.join(directory, f"interface_{tag}.py"), "w") as f:
        ormatic.to_sqlalchemy_file(f)
    return model, importlib.import_module(f"interface_{tag}")


failures = []


def expect(label, expected, got):
    verdict = "ok" if expected == got else "VIOLATION"
    print(f"{label}: expected {expected!r}, got {got!r}  [{verdict}]")
    if expected != got:
        failures.append(label)


def attempt(label, function):
    """Run function; an exception is a violation (the round trip has to work)."""
    try:
        return function()
    except Exception as e:
        print(f"{label}: expected a converted object, got {type(e).__name__}: {e}  [VIOLATION]")
        failures.append(label)
        return None

directory = tempfile.mkdtemp(prefix="c04_")
sys.path.insert(0, directory)
with open(os.path.join(directory, "c04_people.py"), "w") as f:
    f.write(textwrap.dedent('''
    from __future__ import annotations
    from dataclasses import dataclass, field
    from typing import Optional, Set, Tuple, TYPE_CHECKING

    if TYPE_CHECKING:
        from c04_clubs import Club


    @dataclass(eq=False)
    class Pet:
        name: str


    @dataclass(eq=False)
    class Person:
        name: str
        pets: Set[Pet] = field(default_factory=set)
        favourites: Tuple[Pet, Pet] = ()
        club: Optional[Club] = None
    '''))
with open(os.path.join(directory, "c04_clubs.py"), "w") as f:
    f.write(textwrap.dedent('''
    from __future__ import annotations
    from dataclasses import dataclass, field
    from typing import Set
    from c04_people import Person


    @dataclass(eq=False)
    class Club:
        name: str
        members: Set[Person] = field(default_factory=set)
    '''))
import c04_people, c04_clubs

ormatic = ORMatic(class_dependency_graph=ClassDiagram([c04_clubs.Club, c04_people.Person, c04_people.Pet]))
ormatic.make_all_tables()
with open(os.path.join(directory, "c04_interface.py"), "w") as f:
    ormatic.to_sqlalchemy_file(f)
import c04_interface

cat, dog = c04_people.Pet("cat"), c04_people.Pet("dog")
person = c04_people.Person("p", {cat, dog}, (cat, dog))
club = c04_clubs.Club("c", {person})
person.club = club

restored = to_dao(club).from_dao()
expect("Club.members (module without TYPE_CHECKING import)", "set", type(restored.members).__name__)
restored_person = next(iter(restored.members))
expect("the back reference is the club", True, restored_person.club is restored)
expect("Person.pets: Set[Pet]", "set", type(restored_person.pets).__name__)
expect("Person.favourites: Tuple[Pet, Pet]", "tuple", type(restored_person.favourites).__name__)

lonely = to_dao(c04_people.Person("q")).from_dao()
expect("Person.pets of a person without club, empty", set(), lonely.pets)

sys.exit(1 if failures else 0)
