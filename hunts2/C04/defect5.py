"""
defect5: a frozen dataclass that is part of a reference cycle.

from_dao initialises the frozen object correctly through its __init__, but then "fixes" every reference that pointed
into the cycle with a plain setattr (FromDAOState.apply_circular_fixes), which a frozen dataclass refuses. The fields
that are no constructor arguments are assigned with object.__setattr__ ("also for frozen dataclasses"); the circular
fix-up was not given the same treatment.
"""
import importlib
import os
import sys
import tempfile
import textwrap
import uuid
from dataclasses import is_dataclass

import krrood

pass

from krrood.class_diagrams.class_diagram import ClassDiagram
from krrood.ormatic.dao import AlternativeMapping, to_dao
from krrood.ormatic.ormatic import ORMatic
from krrood.ormatic.utils import classes_of_module


def build(source, module_name=None, directory=None):
    """Write the model to a module of its own, generate the ORMatic interface for all its dataclasses and import both."""
    directory = directory or tempfile.mkdtemp(prefix="c04_")
    if directory not in sys.path:
        sys.path.insert(0, directory)
    tag = uuid.uuid4().hex[:8]
    module_name = module_name or f"model_{tag}"
    with open(os.path.join(directory, module_name + ".py"), "w") as f:
        f.write(textwrap.dedent(source))
    model = importlib.import_module(module_name)
    members = classes_of_module(model)
    classes = [c for c in members if is_dataclass(c) and not issubclass(c, AlternativeMapping)]
    mappings = [c for c in members if issubclass(c, AlternativeMapping)]
    ormatic = ORMatic(
        class_dependency_graph=ClassDiagram(sorted(classes, key=lambda c: c.__name__)),
        alternative_mappings=mappings,
    )
    ormatic.make_all_tables()
    with open(os.path.join(directory, f"interface_{tag}.py"), "w") as f:
        ormatic.to_sqlalchemy_file(f)
    return model, importlib.import_module(f"interface_{tag}")


failures = []


def expect(label, expected, got):
    verdict = "ok" if expected == got else "VIOLATION"
    print(f"{label}: expected {expected!r}, got {got!r}  [{verdict}]")
    if expected != got:
        failures.append(label)


def attempt(label, function):
    """Run function; an exception is a violation (the round trip has to work)."""
    try:
        return function()
    except Exception as e:
        print(f"{label}: expected a converted object, got {type(e).__name__}: {e}  [VIOLATION]")
        failures.append(label)
        return None

model, interface = build(
    '''
    from __future__ import annotations
    from dataclasses import dataclass, field
    from typing import List, Optional


    @dataclass(eq=False)
    class Bag:
        name: str
        things: List[Thing] = field(default_factory=list)


    @dataclass(frozen=True, eq=False)
    class Thing:
        name: str
        bag: Optional[Bag] = None
    '''
)

# no cycle: fine
restored = attempt("frozen object without cycle", lambda: to_dao(model.Thing("t", model.Bag("b"))).from_dao())
if restored is not None:
    expect("frozen object without cycle", ("t", "b"), (restored.name, restored.bag.name))

bag = model.Bag("b")
bag.things.append(model.Thing("t", bag))
restored = attempt("frozen object with a back reference, root = the bag", lambda: to_dao(bag).from_dao())
if restored is not None:
    expect("back reference", True, restored.things[0].bag is restored)

sys.exit(1 if failures else 0)
