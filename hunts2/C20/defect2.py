"""
C20 - defect 2: a domain-less variable that is only reachable through the SELECTED expression of a nested query is
never refreshed: it keeps the instances of its first evaluation alive, and it does not see instances created later.

`ResultQuantifier._refresh_domains_taken_from_the_symbol_graph_` collects the variables from
`_all_variable_instances_` (expanded by exactly one more level) and from the node descendants.  A query descriptor
lists its selected expressions as they are (`w.owner`, not `w`) and its selected expressions are not children of its
node, so below a second query descriptor an attribute / index / call over a variable is not resolved to the variable.
"""
import gc
import sys
import weakref
from dataclasses import dataclass
from typing import Optional

from krrood.entity_query_language.entity import let, entity, set_of
from krrood.entity_query_language.predicate import Symbol
from krrood.entity_query_language.quantify_entity import an


@dataclass(eq=False)
class Item(Symbol):
    name: str = ""
    owner: Optional["Item"] = None


every_item_ever = []


def live_items():
    """The Item instances that exist in the process (earlier histories of this script may have leaked some)."""
    gc.collect()
    return sum(1 for reference in every_item_ever if reference() is not None)


def history(build):
    """
    :return: the differences between the expected and the actual number of results (before and after a third item
     is created), and the number of instances of this history that survive dropping all references.
    """
    first = Item(f"first of {build.__name__}")
    second = Item("second", owner=first)
    references = [weakref.ref(first), weakref.ref(second)]
    every_item_ever.extend(references)
    query = build()
    missing_before = live_items() - len(list(query.evaluate()))
    third = Item("third", owner=second)
    references.append(weakref.ref(third))
    every_item_ever.append(references[-1])
    missing_after = live_items() - len(list(query.evaluate()))
    del first, second, third, query
    gc.collect()
    alive = sum(1 for reference in references if reference() is not None)
    return missing_before, missing_after, alive


def owners_directly():
    """control: the owners of all items, not nested"""
    w = let(Item, domain=None)
    return an(entity(w.owner))


def owners_as_nested_query():
    """the same query, selected by an enclosing query"""
    w = let(Item, domain=None)
    return an(entity(an(entity(w.owner))))


def pairs_with_nested_query():
    """pairs of the one item with a given name and the owner of any item"""
    v = let(Item, domain=None)
    w = let(Item, domain=None)
    return an(set_of([v, an(entity(w.owner))], v.name == "first of pairs_with_nested_query"))


failed = False
for build in (owners_directly, owners_as_nested_query, pairs_with_nested_query):
    before, after, alive = history(build)
    print(f"{build.__name__}:")
    print(f"   results missing (one result per existing item expected), first evaluation: expected 0, got {before}")
    print(f"   results missing after a third item was created, second evaluation: expected 0, got {after}")
    print(f"   instances alive after dropping all references: expected 0, got {alive}")
    failed = failed or (before, after, alive) != (0, 0, 0)
sys.exit(1 if failed else 0)
