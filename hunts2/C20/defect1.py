"""
C20 - defect 1: a rule tree with a conclusion selector (alternative / next_rule / refinement) keeps every instance it
concluded something for alive after the evaluation has finished.

The selectors remember in `ConclusionSelector.concluded_before` (SeenSets holding the HashedValues of the bindings)
for which bindings they concluded already.  This memory is only emptied at the START of the next evaluation of the
same query (`ResultQuantifier._reset_conclusion_deduplication_`), not when an evaluation ends.  The expression nodes
themselves are registered in process-wide tables, so the instances are never reclaimed unless that very query is
evaluated once more.
"""
import gc
import sys
import weakref
from dataclasses import dataclass

from krrood.entity_query_language.conclusion import Add
from krrood.entity_query_language.entity import let, entity, inference
from krrood.entity_query_language.predicate import Symbol
from krrood.entity_query_language.quantify_entity import an
from krrood.entity_query_language.rule import alternative, next_rule, refinement
from krrood.entity_query_language.symbol_graph import SymbolGraph


@dataclass(eq=False)
class Item(Symbol):
    size: int = 0


@dataclass(eq=False)
class View(Symbol):
    item: Item = None


@dataclass(eq=False)
class SmallView(View): ...


@dataclass(eq=False)
class BigView(View): ...


def history(branch):
    """Create instances, evaluate a rule over them (no explicit domain), drop every user reference."""
    items = [Item(size) for size in range(4)]
    references = [weakref.ref(item) for item in items]
    item = let(Item, domain=None)
    query = an(entity(views := inference(View)(), item.size >= 0))
    with query:
        Add(views, inference(SmallView)(item=item))
        if branch is not None:
            with branch(item.size > 1):
                Add(views, inference(BigView)(item=item))
    results = list(query.evaluate())
    assert results, "the rule concludes something"
    del results, items, item, query, views
    gc.collect()
    return sum(1 for reference in references if reference() is not None)


failed = False
for name, branch in [
    ("no branch", None),
    ("alternative", alternative),
    ("next_rule", next_rule),
    ("refinement", refinement),
]:
    alive = history(branch)
    print(f"rule with {name:12s}: expected 0 of 4 instances alive after dropping all references, got {alive}")
    failed = failed or alive != 0

# the dead bookkeeping is swept by the next evaluation of ANY query, the instances above are not: they are alive
list(an(entity(let(Item, domain=None))).evaluate())
in_graph = sum(1 for w in SymbolGraph().wrapped_instances if isinstance(w.instance, Item))
print(f"Item instances still in the symbol graph (and in every domain-less variable): expected 0, got {in_graph}")
failed = failed or in_graph != 0
sys.exit(1 if failed else 0)
