"""
C20 - defect 3 (minor): the symbol graph keeps one bookkeeping entry - and the class object itself - for every Symbol
class it has ever seen an instance of.

`SymbolGraph._class_to_wrapped_instances` is a defaultdict keyed by the class.  `remove_node` takes the wrapper of a
dead instance out of the list but never drops a key whose list became empty, so a program that creates Symbol classes
at run time (a factory function, `dataclasses.make_dataclass`, a class per loaded model, a test suite) grows this
table by one entry per class, and none of these classes can be reclaimed although no instance, no query and no user
reference is left.
"""
import gc
import sys
import weakref
from dataclasses import dataclass

from krrood.entity_query_language.entity import let, entity
from krrood.entity_query_language.predicate import Symbol
from krrood.entity_query_language.quantify_entity import an
from krrood.entity_query_language.symbol_graph import SymbolGraph


@dataclass(eq=False)
class Static(Symbol):
    value: int = 0


query = an(entity(let(Static, domain=None)))  # one query, built once; its evaluation sweeps the dead instances
class_references = []


def one_round():
    @dataclass(eq=False)
    class Temporary(Symbol):
        value: int = 0

    Temporary(1)  # created and dropped, never queried
    class_references.append(weakref.ref(Temporary))


def table_size():
    return len(SymbolGraph()._class_to_wrapped_instances)


one_round()
gc.collect()
list(query.evaluate())
size_after_first_round = table_size()
for _ in range(20):
    one_round()
    gc.collect()
    list(query.evaluate())
gc.collect()
growth = table_size() - size_after_first_round
classes_alive = sum(1 for reference in class_references if reference() is not None)
nodes = len(SymbolGraph().wrapped_instances)
print(f"instances left in the symbol graph: expected 0, got {nodes}")
print(f"growth of SymbolGraph._class_to_wrapped_instances over 20 more rounds: expected 0, got {growth}")
print(f"dropped classes still alive: expected 0 of 21, got {classes_alive}")
sys.exit(1 if growth or classes_alive or nodes else 0)
