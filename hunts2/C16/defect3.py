"""
C16 defect 3: symmetric_difference_update, and ^= on the container object itself (through an alias or a parameter), store
new elements in a managed set without recording them - no relation, no inference.  (x.field ^= {...} written on the
attribute is repaired by the setter that runs afterwards; |= through an alias was repaired, ^= was not.)
"""
from __future__ import annotations

import sys
from dataclasses import dataclass, field

from typing_extensions import Set

from krrood.entity_query_language.predicate import Symbol
from krrood.entity_query_language.symbol_graph import SymbolGraph
from krrood.ontomatic.property_descriptor.mixins import HasInverseProperty
from krrood.ontomatic.property_descriptor.property_descriptor import PropertyDescriptor


@dataclass(eq=False)
class P(Symbol):
    name: str
    friends: Set[P] = field(default_factory=set)
    friend_of: Set[P] = field(default_factory=set)

    def __repr__(self):
        return self.name


@dataclass
class Friends(PropertyDescriptor, HasInverseProperty):
    @classmethod
    def get_inverse(cls):
        return FriendOf


@dataclass
class FriendOf(PropertyDescriptor, HasInverseProperty):
    @classmethod
    def get_inverse(cls):
        return Friends


P.friends = Friends(P, "friends")
P.friend_of = FriendOf(P, "friend_of")
SymbolGraph().clear()
SymbolGraph()


def relations_of(x):
    graph = SymbolGraph()
    return [
        (r.wrapped_field.name, r.target.instance)
        for r in graph.get_outgoing_relations(graph.get_wrapped_instance(x))
    ]


def add_through_parameter(container, value):
    container ^= {value}


failures = []
for label, write in [
    ("x.friends |= {b} (reference)", lambda x, b: x.friends.__ior__({b})),
    ("alias ^= {b}", lambda x, b: add_through_parameter(x.friends, b)),
    ("x.friends.symmetric_difference_update({b})", lambda x, b: x.friends.symmetric_difference_update({b})),
]:
    x, b = P("x"), P("b")
    write(x, b)
    recorded = ("friends", b) in relations_of(x)
    print(f"{label:45} friends={set(x.friends)} relation recorded={recorded} b.friend_of={set(b.friend_of)}")
    if b in x.friends and not (recorded and x in b.friend_of):
        failures.append(label)

for f in failures:
    print("VIOLATION: element stored without relation / inverse:", f)
sys.exit(1 if failures else 0)
