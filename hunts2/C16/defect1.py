"""
C16 defect 1: what an assignment keeps of a managed field depends on whether an element was asserted before or after it
became derivable.

friends is a sub property of knows.  The two histories assert exactly the same facts
    x.friends.append(b) ; x.knows.append(b)        (A)
    x.knows.append(b)   ; x.friends.append(b)      (B)
and then both run  x.knows = [] .  b stays derivable (x.friends still holds b, the graph still holds x-knows-b), so the
repair "assigning a collection to a managed field keeps the inferred values" keeps b in (A) - but in (B) it drops it.

Second scenario (transitive property, d.ancestors == [f]):  x.ancestors = [f]; x.ancestors = [d]  leaves [d] - the
transitive consequence f of the element d is missing - while the same assignment on a fresh object gives [d, f].
"""
from __future__ import annotations

import sys
from dataclasses import dataclass, field

from typing_extensions import List

from krrood.entity_query_language.predicate import Symbol
from krrood.entity_query_language.symbol_graph import SymbolGraph
from krrood.ontomatic.property_descriptor.mixins import TransitiveProperty
from krrood.ontomatic.property_descriptor.property_descriptor import PropertyDescriptor


@dataclass(eq=False)
class P(Symbol):
    name: str
    knows: List[P] = field(default_factory=list)
    friends: List[P] = field(default_factory=list)
    ancestors: List[P] = field(default_factory=list)

    def __repr__(self):
        return self.name


@dataclass
class Knows(PropertyDescriptor): ...


@dataclass
class Friends(Knows): ...


@dataclass
class Ancestors(PropertyDescriptor, TransitiveProperty): ...


P.ancestors = Ancestors(P, "ancestors")
P.knows = Knows(P, "knows")
P.friends = Friends(P, "friends")
SymbolGraph().clear()
SymbolGraph()

b = P("b")

xa = P("xa")
xa.friends.append(b)
xa.knows.append(b)
xa.knows = []

xb = P("xb")
xb.knows.append(b)
xb.friends.append(b)
xb.knows = []

print("history A (inferred, then asserted): friends =", list(xa.friends), " knows =", list(xa.knows))
print("history B (asserted, then inferred): friends =", list(xb.friends), " knows =", list(xb.knows))
print("expected: the same contents of knows in both histories (b: it is still derivable from friends)")

ok = [v for v in xa.knows] == [v for v in xb.knows]
if not ok:
    print("VIOLATION: same facts, same assignment, different field contents; in B friends is no longer a subset of knows")

# the same with a transitive property: d.ancestors == [f]
d, f = P("d"), P("f")
d.ancestors.append(f)
fresh = P("fresh")
fresh.ancestors = [d]
used = P("used")
used.ancestors = [f]  # f asserted once ...
used.ancestors = [d]  # ... then replaced by d, from which f follows
print("fresh.ancestors = [d]                      ->", list(fresh.ancestors))
print("used.ancestors = [f]; used.ancestors = [d] ->", list(used.ancestors), " (expected [d, f]: d is an element, f follows)")
ok2 = any(v is f for v in used.ancestors)
if not ok2:
    print("VIOLATION: d became part of the field without the inference an individually appended d has (f missing)")
sys.exit(0 if ok and ok2 else 1)
