"""
C16 defect 7 (small): an extended slice with a negative step whose start lies before the first element selects nothing;
plain lists accept the assignment of an empty sequence to it (a no-op).  MonitoredList.__setitem__ normalises the slice
with slice.indices(), gets start == -1 (meaning "before the first element"), and hands slice(-1, None, step) to the list,
where -1 means "the last element": ValueError.
"""
from __future__ import annotations

import sys
from dataclasses import dataclass, field

from typing_extensions import List

from krrood.entity_query_language.predicate import Symbol
from krrood.entity_query_language.symbol_graph import SymbolGraph
from krrood.ontomatic.property_descriptor.property_descriptor import PropertyDescriptor


@dataclass(eq=False)
class P(Symbol):
    name: str
    knows: List[P] = field(default_factory=list)

    def __repr__(self):
        return self.name


@dataclass
class Knows(PropertyDescriptor): ...


P.knows = Knows(P, "knows")
SymbolGraph().clear()
SymbolGraph()

a, b, c, x = P("a"), P("b"), P("c"), P("x")
plain = [a, b, c]
plain[-10::-1] = []
print("plain list : l[-10::-1] = [] ->", plain)
x.knows = [a, b, c]
try:
    x.knows[-10::-1] = []
    print("managed    : x.knows[-10::-1] = [] ->", list(x.knows))
    sys.exit(0)
except ValueError as error:
    print("managed    : x.knows[-10::-1] = [] -> ValueError:", error)
    print("VIOLATION: a slice assignment that Python accepts is rejected")
    sys.exit(1)
