"""
C16 defect 2: item / slice assignment is the only write operation that throws a derived value away, and the next
assignment of the field to itself (or +=) silently brings it back.

friends is a sub property of knows.  x.friends.append(b) infers b into x.knows.
    x.knows[0] = c        -> [c]       (b is gone although x.friends still holds it)
    x.knows += []         -> [c, b]    (Python: still [c])
Also x.knows[:] = [c] and x.knows = [c], which are the same thing in Python, leave different contents.
"""
from __future__ import annotations

import sys
from dataclasses import dataclass, field

from typing_extensions import List

from krrood.entity_query_language.predicate import Symbol
from krrood.entity_query_language.symbol_graph import SymbolGraph
from krrood.ontomatic.property_descriptor.property_descriptor import PropertyDescriptor


@dataclass(eq=False)
class P(Symbol):
    name: str
    knows: List[P] = field(default_factory=list)
    friends: List[P] = field(default_factory=list)

    def __repr__(self):
        return self.name


@dataclass
class Knows(PropertyDescriptor): ...


@dataclass
class Friends(Knows): ...


P.knows = Knows(P, "knows")
P.friends = Friends(P, "friends")
SymbolGraph().clear()
SymbolGraph()

b, c = P("b"), P("c")
failures = []

x = P("x")
x.friends.append(b)
assert list(x.knows) == [b]
x.knows[0] = c
after_item_assignment = list(x.knows)
x.knows += []
after_iadd_nothing = list(x.knows)
print("x.knows[0] = c  ->", after_item_assignment)
print("x.knows += []   ->", after_iadd_nothing, "  (expected: unchanged)")
if after_item_assignment != after_iadd_nothing:
    failures.append("+= [] changed the contents of the field")

y, z = P("y"), P("z")
y.friends.append(b)
z.friends.append(b)
y.knows[:] = [c]
z.knows = [c]
print("y.knows[:] = [c] ->", list(y.knows), "   z.knows = [c] ->", list(z.knows), "  (expected: equal)")
if list(y.knows) != list(z.knows):
    failures.append("slice assignment of the whole list and assignment of the field differ")

for f in failures:
    print("VIOLATION:", f)
sys.exit(1 if failures else 0)
