"""
C16 defect 6: a collection written through the constructor does not infer like the same collection appended
afterwards, when the inference goes to a single valued super property that is declared after the collection.

heads (List) is a sub property of affiliated_with (single valued, declared later, default None).
    p1 = Pn("p1"); p1.heads.append(c)   -> p1.affiliated_with is c
    p2 = Pn("p2", heads=[c])            -> p2.affiliated_with is None, while the graph holds p2-affiliated_with-c
The repair for "sub property asserted through the constructor before the super property field exists" made the
constructor's own assignment keep inferred values for collections only; the default None overwrites a single value.
"""
from __future__ import annotations

import sys
from dataclasses import dataclass, field

from typing_extensions import List, Optional

from krrood.entity_query_language.predicate import Symbol
from krrood.entity_query_language.symbol_graph import SymbolGraph
from krrood.ontomatic.property_descriptor.property_descriptor import PropertyDescriptor


@dataclass(eq=False)
class C(Symbol):
    name: str

    def __repr__(self):
        return self.name


@dataclass(eq=False)
class Pn(Symbol):
    name: str
    heads: List[C] = field(default_factory=list)
    affiliated_with: Optional[C] = None

    def __repr__(self):
        return self.name


@dataclass
class AffiliatedWith(PropertyDescriptor): ...


@dataclass
class Heads(AffiliatedWith): ...


Pn.heads = Heads(Pn, "heads")
Pn.affiliated_with = AffiliatedWith(Pn, "affiliated_with")
SymbolGraph().clear()
SymbolGraph()

c = C("c")
p1 = Pn("p1")
p1.heads.append(c)
p2 = Pn("p2", heads=[c])
graph = SymbolGraph()
in_graph = [
    (r.wrapped_field.name, r.target.instance, r.inferred)
    for r in graph.get_outgoing_relations(graph.get_wrapped_instance(p2))
]
print("appended individually : affiliated_with =", p1.affiliated_with)
print("through constructor   : affiliated_with =", p2.affiliated_with, "  relations of p2:", in_graph)
ok = p2.affiliated_with is p1.affiliated_with
if not ok:
    print("VIOLATION: the same element infers c when appended, nothing (in the field) when given to the constructor")
sys.exit(0 if ok else 1)
