"""
C16 defect 5: a managed collection field annotated Optional[List[...]] with default None.

 - P("a") raises UnMonitoredContainerTypeForDescriptor ('NoneType'): the declared default cannot be assigned;
 - when an earlier constructor argument infers a value into the field (best is a sub property of friends), the container
   exists already when the constructor assigns the default, and None is STORED AS AN ELEMENT: friends == [None, a];
 - x.friends = None later does the same.
Python semantics: the field is None, or (with the library's reading of "keep what was inferred") [a]; never [None, a].
"""
from __future__ import annotations

import sys
from dataclasses import dataclass, field

from typing_extensions import List, Optional

from krrood.entity_query_language.predicate import Symbol
from krrood.entity_query_language.symbol_graph import SymbolGraph
from krrood.ontomatic.property_descriptor.property_descriptor import PropertyDescriptor


@dataclass(eq=False)
class P(Symbol):
    name: str
    best: List[P] = field(default_factory=list)
    friends: Optional[List[P]] = None

    def __repr__(self):
        return self.name


@dataclass
class Friends(PropertyDescriptor): ...


@dataclass
class Best(Friends): ...


P.best = Best(P, "best")
P.friends = Friends(P, "friends")
SymbolGraph().clear()
SymbolGraph()

failures = []
try:
    P("lonely")
    print("P('lonely') constructed")
except Exception as error:
    print("P('lonely') ->", type(error).__name__, error)
    failures.append("the declared default None cannot be assigned")

a = P("a", friends=[])
b = P("b", best=[a])
print("P('b', best=[a]).friends =", list(b.friends), "  (expected [a] or None)")
if any(v is None for v in b.friends):
    failures.append("None stored as an element of the managed list")

for f in failures:
    print("VIOLATION:", f)
sys.exit(1 if failures else 0)
