"""
C16 defect 4: a write that the container rejects is recorded all the same (neighbour of the repair "an item assignment
that the list rejects is not recorded", which only pre-checks IndexError and the extended-slice ValueError).

 a) MonitoredSet.add / update / |= of an element that is not hashable - and every plain @dataclass Symbol is unhashable -
    raises TypeError AFTER the relation and its inferences were recorded: the inverse field of the element holds the
    owner, the owner's field does not hold the element.
 b) MonitoredList.__setitem__ / insert with an index the list rejects with TypeError (a float) do the same.
"""
from __future__ import annotations

import sys
from dataclasses import dataclass, field

from typing_extensions import Set, List

from krrood.entity_query_language.predicate import Symbol
from krrood.entity_query_language.symbol_graph import SymbolGraph
from krrood.ontomatic.property_descriptor.mixins import HasInverseProperty
from krrood.ontomatic.property_descriptor.property_descriptor import PropertyDescriptor


@dataclass  # eq=True and no __hash__: instances are not hashable
class Person(Symbol):
    name: str
    member_of: List[Company] = field(default_factory=list)
    boards: List[Company] = field(default_factory=list)


@dataclass(eq=False)
class Company(Symbol):
    name: str
    members: Set[Person] = field(default_factory=set)
    directors: List[Person] = field(default_factory=list)

    def __repr__(self):
        return self.name


@dataclass
class Member(PropertyDescriptor, HasInverseProperty):
    @classmethod
    def get_inverse(cls):
        return MemberOf


@dataclass
class MemberOf(PropertyDescriptor, HasInverseProperty):
    @classmethod
    def get_inverse(cls):
        return Member


@dataclass
class Directors(PropertyDescriptor, HasInverseProperty):
    @classmethod
    def get_inverse(cls):
        return Boards


@dataclass
class Boards(PropertyDescriptor, HasInverseProperty):
    @classmethod
    def get_inverse(cls):
        return Directors


Person.member_of = MemberOf(Person, "member_of")
Person.boards = Boards(Person, "boards")
Company.members = Member(Company, "members")
Company.directors = Directors(Company, "directors")
SymbolGraph().clear()
SymbolGraph()

failures = []


def relation_count():
    return len(list(SymbolGraph().relations()))


# a) set
company, person = Company("c"), Person("p")
before = relation_count()
try:
    company.members.add(person)
    print("a) no error")
except TypeError as error:
    print("a) company.members.add(person) ->", type(error).__name__, error)
print("   company.members =", set(company.members), " person.member_of =", list(person.member_of),
      " new relations =", relation_count() - before)
if person.member_of and not company.members:
    failures.append("set.add of an unhashable element: rejected, but relation and inverse recorded")

# b) list, index of a wrong type
company2, p1, p2 = Company("c2"), Person("p1"), Person("p2")
company2.directors.append(p1)
before = relation_count()
for text in ("company2.directors[0.0] = p2", "company2.directors.insert(0.0, p2)"):
    try:
        exec(text)
    except TypeError as error:
        print("b)", text, "->", type(error).__name__, error)
print("   company2.directors =", [p.name for p in company2.directors], " p2.boards =", list(p2.boards),
      " new relations =", relation_count() - before)
if p2.boards and not any(p is p2 for p in company2.directors):
    failures.append("list item assignment / insert rejected with TypeError, but relation and inverse recorded")

for f in failures:
    print("VIOLATION:", f)
sys.exit(1 if failures else 0)
