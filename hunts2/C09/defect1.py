"""
C09 defect 1: a nested an(..., quantification=c) whose solution count SATISFIES c raises
LessThanExpectedNumberOfSolutions when the outer query also contains a for_all.

The inner query has exactly two solutions (b1, b2) and is constrained with Exactly(2) / AtLeast(2) /
Range(AtLeast(2), AtMost(2)).  Used as the selected variable of an outer query whose condition is a for_all that
holds for every solution (the idiom of test_aggregations.py::test_for_all, with `an` instead of `the`), the outer
evaluation must yield b1 and b2.  Instead it raises "Found 1 solutions which is less than the expected 2".
"""
import sys
from dataclasses import dataclass

from krrood.entity_query_language.entity import entity, let, for_all, and_
from krrood.entity_query_language.predicate import Symbol
from krrood.entity_query_language.quantify_entity import an
from krrood.entity_query_language.result_quantification_constraint import (
    Exactly,
    AtLeast,
    AtMost,
    Range,
)


@dataclass(eq=False)
class Body(Symbol):
    name: str
    flag: int
    weight: int


@dataclass(eq=False)
class Limit(Symbol):
    value: int


bodies = [Body("b1", 1, 1), Body("b2", 1, 2), Body("b3", 0, 3)]
limits = [Limit(10), Limit(20)]  # every body weight is below every limit

failures = 0


def check(label, build, expected_names):
    global failures
    try:
        got = sorted(b.name for b in build().evaluate())
        outcome = f"returned {got}"
        ok = got == expected_names
    except Exception as e:  # noqa
        outcome = f"raised {type(e).__name__}: {e}"
        ok = False
    print(f"{label}\n    expected: returned {expected_names}\n    got:      {outcome}")
    if not ok:
        failures += 1


def inner_query(constraint):
    c = let(Body, bodies)
    return an(entity(c, c.flag == 1), quantification=constraint)


# sanity: on its own the inner query satisfies its constraint
check("inner query alone, Exactly(2)", lambda: inner_query(Exactly(2)), ["b1", "b2"])

for make_constraint in (
    lambda: Exactly(2),
    lambda: AtLeast(2),
    lambda: Range(AtLeast(2), AtMost(2)),
):

    def outer_for_all():
        inner = inner_query(make_constraint())
        limit = let(Limit, limits)
        return an(entity(inner, for_all(limit, inner.weight <= limit.value)))

    check(
        f"selected nested an({make_constraint()!r}) + for_all",
        outer_for_all,
        ["b1", "b2"],
    )


# the nested query need not be selected: using it again after the for_all is enough
def outer_reuse():
    inner = inner_query(Exactly(2))
    limit = let(Limit, limits)
    other = let(Body, bodies)
    return an(
        entity(
            other,
            and_(
                for_all(limit, inner.weight <= limit.value),
                inner.weight == other.weight,
            ),
        )
    )


check("nested an(Exactly(2)) used in for_all and again after it", outer_reuse, ["b1", "b2"])

print("violations:", failures)
sys.exit(1 if failures else 0)
