"""
C09 defect 3: the() / an(..., quantification=c) cannot be applied to a pattern (match object) a second time, and not
at all to a pattern over a given variable: InvalidEntityType instead of the solution / the count error.

  pattern = entity_matching(Body, bodies)(flag=0)        # exactly one solution
  list(an(pattern, quantification=AtLeast(1)).evaluate())  # fine
  the(pattern).evaluate()                                  # InvalidEntityType, expected the one Body

_quantify_entity() only turns a Match into its expression while `match.variable` is unset; resolving the pattern for
the first quantifier sets it.
"""
import sys
from dataclasses import dataclass

from krrood.entity_query_language.entity import let
from krrood.entity_query_language.failures import MultipleSolutionFound
from krrood.entity_query_language.match import entity_matching, match
from krrood.entity_query_language.predicate import Symbol
from krrood.entity_query_language.quantify_entity import an, the
from krrood.entity_query_language.result_quantification_constraint import AtLeast


@dataclass(eq=False)
class Body(Symbol):
    name: str
    flag: int


bodies = [Body("b1", 1), Body("b2", 1), Body("b3", 0)]
failures = 0


def check(label, thunk, expected):
    global failures
    try:
        got = thunk()
        outcome = f"returned {got}"
    except Exception as e:  # noqa
        got = type(e)
        outcome = f"raised {type(e).__name__}: {str(e)[:90]}"
    ok = got == expected
    print(f"{label}\n    expected: {expected}\n    got:      {outcome}")
    if not ok:
        failures += 1


pattern = entity_matching(Body, bodies)(flag=0)
check(
    "first quantifier over the pattern: an(pattern, AtLeast(1))",
    lambda: [b.name for b in an(pattern, quantification=AtLeast(1)).evaluate()],
    ["b3"],
)
check(
    "second quantifier over the same pattern: the(pattern)",
    lambda: the(pattern).evaluate().name,
    "b3",
)

ambiguous = entity_matching(Body, bodies)(flag=1)
check(
    "first: an(ambiguous)",
    lambda: [b.name for b in an(ambiguous).evaluate()],
    ["b1", "b2"],
)
check(
    "second: the(ambiguous) has two solutions",
    lambda: the(ambiguous).evaluate(),
    MultipleSolutionFound,
)

body = let(Body, bodies)
check(
    "the(match(variable)(flag=0))",
    lambda: the(match(body)(flag=0)).evaluate().name,
    "b3",
)

print("violations:", failures)
sys.exit(1 if failures else 0)
