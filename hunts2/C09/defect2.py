"""
C09 defect 2: a quantifier nested in the argument of a conclusion (Add / Set) never enforces its count.

the(entity(w)) over a domain with TWO solutions, written as an argument of an inferred instance inside
`with query: Add(...)`, does not raise MultipleSolutionFound: the first solution is taken silently.
Likewise an(..., quantification=AtMost(1)) over two solutions and an(..., quantification=AtLeast(3)) over two
solutions pass silently.  (With zero solutions the() does raise NoSolutionFound, and the same the() used in a
condition of the query raises MultipleSolutionFound.)
"""
import sys
from dataclasses import dataclass

from krrood.entity_query_language.conclusion import Add
from krrood.entity_query_language.entity import entity, let, inference
from krrood.entity_query_language.failures import (
    MultipleSolutionFound,
    GreaterThanExpectedNumberOfSolutions,
    LessThanExpectedNumberOfSolutions,
)
from krrood.entity_query_language.predicate import Symbol
from krrood.entity_query_language.quantify_entity import an, the
from krrood.entity_query_language.result_quantification_constraint import (
    AtMost,
    AtLeast,
)


@dataclass(eq=False)
class World(Symbol):
    number: int


@dataclass(eq=False)
class Body(Symbol):
    name: str


@dataclass(eq=False)
class View(Symbol):
    body: Body
    world: World


worlds = [World(1), World(2)]
bodies = [Body("b1")]

failures = 0


def rule_with(nested_quantifier):
    body = let(Body, bodies)
    view = inference(View)()
    query = an(entity(view, body.name == "b1"))
    with query:
        Add(view, inference(View)(body=body, world=nested_quantifier))
    return query


def check(label, nested_quantifier, expected_error):
    global failures
    try:
        got = list(rule_with(nested_quantifier).evaluate())
        outcome = f"returned {got}"
        ok = False
    except expected_error as e:
        outcome = f"raised {type(e).__name__}"
        ok = True
    except Exception as e:  # noqa
        outcome = f"raised {type(e).__name__}: {e}"
        ok = False
    print(f"{label}\n    expected: raises {expected_error.__name__}\n    got:      {outcome}")
    if not ok:
        failures += 1


# sanity: on its own the nested query is ambiguous
try:
    the(entity(let(World, worlds))).evaluate()
    print("sanity FAILED: the() over two worlds returned")
except MultipleSolutionFound:
    print("sanity: the(entity(let(World, worlds))).evaluate() raises MultipleSolutionFound")

check(
    "the() over two solutions as argument of an Add conclusion",
    the(entity(let(World, worlds))),
    MultipleSolutionFound,
)
check(
    "an(..., AtMost(1)) over two solutions as argument of an Add conclusion",
    an(entity(let(World, worlds)), quantification=AtMost(1)),
    GreaterThanExpectedNumberOfSolutions,
)
check(
    "an(..., AtLeast(3)) over two solutions as argument of an Add conclusion",
    an(entity(let(World, worlds)), quantification=AtLeast(3)),
    LessThanExpectedNumberOfSolutions,
)

print("violations:", failures)
sys.exit(1 if failures else 0)
