"""Object-graph round trips for one generated ORM model (runs inside vlib.orm_driver's process).

run(m, iface, seed, n, opts) -> {"cases": n, "c04": {...}, "c05": {...}, "failures": [...]}
opts: {"spec": model spec (vlib.modelgen format), "mode": "c04" | "c05" | "both"}
"""
from __future__ import annotations

import dataclasses
import datetime
import enum
import math
import random
from collections import Counter


# --------------------------------------------------------------------------- graph generation
def all_fields(spec, cname):
    by = {c["name"]: c for c in spec["classes"]}
    chain, cur = [], by[cname]
    while cur:
        chain.append(cur)
        cur = by[cur["parent"]] if cur["parent"] else None
    out = []
    for c in reversed(chain):
        out.extend(c["fields"])
    return out


def scalar_value(rng, kind, m, c05):
    if kind in ("int", "opt_int"):
        return rng.choice([0, 1, -1, 7, 2 ** 31 - 1, -2 ** 40]) if rng.random() < 0.5 else rng.randint(-1000, 1000)
    if kind in ("str", "opt_str"):
        return rng.choice(["", "a", "bb", "ü", "quote'\"", "x" * 40, "日本", " "])
    if kind in ("float", "opt_float"):
        vals = [0.0, -0.0, 1.5, -2.25, 1e300, 5e-324, 0.1]
        if not c05:
            vals += [float("inf"), float("-inf"), float("nan")]
        return rng.choice(vals)
    if kind == "bool":
        return rng.random() < 0.5
    if kind in ("enum", "opt_enum"):
        return rng.choice(list(m.Color))
    if kind == "datetime":
        return datetime.datetime(rng.randint(1990, 2030), rng.randint(1, 12), rng.randint(1, 28), rng.randint(0, 23),
                                 rng.randint(0, 59), rng.randint(0, 59), rng.randint(0, 999999))
    if kind == "list_str":
        return [rng.choice(["", "a", "ü", "b c"]) for _ in range(rng.choice([0, 0, 1, 2, 3]))]
    if kind == "opt_money":
        return m.Money(rng.randint(-500, 500))
    if kind == "list_int":
        return [rng.randint(-5, 5) for _ in range(rng.choice([0, 0, 1, 2, 3]))]
    if kind == "set_str":
        return {rng.choice(["", "a", "ü", "b c"]) for _ in range(rng.choice([0, 0, 1, 2, 3]))}
    if kind == "set_int":
        return {rng.randint(-5, 5) for _ in range(rng.choice([0, 0, 1, 2, 3]))}
    raise ValueError(kind)


def gen_graph(rng, m, spec, c05):
    names = [c["name"] for c in spec["classes"] if not c.get("unmapped")]
    n = rng.choice([1, 2, 3, 4, 6, 8, 12, 18, 25])
    objs = []
    for i in range(n):
        cls = getattr(m, rng.choice(names))
        o = cls()
        if hasattr(o, "uid"):
            object.__setattr__(o, "uid", i + 1)      # also for frozen dataclasses
        objs.append(o)
    for o in objs:
        for f in all_fields(spec, type(o).__name__):
            k, t = f["kind"], f["target"]
            if f["name"] == "uid":
                continue
            if k == "private":
                object.__setattr__(o, f["name"], rng.randint(0, 9))
            elif k in ("ref", "opt_ref", "self_opt"):
                cands = [x for x in objs if isinstance(x, getattr(m, t))]
                if cands and (k == "ref" or rng.random() < 0.7):
                    # prefer a small pool so that objects are shared; sometimes the object itself
                    object.__setattr__(o, f["name"], rng.choice(cands[:3] if rng.random() < 0.5 else cands))
                else:
                    object.__setattr__(o, f["name"], None)
            elif k in ("list_ref", "self_list"):
                cands = [x for x in objs if isinstance(x, getattr(m, t))]
                object.__setattr__(o, f["name"], [rng.choice(cands) for _ in range(rng.choice([0, 0, 1, 2, 3]))] if cands else [])
            elif k == "set_ref":
                cands = [x for x in objs if isinstance(x, getattr(m, t))]
                object.__setattr__(o, f["name"], set(rng.choice(cands) for _ in range(rng.choice([0, 1, 2, 3]))) if cands else set())
            elif k == "type":
                T = getattr(m, t)
                subs = [getattr(m, nn) for nn in names if issubclass(getattr(m, nn), T)]
                object.__setattr__(o, f["name"], rng.choice(subs))
            elif k.startswith("opt_") and rng.random() < 0.4:
                object.__setattr__(o, f["name"], None)
            else:
                object.__setattr__(o, f["name"], scalar_value(rng, k, m, c05))
    return objs


def reachable(root, spec):
    seen, stack = {}, [root]
    while stack:
        o = stack.pop()
        if id(o) in seen:
            continue
        seen[id(o)] = o
        for f in all_fields(spec, type(o).__name__):
            if f["kind"] in ("ref", "opt_ref", "self_opt"):
                v = getattr(o, f["name"])
                if v is not None:
                    stack.append(v)
            elif f["kind"] in ("list_ref", "set_ref", "self_list"):
                stack.extend(getattr(o, f["name"]))
    return seen


# --------------------------------------------------------------------------- isomorphism
SIGNED_ZERO = {"strict": True}


def same_scalar(a, b):
    if type(a) is not type(b):
        return False
    if isinstance(a, float):
        if math.isnan(a):
            return math.isnan(b)
        return a == b and (not SIGNED_ZERO["strict"] or math.copysign(1, a) == math.copysign(1, b))
    if isinstance(a, list):
        return len(a) == len(b) and all(same_scalar(x, y) for x, y in zip(a, b))
    return a == b


def bisimulate(a0, b0, spec, ordered, problems, fwd=None, rev=None, stats=None):
    """simultaneous traversal building a bijection between object identities"""
    fwd = {} if fwd is None else fwd
    rev = {} if rev is None else rev
    stack = [(a0, b0, "root")]
    while stack:
        a, b, path = stack.pop()
        if id(a) in fwd:
            if fwd[id(a)] is not b:
                problems.append(f"{path}: an object referenced from several places became two objects (aliasing lost)")
            continue
        if id(b) in rev:
            problems.append(f"{path}: two distinct objects became one object after the round trip")
            continue
        fwd[id(a)] = b
        rev[id(b)] = a
        if type(a) is not type(b):
            problems.append(f"{path}: class {type(a).__name__} -> {type(b).__name__}")
            continue
        if stats is not None:
            stats["objects"] += 1
        for f in all_fields(spec, type(a).__name__):
            k, name = f["kind"], f["name"]
            if k == "private":
                continue
            try:
                va, vb = getattr(a, name), getattr(b, name)
            except AttributeError as e:
                problems.append(f"{path}.{name}: {e}")
                continue
            p2 = f"{path}.{name}"
            if k in ("ref", "opt_ref", "self_opt"):
                if va is None or vb is None:
                    if va is not vb:
                        problems.append(f"{p2}: {type(va).__name__} -> {type(vb).__name__}")
                else:
                    stack.append((va, vb, p2))
            elif k in ("list_ref", "self_list", "set_ref"):
                if vb is None or not isinstance(vb, (list, set)):
                    problems.append(f"{p2}: collection -> {type(vb).__name__}")
                    continue
                if type(vb) is not type(va):
                    # equal field values: a set stays a set, a list a list (and never the DAO's instrumented list)
                    problems.append(f"{p2}: collection type {type(va).__name__} -> {type(vb).__name__}")
                if ordered and k != "set_ref":
                    if len(va) != len(vb):
                        problems.append(f"{p2}: list of {len(va)} -> list of {len(vb)}")
                        continue
                    for i, (x, y) in enumerate(zip(va, vb)):
                        stack.append((x, y, f"{p2}[{i}]"))
                else:
                    ua, ub = {x.uid: x for x in va}, {y.uid: y for y in vb}
                    if set(ua) != set(ub):
                        problems.append(f"{p2}: elements {sorted(ua)} -> {sorted(ub)} (by uid)")
                        continue
                    if len(vb) != len(ub) and k == "set_ref":
                        problems.append(f"{p2}: duplicate elements in a restored set")
                    for u in ua:
                        stack.append((ua[u], ub[u], f"{p2}{{{u}}}"))
            elif k == "type":
                if va is not vb:
                    problems.append(f"{p2}: {va!r} -> {vb!r}")
            else:
                if not same_scalar(va, vb):
                    problems.append(f"{p2}: {va!r} ({type(va).__name__}) -> {vb!r} ({type(vb).__name__})")
    return fwd


# --------------------------------------------------------------------------- drivers
def features(objs, root, spec):
    seen = reachable(root, spec)
    indeg = Counter()
    hier_ref = False
    for o in seen.values():
        for f in all_fields(spec, type(o).__name__):
            if f["kind"] in ("ref", "opt_ref", "self_opt"):
                v = getattr(o, f["name"])
                if v is not None:
                    indeg[id(v)] += 1
                    if isinstance(v, type(o)) or isinstance(o, type(v)):
                        pass
            elif f["kind"] in ("list_ref", "set_ref", "self_list"):
                for v in getattr(o, f["name"]):
                    indeg[id(v)] += 1
    shared = sum(1 for c in indeg.values() if c > 1)
    return {"objects": len(seen), "shared": shared, "classes": len({type(o) for o in seen.values()})}


def hierarchy_ref_fields(spec):
    """(class, field) of single references whose target lies in the class's own hierarchy"""
    by = {c["name"]: c for c in spec["classes"]}

    def anc(n):
        out = []
        while n:
            out.append(n)
            n = by[n]["parent"]
        return out

    out = set()
    for c in spec["classes"]:
        for f in c["fields"]:
            if f["kind"] in ("ref", "opt_ref", "self_opt"):
                if f["target"] in anc(c["name"]) or c["name"] in anc(f["target"]):
                    out.add((c["name"], f["name"]))
    return out


def _alt_cycle_problem(p, spec):
    """the problem sits on a reference to an alternatively mapped class that can be part of a cycle
    (declared in the spec as alt_cycle_fields) and is an identity / class problem"""
    import re
    fields = set(spec.get("alt_cycle_fields", ()))
    mm = re.match(r"(.*)\.(\w+)(\[\d+\]|\{\d+\})?: (.*)$", p)
    if not mm or mm.group(2) not in fields:
        return False
    return "aliasing lost" in mm.group(4) or "class " in mm.group(4) or "became one object" in mm.group(4)


def _only_alt_cycle(problems, spec):
    """every problem is an identity / class problem on a reference to the cyclic alternatively mapped class; a root
    that is reached again through such a cycle (second root of a shared conversion state) counts when at least one
    proper problem of that kind is present"""
    proper = [p for p in problems if _alt_cycle_problem(p, spec)]
    rest = [p for p in problems if not _alt_cycle_problem(p, spec)]
    return bool(proper) and all(p.startswith("root: ") and "aliasing lost" in p for p in rest)


def run(m, iface, seed, n, opts):
    from krrood.ormatic.dao import to_dao, get_dao_class, ToDAOState, FromDAOState
    spec = opts["spec"]
    mode = opts.get("mode", "both")
    out = {"cases": 0, "failures": [], "counters": Counter(), "shapes": []}
    C = out["counters"]
    hier = hierarchy_ref_fields(spec)
    deep = deep_chain(m, spec, mode, C)
    if deep:
        out["failures"].append(deep)
    for i in range(n):
        rng = random.Random(f"{seed}:{i}")
        c05 = mode in ("c05", "both")
        objs = gen_graph(rng, m, spec, c05)
        cands = rng.sample(objs, min(4, len(objs)))
        root = max(cands, key=lambda o: len(reachable(o, spec)))
        objs.remove(root)
        objs.insert(0, root)
        feat = features(objs, root, spec)
        out["cases"] += 1
        C["graphs"] += 1
        C["objects"] += feat["objects"]
        C["shared_nodes"] += feat["shared"]
        shape = f"{feat['objects']}o{min(feat['shared'], 3)}s{feat['classes']}c"
        out["shapes"].append([shape, feat["shared"] > 0])
        uses_hier = any(getattr(o, fn, None) is not None for o in reachable(root, spec).values()
                        for (cn, fn) in hier if isinstance(o, getattr(m, cn)))
        if mode in ("c04", "both"):
            problems = []
            try:
                dao = to_dao(root)
                back = dao.from_dao()
                st = Counter()
                fwd = bisimulate(root, back, spec, True, problems, stats=st)
                C["c04_objects_compared"] += st["objects"]
                # several roots with shared conversion states
                if len(objs) > 1:
                    s1, s2 = ToDAOState(), FromDAOState()
                    other = objs[rng.randrange(1, len(objs))]
                    d1 = to_dao(root, s1)
                    d2 = to_dao(other, s1)
                    b1, b2 = d1.from_dao(s2), d2.from_dao(s2)
                    fw, rv = {}, {}
                    bisimulate(root, b1, spec, True, problems, fw, rv)
                    bisimulate(other, b2, spec, True, problems, fw, rv)
                    C["c04_shared_state_pairs"] += 1
                # a stream of graphs the caller does not keep, converted with one shared state
                if i % 3 == 0:
                    problems.extend(stream_roundtrip(m, spec, f"{seed}:{i}", c05, C))
            except Exception as e:
                problems.append(f"exception {type(e).__name__}: {e}"[:300])
            if problems:
                out["failures"].append({"check": "C04", "i": i, "problems": problems[:12], "hier": uses_hier, "shape": shape,
                                        "only_alt_mapped_cycle": _only_alt_cycle(problems, spec)})
        if mode in ("c05", "both"):
            problems = db_roundtrip(m, iface, spec, root, C)
            if i % 3 == 0:
                problems.extend(db_stream(m, iface, spec, f"{seed}:{i}", C))
            if problems:
                import re
                hier_names = {fn for (_, fn) in hier}

                def hier_loss(p):
                    mm = re.match(r".*\.(\w+)(\{\d+\})?: \w+ -> NoneType$", p)
                    return bool(mm) and mm.group(1) in hier_names

                out["failures"].append({"check": "C05", "i": i, "problems": problems[:12], "hier": uses_hier, "shape": shape,
                                        "only_hierarchy_reference_lost": all(hier_loss(p) for p in problems),
                                        "only_alt_mapped_cycle": _only_alt_cycle(problems, spec)})
    out["counters"] = dict(C)
    return out


DEEP_CHAIN_LENGTH = 400


def deep_chain(m, spec, mode, C):
    """'any depth': a chain of DEEP_CHAIN_LENGTH objects linked through an Optional reference to their own class"""
    from krrood.ormatic.dao import to_dao
    link = next(((c["name"], f["name"]) for c in spec["classes"] if not c.get("unmapped") for f in c["fields"]
                 if f["kind"] == "self_opt" and not f.get("no_init")), None)
    if link is None:
        return None
    cls = getattr(m, link[0])
    objs = []
    for k in range(DEEP_CHAIN_LENGTH):
        o = cls()
        if hasattr(o, "uid"):
            object.__setattr__(o, "uid", k + 1)
        objs.append(o)
    for a, b in zip(objs, objs[1:]):
        object.__setattr__(a, link[1], b)
    C["deep_chains"] += 1
    check = "C04" if mode in ("c04", "both") else "C05"
    try:
        back = to_dao(objs[0]).from_dao()
        n = 0
        while back is not None:
            n += 1
            back = getattr(back, link[1])
        if n == DEEP_CHAIN_LENGTH:
            C["deep_chains_converted"] += 1
            return None
        problem = f"a chain of {DEEP_CHAIN_LENGTH} objects linked through {link[0]}.{link[1]} came back with {n} objects"
        return {"check": check, "i": -1, "problems": [problem], "hier": False, "shape": "deep-chain"}
    except RecursionError:
        return {"check": check, "i": -1, "hier": False, "shape": "deep-chain", "only_deep_chain_recursion": True,
                "problems": [f"a chain of {DEEP_CHAIN_LENGTH} objects linked through {link[0]}.{link[1]} cannot be converted: RecursionError "
                             f"(to_dao / from_dao recurse through every reference)"]}
    except Exception as e:
        return {"check": check, "i": -1, "hier": False, "shape": "deep-chain",
                "problems": [f"a chain of {DEEP_CHAIN_LENGTH} objects linked through {link[0]}.{link[1]}: {type(e).__name__}: {e}"[:300]]}


def _stream_root(rng, m, spec, c05):
    objs = gen_graph(rng, m, spec, c05)
    return max(objs[:4], key=lambda o: len(reachable(o, spec)))


def _convert_and_drop(m, spec, key, c05, state):
    from krrood.ormatic.dao import to_dao
    root = _stream_root(random.Random(key), m, spec, c05)
    return to_dao(root, state)


def stream_roundtrip(m, spec, key, c05, C, k=5):
    """Graphs that die right after their conversion, all converted with one ToDAOState: every DAO must still restore its
    own graph (the same graph is generated again from the same key to compare with)."""
    import gc
    from krrood.ormatic.dao import ToDAOState
    problems = []
    state = ToDAOState()
    daos = []
    for j in range(k):
        daos.append(_convert_and_drop(m, spec, f"{key}:s{j}", c05, state))
        gc.collect()
    for j, dao in enumerate(daos):
        again = _stream_root(random.Random(f"{key}:s{j}"), m, spec, c05)
        mine = []
        try:
            back = dao.from_dao()
            bisimulate(again, back, spec, True, mine)
        except Exception as e:
            mine.append(f"exception {type(e).__name__}: {e}"[:200])
        problems.extend(f"{p} [graph {j} of a stream converted with one shared state]" for p in mine[:4])
        C["c04_stream_graphs"] += 1
    return problems


def _convert_add_and_drop(m, spec, key, state, session):
    from krrood.ormatic.dao import to_dao
    root = _stream_root(random.Random(key), m, spec, True)
    session.add(to_dao(root, state))
    want = Counter()
    for o in reachable(root, spec).values():
        want[type(o).__name__] += 1
    return want


def db_stream(m, iface, spec, key, C, k=5):
    """Graphs that die right after their conversion, converted with one ToDAOState and stored in one session: every
    distinct object of every graph has exactly one row."""
    import gc
    from sqlalchemy import text
    from sqlalchemy.orm import Session
    from krrood.ormatic.dao import ToDAOState, get_dao_class
    from krrood.ormatic.utils import create_engine
    problems = []
    eng = create_engine("sqlite:///:memory:")
    iface.Base.metadata.create_all(eng)
    want = Counter()
    try:
        try:
            with Session(eng) as s:
                state = ToDAOState()
                for j in range(k):
                    want.update(_convert_add_and_drop(m, spec, f"{key}:d{j}", state, s))
                    gc.collect()
                s.commit()
        except Exception as e:
            return [f"persist of a stream of graphs with one shared state: {type(e).__name__}: {e}"[:300]]
        with eng.connect() as conn:
            for c in spec["classes"]:
                if c.get("unmapped"):
                    continue
                T = getattr(m, c["name"])
                n = sum(v for cn, v in want.items() if issubclass(getattr(m, cn), T))
                table = get_dao_class(T).__tablename__
                got = conn.execute(text(f'SELECT count(*) FROM "{table}"')).scalar()
                C["stream_row_counts_checked"] += 1
                if got != n:
                    problems.append(f"table {table} has {got} rows for {n} objects [stream of {k} graphs converted with one shared state]")
        C["c05_stream_graphs"] += k
    finally:
        eng.dispose()
    return problems


def db_roundtrip(m, iface, spec, root, C):
    import sqlalchemy
    from sqlalchemy import event, select, text
    from sqlalchemy.orm import Session
    from krrood.ormatic.dao import to_dao, get_dao_class
    from krrood.ormatic.utils import create_engine
    problems = []
    seen = reachable(root, spec)
    eng = create_engine("sqlite:///:memory:")
    iface.Base.metadata.create_all(eng)
    inserts = Counter()

    def on_insert(mapper, connection, target):
        inserts[id(target)] += 1

    event.listen(iface.Base, "after_insert", on_insert, propagate=True)
    try:
        try:
            with Session(eng) as s:
                dao = to_dao(root)
                s.add(dao)
                s.commit()
                added_id = id(dao)
        except Exception as e:
            return [f"persist: {type(e).__name__}: {e}"[:300]]
        C["insert_events"] += sum(inserts.values())
        if any(v > 1 for v in inserts.values()):
            problems.append("a DAO instance was inserted more than once")
        if len(inserts) != len(seen):
            problems.append(f"{len(inserts)} rows inserted for {len(seen)} distinct objects")
        # row counts per table
        with eng.connect() as conn:
            for c in spec["classes"]:
                if c.get("unmapped"):
                    continue
                T = getattr(m, c["name"])
                want = sum(1 for o in seen.values() if isinstance(o, T))
                table = get_dao_class(T).__tablename__
                got = conn.execute(text(f'SELECT count(*) FROM "{table}"')).scalar()
                C["row_counts_checked"] += 1
                if got != want:
                    problems.append(f"table {table} has {got} rows for {want} objects")
        # reload in a fresh session through every DAO class of the root's chain
        dcls = get_dao_class(type(root))
        chain = [k for k in dcls.__mro__ if hasattr(k, "__tablename__")]
        for D in chain:
            with Session(eng) as s2:
                rows = s2.scalars(select(D)).all()
                if any(id(r) == added_id for r in rows) and False:
                    problems.append("identity map leaked")
                from krrood.ormatic.dao import FromDAOState
                st = FromDAOState()
                loaded = [r.from_dao(state=st) for r in rows]
                cand = [x for x in loaded if getattr(x, "uid", None) == root.uid and type(x) is type(root)]
                C["reloads"] += 1
                if len(cand) != 1:
                    wrong = [type(x).__name__ for x in loaded if getattr(x, "uid", None) == root.uid]
                    problems.append(f"loading via {D.__name__}: root uid {root.uid} restored {len(cand)} times as {type(root).__name__} (found {wrong})")
                    continue
                st2 = Counter()
                SIGNED_ZERO["strict"] = False        # 'values come back equal': -0.0 == 0.0
                try:
                    bisimulate(root, cand[0], spec, False, problems, stats=st2)
                finally:
                    SIGNED_ZERO["strict"] = True
                C["c05_objects_compared"] += st2["objects"]
    finally:
        event.remove(iface.Base, "after_insert", on_insert)
        eng.dispose()
    return problems
