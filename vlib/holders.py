"""Known process-wide holders inside krrood that keep evaluated queries (and through their cached
domains every object they ranged over) alive.  Clearing them is how the harness 'drops the query
objects' for real; every access is guarded because these are internals."""
from __future__ import annotations

import gc


def clear_known_holders():
    cleared = []
    try:
        from krrood.entity_query_language import symbolic as S
        S.SymbolicExpression._id_expression_map_.clear()
        S.SymbolicExpression._symbolic_expression_stack_.clear()
        cleared.append("_id_expression_map_")
    except Exception:
        pass
    try:
        import rustworkx as rx
        from krrood.entity_query_language.rxnode import RWXNode
        g = RWXNode._graph
        for i in list(g.node_indices()):
            g.remove_node(i)
        cleared.append("RWXNode._graph")
    except Exception:
        pass
    # functools.lru_cache wrappers on methods keep `self`
    try:
        for f in _lru_wrappers():
            try:
                f.cache_clear()
            except Exception:
                pass
        cleared.append("lru_caches")
    except Exception:
        pass
    gc.collect()
    return cleared


_LRU = None
_LRU_MODS = 0


def _lru_wrappers():
    global _LRU, _LRU_MODS
    import sys
    n_mods = sum(1 for m in sys.modules if m.startswith("krrood.entity_query_language"))
    if _LRU is None or n_mods != _LRU_MODS:
        _LRU_MODS = n_mods
        out = []
        for modname, mod in list(sys.modules.items()):
            if not modname.startswith("krrood.entity_query_language"):
                continue
            for obj in list(vars(mod).values()):
                if isinstance(obj, type):
                    for attr in list(vars(obj).values()):
                        f = getattr(attr, "__func__", attr)
                        f = getattr(f, "fget", None) or f
                        if hasattr(f, "cache_clear"):
                            out.append(f)
        _LRU = out
    return _LRU
