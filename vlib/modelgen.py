"""Random dataclass model *sources* over ORMatic's documented modelling grammar.

gen_model(rng, modname, profile) -> (python source, spec)
spec = {"module": modname, "classes": [{"name", "parent", "fields": [{"name", "kind", "target"}]}], "order": [...]}

Field kinds: int str float bool opt_int opt_str opt_float enum opt_enum datetime list_str list_int set_str set_int
             ref opt_ref list_ref set_ref self_opt self_list type private
"""
from __future__ import annotations

SCALARS = ["int", "str", "float", "bool", "opt_int", "opt_str", "opt_float", "enum", "opt_enum", "datetime"]
JSONS = ["list_str", "list_int", "list_str", "list_int", "set_str", "set_int"]
RELS = ["ref", "opt_ref", "list_ref", "list_ref", "set_ref", "self_opt"]

ANNOT = {
    "int": ("int", "0"), "str": ("str", "''"), "float": ("float", "0.0"), "bool": ("bool", "False"),
    "opt_int": ("Optional[int]", "None"), "opt_str": ("Optional[str]", "None"), "opt_float": ("Optional[float]", "None"),
    "enum": ("Color", "Color.R"), "opt_enum": ("Optional[Color]", "None"),
    "datetime": ("datetime", "field(default_factory=lambda: datetime(2020, 1, 1))"),
    "list_str": ("List[str]", "field(default_factory=list)"), "list_int": ("List[int]", "field(default_factory=list)"),
    "set_str": ("Set[str]", "field(default_factory=set)"), "set_int": ("Set[int]", "field(default_factory=set)"),
    "private": ("int", "0"),
    "list_uuid": ("List[uuid.UUID]", "field(default_factory=list)"), "json_list_opt_int": ("List[Optional[int]]", "field(default_factory=list)"),
}


def gen_model(rng, modname, profile="orm"):
    """profile: 'orm' (C04/C05/C06 grammar) or 'diagram' (adds type-valued fields, more forward references)"""
    n = rng.randint(2, 7) if profile != "big" else rng.randint(5, 10)
    names = [f"K{i}" for i in range(n)]
    classes = []
    allow_self_list = profile == "selflist"
    with_uid = True if profile in ("rt",) else rng.random() < 0.85
    for i, nm in enumerate(names):
        parent = rng.choice(names[:i]) if i > 0 and rng.random() < 0.45 else None
        fields = []
        if parent is None and with_uid:
            fields.append({"name": "uid", "kind": "int", "target": None})
        for j in range(rng.choice([0, 1, 2, 2, 3, 4])):
            r = rng.random()
            if r < 0.40:
                kind = rng.choice(SCALARS)
            elif r < 0.48:
                kind = rng.choice(JSONS)
                if profile in ("orm", "big") and rng.random() < 0.3:
                    # one JSON column as well: builtin-like elements from another module, elements that may be missing
                    kind = rng.choice(["list_uuid", "json_list_opt_int"])
            elif r < 0.55:
                kind = "private"
            elif r < 0.60 and profile in ("diagram", "orm", "big"):
                kind = "type"
            else:
                kind = rng.choice(RELS + (["self_list"] if allow_self_list else []))
            fname = ("_" if kind == "private" else "") + f"f{i}_{j}"
            target = None
            if profile == "diagram" and kind == "type" and rng.random() < 0.4:
                kind = "opt_type"       # a type-valued field that may be missing
            if profile == "diagram" and kind in ("list_str", "list_int", "set_str", "set_int") and rng.random() < 0.5:
                # elements that may be missing, a tuple of any length, an annotation that is neither a class nor a collection
                kind = rng.choice(["list_opt_int", "tuple_str", "dict_str_int", "opt_dict_str_int"])
            if profile == "diagram" and kind in ("list_ref", "opt_ref") and rng.random() < 0.3:
                # two wrappers: a collection that may be missing, a collection of elements that may be missing
                kind = "opt_list_ref" if kind == "opt_ref" else "list_opt_ref"
            if kind in ("ref", "opt_ref", "list_ref", "set_ref", "type", "opt_type", "opt_list_ref", "list_opt_ref"):
                target = rng.choice(names)
                if kind in ("list_ref", "set_ref") and not allow_self_list:
                    # a collection of the class's own type is the listed self-list finding: avoid it here
                    cands = [t for t in names if t != nm]
                    if not cands:
                        continue
                    target = rng.choice(cands)
            if kind in ("self_opt", "self_list"):
                target = nm
            fd = {"name": fname, "kind": kind, "target": target}
            if kind in OPT_DEFAULTS and rng.random() < 0.5:
                fd["dflt"] = True       # an Optional field whose default is not None
            if kind.startswith("opt_") or kind == "self_opt":
                fd["optspell"] = rng.choice([0, 0, 0, 1, 2, 3])      # how the Optional is written
            if profile == "rt" and kind != "private" and rng.random() < 0.12:
                fd["kw_only"] = True    # dataclass field(kw_only=True): a keyword-only constructor argument
            elif profile == "rt" and kind in ("set_ref", "list_ref") and rng.random() < 0.15:
                fd["opt_wrapped"] = True    # Optional[Set[X]] / Optional[List[X]]: a collection that may be missing (it never is here)
            elif profile == "rt" and kind not in ("private", "ref") and fname != "uid" and rng.random() < 0.1:
                fd["no_init"] = True    # dataclass field(init=False): not a constructor argument, a field like any other
            fields.append(fd)
        if parent is not None and profile in ("orm", "rt", "big") and rng.random() < 0.2:
            # an intermediate base class that is NOT handed to ORMatic (cf. NotMappedParent in the repository's dataset)
            un = f"U{i}"
            ufields = [{"name": f"u{i}_0", "kind": rng.choice(["int", "str", "opt_float"]), "target": None}] if rng.random() < 0.6 else []
            classes.append({"name": un, "parent": parent, "fields": ufields, "unmapped": True})
            parent = un
        cd = {"name": nm, "parent": parent, "fields": fields}
        if profile == "rt" and rng.random() < 0.15:
            # a container-like / flag-like domain class whose instances are falsy: still an object like any other
            cd["falsy"] = rng.choice(["len", "bool"])
        classes.append(cd)
    order = list(names)
    rng.shuffle(order)
    spec = {"module": modname, "classes": classes, "order": order, "profile": profile}
    return render(spec), spec


def _declared_ancestors(name, classes):
    by = {c["name"]: c for c in classes}
    out = set()
    cur = by.get(name)
    while cur is not None and cur["parent"]:
        out.add(cur["parent"])
        cur = by.get(cur["parent"])
    return out


def _ancestors_and_self(name, classes, parent):
    out = {name}
    by = {c["name"]: c for c in classes}
    cur = parent
    while cur:
        out.add(cur)
        cur = by[cur]["parent"] if cur in by else None
    return out


OPT_DEFAULTS = {"opt_int": "7", "opt_str": "'dflt'", "opt_float": "2.5", "opt_enum": "Color.G"}


def respell_optional(ann, spelling):
    """Optional[X] written as Union[X, None], Union[None, X] or X | None (the same type)"""
    if not spelling or not ann.startswith("Optional[") or not ann.endswith("]"):
        return ann
    inner = ann[len("Optional["):-1]
    if inner.startswith('"'):           # a quoted forward reference cannot take part in the | operator
        spelling = min(spelling, 2)
    return {1: f"Union[{inner}, None]", 2: f"Union[None, {inner}]", 3: f"{inner} | None"}[spelling]


def annotation(f, quote=False):
    ann, dflt = _annotation(f, quote)
    ann = respell_optional(ann, f.get("optspell", 0))
    if f.get("kw_only"):
        # a keyword-only constructor argument
        dflt = dflt[:-1] + ", kw_only=True)" if dflt.startswith("field(") else f"field(default={dflt}, kw_only=True)"
    if f.get("opt_wrapped"):
        ann = f"Optional[{ann}]"
    if f.get("no_init"):
        dflt = dflt[:-1] + ", init=False)" if dflt.startswith("field(") else f"field(default={dflt}, init=False)"
    return ann, dflt


def _annotation(f, quote=False):
    """quote=True: the module does not postpone annotations, class names inside the annotation are string forward
    references (List["K3"], Optional["K3"], Type["K3"], "K3")"""
    k, t = f["kind"], f["target"]
    if quote and t is not None:
        t = f'"{t}"'
    if k in OPT_DEFAULTS and f.get("dflt"):
        return ANNOT[k][0], OPT_DEFAULTS[k]
    if k in ANNOT:
        return ANNOT[k]
    if k == "ref":
        return t, "None"
    if k in ("opt_ref", "self_opt"):
        return f"Optional[{t}]", "None"
    if k in ("list_ref", "self_list"):
        return f"List[{t}]", "field(default_factory=list)"
    if k == "set_ref":
        return f"Set[{t}]", "field(default_factory=set)"
    if k == "opt_list_ref":
        return f"Optional[List[{t}]]", "None"
    if k == "list_opt_ref":
        return f"List[Optional[{t}]]", "field(default_factory=list)"
    if k == "type":
        return f"Type[{t}]", "None"
    if k == "opt_type":
        return f"Optional[Type[{t}]]", "None"
    if k == "list_opt_int":
        return "List[Optional[int]]", "field(default_factory=list)"
    if k == "tuple_str":
        return "Tuple[str, ...]", "()"
    if k == "dict_str_int":
        return "Dict[str, int]", "field(default_factory=dict)"
    if k == "opt_dict_str_int":
        return "Optional[Dict[str, int]]", "None"
    raise ValueError(k)


ENUM_MODULE_SOURCE = "from enum import Enum\n\n\nclass Color(Enum):\n    R = 'r'\n    G = 'g'\n    B = 'b'\n"


def render(spec, postponed=True):
    lines = (["from __future__ import annotations"] if postponed else []) + ["from dataclasses import dataclass, field",
             "from typing_extensions import Dict, List, Optional, Set, Tuple, Type, Union", "from enum import Enum",
             "from datetime import datetime", "import uuid", "", "", "class Color(Enum):", "    R = 'r'", "    G = 'g'", "    B = 'b'", "", ""]
    if spec.get("enum_module"):
        # the enum lives in a module of its own that holds no mapped class (ENUM_MODULE_SOURCE, written next to the model)
        lines = lines[:lines.index("class Color(Enum):")] + [f"from {spec['module']}_enum import Color", "", ""]
    # python needs a parent class defined before its child: emit in an order that respects inheritance but is
    # otherwise the (random) declaration order -> many forward references in annotations
    by = {c["name"]: c for c in spec["classes"]}
    emitted = []

    def emit(nm):
        if nm in emitted:
            return
        c = by[nm]
        if c["parent"]:
            emit(c["parent"])
        emitted.append(nm)
        base = f"({c['parent']})" if c["parent"] else ""
        lines.append("@dataclass(eq=False)")
        lines.append(f"class {nm}{base}:")
        if not c["fields"]:
            lines.append("    pass")
        for f in c["fields"]:
            ann, dflt = annotation(f, quote=not postponed)
            lines.append(f"    {f['name']}: {ann} = {dflt}")
        if c.get("falsy") == "len":
            lines.extend(["", "    def __len__(self):", "        return 0"])
        elif c.get("falsy") == "bool":
            lines.extend(["", "    def __bool__(self):", "        return False"])
        lines.append("")
        lines.append("")

    for nm in spec["order"]:
        emit(nm)
    for c in spec["classes"]:
        emit(c["name"])
    spec["emitted"] = emitted
    if spec.get("enum_nested") and not spec.get("enum_module"):
        # the enum is defined inside another class: it is reached through that class only
        import re
        start = lines.index("class Color(Enum):")
        head = lines[:start] + ["class Palette:", "    class Color(Enum):", "        R = 'r'", "        G = 'g'", "        B = 'b'", "", ""]
        lines = head + [re.sub(r"\bColor\b", "Palette.Color", l) for l in lines[start + 6:]]
    return "\n".join(lines)


def shape_signature(spec):
    sig = []
    depth = {}
    by = {c["name"]: c for c in spec["classes"]}
    for c in spec["classes"]:
        if c.get("unmapped"):
            sig.append("unmapped")
            continue
        d, cur = 0, c
        while cur["parent"]:
            d += 1
            cur = by[cur["parent"]]
        kinds = sorted(f["kind"] + ("*" if f["target"] == c["name"] else "") for f in c["fields"])
        sig.append(f"d{d}:" + ",".join(kinds))
    return "|".join(sorted(sig))


def render_split(spec):
    """two modules <module>_a / <module>_b that import each other's classes only under TYPE_CHECKING, so that
    annotations naming a class of the other module are unresolvable forward references at run time.
    A child class lives in the module of its parent.  -> {modname: source}"""
    by = {c["name"]: c for c in spec["classes"]}
    side = {}
    for i, c in enumerate(spec["classes"]):
        side[c["name"]] = side[c["parent"]] if c["parent"] else ("a" if i % 2 == 0 else "b")
    spec["side"] = side
    out = {}
    for s_ in ("a", "b"):
        other = "b" if s_ == "a" else "a"
        names_other = [n for n, sd in side.items() if sd == other]
        lines = ["from __future__ import annotations", "from dataclasses import dataclass, field",
                 "from typing_extensions import Dict, List, Optional, Set, Tuple, Type, Union, TYPE_CHECKING", "from enum import Enum",
                 "from datetime import datetime", "import uuid", f"from {spec['module']}_enum import Color", ""]
        if names_other:
            lines += ["if TYPE_CHECKING:", f"    from {spec['module']}_{other} import " + ", ".join(names_other), ""]
        emitted = []

        def emit(nm):
            if nm in emitted or side[nm] != s_:
                return
            c = by[nm]
            if c["parent"]:
                emit(c["parent"])
            emitted.append(nm)
            base = f"({c['parent']})" if c["parent"] else ""
            lines.append("@dataclass(eq=False)")
            lines.append(f"class {nm}{base}:")
            if not c["fields"]:
                lines.append("    pass")
            for f in c["fields"]:
                ann, dflt = annotation(f)
                lines.append(f"    {f['name']}: {ann} = {dflt}")
            lines.extend(["", ""])

        for nm in spec["order"]:
            emit(nm)
        out[f"{spec['module']}_{s_}"] = "\n".join(lines)
    out[f"{spec['module']}_enum"] = "from enum import Enum\n\n\nclass Color(Enum):\n    R = 'r'\n    G = 'g'\n    B = 'b'\n"
    return out
