"""Shared helpers for the /verif runtime-monitoring framework."""
from __future__ import annotations

import hashlib
import json
import os
import random
import signal
import sys
import time
from collections import Counter

VERIF = os.path.dirname(os.path.dirname(os.path.abspath(__file__)))
PY = os.environ.get("VERIF_PYTHON", "/venv/bin/python")
DEPS = os.path.join(VERIF, ".deps")
KNOWN_FILE = os.path.join(VERIF, "known-findings.txt")


def krrood_src() -> str:
    """Directory that must contain the krrood package the workers import."""
    return os.path.abspath(os.environ.get("VERIF_KRROOD_SRC", "/repo/src"))


def tree_hash(root: str | None = None) -> str:
    root = root or os.path.join(krrood_src(), "krrood")
    h = hashlib.sha256()
    for d, dirs, files in sorted(os.walk(root)):
        dirs.sort()
        for f in sorted(files):
            if f.endswith((".py", ".jinja", ".j2")):
                p = os.path.join(d, f)
                h.update(os.path.relpath(p, root).encode())
                with open(p, "rb") as fh:
                    h.update(fh.read())
    return h.hexdigest()[:16]


def case_rng(seed: int, check: str, idx: int, salt: str = "") -> random.Random:
    return random.Random(f"{seed}:{check}:{idx}:{salt}")


def shape_hash(obj) -> str:
    return hashlib.sha1(json.dumps(obj, sort_keys=True, default=str).encode()).hexdigest()[:12]


class CaseTimeout(BaseException):
    """Raised inside a case by the in-process watchdog (BaseException so that
    broad ``except Exception`` clauses of the code under test cannot eat it)."""


class Watchdog:
    def __init__(self, seconds: float):
        self.seconds = seconds

    def _fire(self, signum, frame):
        raise CaseTimeout()

    def __enter__(self):
        if self.seconds and hasattr(signal, "setitimer"):
            self._old = signal.signal(signal.SIGALRM, self._fire)
            signal.setitimer(signal.ITIMER_REAL, self.seconds)
        return self

    def __exit__(self, *exc):
        if self.seconds and hasattr(signal, "setitimer"):
            signal.setitimer(signal.ITIMER_REAL, 0)
            signal.signal(signal.SIGALRM, self._old)
        return False


class StepTimeout(Exception):
    pass


class SubWatchdog:
    """a short deadline for one operation inside a case (the case's own watchdog is suspended and resumed with the
    time it had left); its firing means 'the operation did not come back', which the caller reports"""

    def __init__(self, seconds: float):
        self.seconds = seconds

    def _fire(self, signum, frame):
        raise StepTimeout()

    def __enter__(self):
        if hasattr(signal, "setitimer"):
            self._left = signal.getitimer(signal.ITIMER_REAL)[0]
            self._old = signal.signal(signal.SIGALRM, self._fire)
            signal.setitimer(signal.ITIMER_REAL, self.seconds)
        return self

    def __exit__(self, *exc):
        if hasattr(signal, "setitimer"):
            signal.setitimer(signal.ITIMER_REAL, 0)
            signal.signal(signal.SIGALRM, self._old)
            if self._left:
                signal.setitimer(signal.ITIMER_REAL, max(0.05, self._left))
        return False


def load_known():
    """Parse known-findings.txt -> (known: {prop: {key: text}}, fixed: {prop: {key: (commit, text)}})."""
    known, fixed = {}, {}
    if not os.path.exists(KNOWN_FILE):
        return known, fixed
    for line in open(KNOWN_FILE, encoding="utf-8"):
        line = line.strip()
        if not line or line.startswith("#"):
            continue
        if line.startswith("KNOWN-FINDING:"):
            rest = line[len("KNOWN-FINDING:"):].strip()
            head, _, text = rest.partition("::")
            parts = dict(p.split("=", 1) for p in head.split() if "=" in p)
            known.setdefault(parts["property"], {})[parts["key"]] = text.strip()
        elif line.startswith("fixed:"):
            rest = line[len("fixed:"):].strip()
            head, _, text = rest.partition("::")
            toks = head.split()
            parts = dict(p.split("=", 1) for p in toks if "=" in p)
            commit = next((t for t in toks if "=" not in t), "?")
            fixed.setdefault(parts["property"], {})[parts.get("key", "?")] = (commit, text.strip())
    return known, fixed


def merge_counters(dst: Counter, src: dict):
    for k, v in src.items():
        dst[k] += v


def now() -> float:
    return time.time()


def jdump(obj) -> str:
    return json.dumps(obj, default=repr, sort_keys=True)
