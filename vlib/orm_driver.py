"""Subprocess driver: one generated model per process (SQLAlchemy registries, DAO subclass registry and
get_dao_class's cache are process-global).

usage: python -m vlib.orm_driver <workdir> <modname> <json order> <mode> [args...]
modes:
  gen            generate the interface, import it, configure mappers, create the schema, dump mapper facts
  rt <seed> <n>  additionally run n random object graphs through DAO and DB round trips (C04/C05)
prints one JSON document on the last stdout line.
"""
from __future__ import annotations

import importlib
import json
import os
import sys
import traceback


def generate(workdir, modname, order):
    from krrood.class_diagrams.class_diagram import ClassDiagram
    from krrood.ormatic.ormatic import ORMatic
    m = importlib.import_module(modname)
    classes = [getattr(m, n) for n in order]
    cd = ClassDiagram(classes)
    extra = getattr(m, "VERIF_ORMATIC", {})
    o = ORMatic(cd, alternative_mappings=list(extra.get("alternative_mappings", [])),
                type_mappings=dict(extra.get("type_mappings", {})))
    o.make_all_tables()
    path = os.path.join(workdir, modname.replace(".", "_") + "_iface.py")
    with open(path, "w") as f:
        o.to_sqlalchemy_file(f)
    # a second ORMatic over the SAME class diagram object: the first one must not have changed what it was given
    o2 = ORMatic(cd, alternative_mappings=list(extra.get("alternative_mappings", [])),
                 type_mappings=dict(extra.get("type_mappings", {})))
    o2.make_all_tables()
    first_text = open(path).read()
    with open(path, "w") as f:
        o2.to_sqlalchemy_file(f)
    again = open(path).read()
    with open(path, "w") as f:
        f.write(first_text)
    if again != first_text:
        import difflib
        diff = list(difflib.unified_diff(first_text.splitlines(), again.splitlines(), lineterm="", n=0))[:8]
        raise RuntimeError("generating again from the same ClassDiagram object gives another module: " + " | ".join(diff))
    return m, path


def mapper_facts(iface):
    import sqlalchemy
    from krrood.ormatic.dao import DataAccessObject
    facts = {}
    for name, cls in vars(iface).items():
        if isinstance(cls, type) and issubclass(cls, DataAccessObject) and cls is not DataAccessObject and hasattr(cls, "__tablename__"):
            mp = sqlalchemy.inspect(cls)
            facts[name] = {
                "original": cls.original_class().__name__,
                "base": cls.__bases__[0].__name__,
                "columns": sorted(c.key for c in mp.column_attrs),
                "relationships": {r.key: {"uselist": bool(r.uselist), "target": r.entity.class_.__name__,
                                          "direction": r.direction.name} for r in mp.relationships},
            }
    return facts


def main():
    workdir, modname, order, mode = sys.argv[1], sys.argv[2], json.loads(sys.argv[3]), sys.argv[4]
    sys.path.insert(0, workdir)
    out = {"stage": "start"}
    try:
        out["stage"] = "generate"
        m, path = generate(workdir, modname, order)
        out["iface_sha"] = __import__("hashlib").sha256(open(path, "rb").read()).hexdigest()
        # generating the same input a second time in the same process must give the same text
        first_text = open(path).read()
        generate(workdir, modname, order)
        second_text = open(path).read()
        out["second_generation_in_process_equal"] = (first_text == second_text)
        if first_text != second_text:
            import difflib
            out["second_generation_diff"] = "\n".join(list(difflib.unified_diff(first_text.splitlines(), second_text.splitlines(), lineterm="", n=0))[:12])
            with open(path, "w") as fh:
                fh.write(first_text)
        out["stage"] = "import"
        iface = importlib.import_module(modname.replace(".", "_") + "_iface")
        out["stage"] = "configure"
        from sqlalchemy.orm import configure_mappers
        configure_mappers()
        out["stage"] = "create_all"
        from krrood.ormatic.utils import create_engine
        eng = create_engine("sqlite:///:memory:")
        iface.Base.metadata.create_all(eng)
        out["stage"] = "inspect"
        out["facts"] = mapper_facts(iface)
        out["tables"] = sorted(iface.Base.metadata.tables)
        out["stage"] = "done"
        if mode == "rt":
            from vlib import orm_roundtrip
            out["stage"] = "roundtrip"
            out["rt"] = orm_roundtrip.run(m, iface, int(sys.argv[5]), int(sys.argv[6]), json.loads(sys.argv[7]) if len(sys.argv) > 7 else {})
            out["stage"] = "done"
    except Exception as e:
        out["error"] = f"{type(e).__name__}: {e}"[:600]
        out["trace"] = traceback.format_exc()[-1200:]
    print(json.dumps(out, default=repr))


if __name__ == "__main__":
    main()
