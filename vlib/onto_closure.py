"""Reference fix-point closure of the declared semantics of models/ontomodel.py.

Facts are triples (subject name, field, object name).  `kinds` maps a name to 'person', 'org' or
'chief'; `taker` maps a chief name to the name of its person (the role taker).
"""
from __future__ import annotations


def closure(facts, kinds, taker, without_role_taker_rule=()):
    """`without_role_taker_rule`: head_of facts for which the role-taker rule is left out (to describe a listed finding)"""
    F = set(facts)
    while True:
        new = set()
        for (s, f, o) in F:
            if f == "works_for":                     # WorksFor < MemberOf (same domain)
                new.add((s, "member_of", o))
            if f == "head_of" and (s, f, o) not in without_role_taker_rule:   # HeadOf < WorksFor < MemberOf, super fields live on the role taker
                new.add((taker[s], "works_for", o))
                new.add((taker[s], "member_of", o))
            if f in ("member_of", "works_for", "head_of"):   # inverse Member (HeadOf/WorksFor inherit get_inverse)
                new.add((o, "members", s))
            if f == "members":                        # inverse MemberOf: on the member, or on its role taker
                tgt = taker.get(o, o)
                new.add((tgt, "member_of", s))
            if f == "wholly_owned_by":                # sub-property of sub_org_of, itself transitive
                new.add((s, "sub_org_of", o))
                for (s2, f2, o2) in F:
                    if f2 == f and s2 == o:
                        new.add((s, f, o2))
            if f == "sub_org_of":                     # transitive
                for (s2, f2, o2) in F:
                    if f2 == f and s2 == o:
                        new.add((s, f, o2))
            if f in ("attends", "chairs", "leads"):   # inverse Attendees (Chairs / Leads inherit get_inverse from Attends)
                new.add((o, "attendees", s))
            if f == "attendees":                      # inverse Attends: on the attendee, or on its role taker
                new.add((taker.get(o, o), "attends", s))
            if f == "runs":                           # Runs < EmployedBy, both single-valued fields of one class
                new.add((s, "employed_by", o))
            if f == "leads":                          # Leads < Chairs < Attends; the class has no field for the middle level
                new.add((s, "attends", o))
            if f == "chairs" and kinds.get(taker[s]) in ("Delegate", "Convener"):   # Chairs < Attends, the field lives on a subclass of the
                new.add((taker[s], "attends", o))                       # declared role taker type
            if f == "shows":                          # Shows < Guides < Sees; the class has no field for the middle level
                new.add((s, "sees", o))
            if f == "guides" and kinds.get(taker[s]) in ("Delegate", "Convener"):   # Guides < Sees, no inverse involved
                new.add((taker[s], "sees", o))
            if f == "under":                          # the same transitive property declared on another class
                for (s2, f2, o2) in F:
                    if f2 == "sub_org_of" and s2 == o:
                        new.add((s, f, o2))
            if f == "part_of":                        # transitive + inverse has_part
                new.add((o, "has_part", s))
                for (s2, f2, o2) in F:
                    if f2 == f and s2 == o:
                        new.add((s, f, o2))
            if f == "has_part":
                new.add((o, "part_of", s))
                for (s2, f2, o2) in F:
                    if f2 == f and s2 == o:
                        new.add((s, f, o2))
        if new <= F:
            return F
        F |= new


SINGLE = {"works_for", "head_of", "chairs", "runs", "employed_by"}


def observe_fields(om, named):
    name_of = {id(o): n for n, o in named.items()}
    out = set()
    raw = {}
    for n, o in named.items():
        if isinstance(o, om.Org):
            fl = ("members", "sub_org_of", "part_of", "has_part", "wholly_owned_by", "attendees")
        elif isinstance(o, om.Person):
            fl = ("works_for", "member_of")
        elif isinstance(o, getattr(om, "Boss", ())):
            fl = ("runs", "employed_by")
        elif isinstance(o, getattr(om, "Unit", ())):
            fl = ("under",)
        elif isinstance(o, getattr(om, "Convener", ())):
            fl = ("attends", "leads", "sees", "shows")
        elif isinstance(o, getattr(om, "Delegate", ())):
            fl = ("attends", "sees")
        elif isinstance(o, getattr(om, "Visitor", ())):
            fl = ()
        elif isinstance(o, getattr(om, "Chair", ())):
            fl = ("chairs", "guides")
        elif isinstance(o, getattr(om, "Keeper", ())):
            fl = ("keeps",)
        elif isinstance(o, getattr(om, "VOrg", ())):
            fl = ("members",)
        elif isinstance(o, getattr(om, "VPerson", ())):
            fl = ("member_of",)
        else:
            fl = ("head_of",)
        for f in fl:
            v = getattr(o, f)
            if f in SINGLE:
                if v is not None:
                    out.add((n, f, name_of.get(id(v), "<foreign>")))
            else:
                items = list(v) if v is not None else []
                raw[(n, f)] = [name_of.get(id(x), "<foreign:%s>" % type(x).__name__) for x in items]
                for x in items:
                    out.add((n, f, name_of.get(id(x), "<foreign:%s>" % type(x).__name__)))
    return out, raw


def observe_graph(named, sg):
    name_of = {id(o): n for n, o in named.items()}
    rel = []
    for r in sg.relations():
        s, t = r.source.instance, r.target.instance
        if s is None or t is None:
            continue
        rel.append((name_of.get(id(s), "<foreign>"), r.wrapped_field.public_name, name_of.get(id(t), "<foreign>")))
    return rel
