"""EQL case engine: JSON specs -> (a) real krrood query objects, (b) brute-force
first-order oracle, (c) structural features used for coverage and finding classification.

Spec (all JSON):
  world   : list of object dicts {cls,a,b,items,kids,ref,d,name}
  vars    : list of {name,type,dom:[world idx],kind:list|gen}
  derived : list of {name,kind:"flat",of:term} | {name,kind:"sub",var:{...},cond:cond}
  cond    : condition tree or None
  select  : list of terms ; mode: entity|set_of

Terms : ["var",n] ["attr",t,name] ["idx",t,key|term] ["call",t,meth,[args|terms]] ["lit",v] ["fn","sum_ab",{kw:term}]
Conds : ["cmp",op,t,t] ["in",item,container] ["contains",container,item] ["truth",t]
        ["pred",Name,[t..]] ["hastype",t,"Q"] ["and",c,c] ["or",c,c] ["not",c]
        ["exists",varname,c] ["forall",varname,c]
"""
from __future__ import annotations

import json

import itertools
import operator
from collections import Counter

OPS = {"==": operator.eq, "!=": operator.ne, "<": operator.lt, "<=": operator.le,
       ">": operator.gt, ">=": operator.ge}


# --------------------------------------------------------------------------- world
def make_world(spec, m):
    objs = []
    for o in spec["world"]:
        cls = getattr(m, o["cls"])
        objs.append(cls(a=o["a"], b=o["b"], items=list(o["items"]), d=dict(o["d"]), name=o["name"],
                        f=float(o.get("f", 0.0)), fs=frozenset(o.get("fs", ()))))
    for o, ob in zip(spec["world"], objs):
        ob.kids = [objs[i] for i in o["kids"]]
        ob.ref = objs[o["ref"]] if o["ref"] is not None else None
    return objs


def gen_world(rng, n=None, small_values=True):
    n = n if n is not None else rng.randint(1, 6)
    world = []
    for i in range(n):
        world.append({"cls": rng.choice(["P", "P", "Q"]), "a": rng.randint(0, 2), "b": rng.randint(0, 2),
                      "items": [rng.randint(0, 2) for _ in range(rng.choice([0, 1, 1, 2, 3]))],
                      "kids": [], "ref": None, "d": {"k": rng.randint(0, 2)}, "name": f"o{i}",
                      "f": rng.choice(["0.0", "1.0", "2.5", "nan", "-1.0"]), "fs": sorted(rng.sample([0, 1, 2], rng.randint(0, 3)))})
    for i, o in enumerate(world):
        o["kids"] = [rng.randrange(n) for _ in range(rng.choice([0, 0, 1, 2, 2]))]
        o["ref"] = rng.randrange(n) if rng.random() < 0.7 else None
    return world


def with_equal_but_distinct_objects(world):
    """the plain objects of the world become instances of a class with value equality over (a, b): with values 0..2
    several of them are equal to each other while being distinct objects"""
    for o in world:
        if o["cls"] == "P":
            o["cls"] = "PE"
    return world


# --------------------------------------------------------------------------- structure helpers
def term_vars(t):
    k = t[0]
    if k == "var":
        return {t[1]}
    if k == "attr":
        return term_vars(t[1])
    if k == "idx":
        return term_vars(t[1]) | (term_vars(t[2]) if isinstance(t[2], list) else set())
    if k == "call":
        s = term_vars(t[1])
        for a in t[3]:
            if isinstance(a, list):
                s |= term_vars(a)
        return s
    if k == "fn":
        s = set()
        for a in t[2].values():
            s |= term_vars(a)
        return s
    return set()


def cond_vars(c):
    """names of variables (base or derived) syntactically occurring in c"""
    k = c[0]
    if k == "cmp":
        return term_vars(c[2]) | term_vars(c[3])
    if k in ("in", "contains"):
        return term_vars(c[1]) | term_vars(c[2])
    if k == "truth":
        return term_vars(c[1])
    if k == "pred":
        s = set()
        for t in c[2]:
            s |= term_vars(t)
        return s
    if k == "hastype":
        return term_vars(c[1])
    if k in ("and", "or"):
        return cond_vars(c[1]) | cond_vars(c[2])
    if k == "not":
        return cond_vars(c[1])
    if k in ("exists", "forall"):
        return {c[1]} | cond_vars(c[2])
    raise ValueError(c)


def closure_vars(names, spec):
    """expand derived variable names to everything they depend on (transitively)"""
    dmap = {d["name"]: d for d in spec.get("derived", [])}
    out, todo = set(), list(names)
    while todo:
        n = todo.pop()
        if n in out:
            continue
        out.add(n)
        d = dmap.get(n)
        if d and d["kind"] == "flat":
            todo.extend(term_vars(d["of"]))
    return out


def has_pred_like(c):
    """does the condition contain a node that krrood represents as its own Variable
    (Predicate / symbolic function / HasType / sub-query)?  Such nodes make the two sides
    of an or_ differ in their variable sets."""
    k = c[0]
    if k in ("pred", "hastype"):
        return True
    if k == "cmp":
        return term_has_fn(c[2]) or term_has_fn(c[3])
    if k in ("in", "contains"):
        return term_has_fn(c[1]) or term_has_fn(c[2])
    if k == "truth":
        return term_has_fn(c[1])
    if k in ("and", "or"):
        return has_pred_like(c[1]) or has_pred_like(c[2])
    if k == "not":
        return has_pred_like(c[1])
    if k in ("exists", "forall"):
        return has_pred_like(c[2])
    return False


def term_has_fn(t):
    k = t[0]
    if k == "fn":
        return True
    if k == "attr":
        return term_has_fn(t[1])
    if k == "idx":
        return term_has_fn(t[1]) or (isinstance(t[2], list) and term_has_fn(t[2]))
    if k == "call":
        return term_has_fn(t[1]) or any(isinstance(a, list) and term_has_fn(a) for a in t[3])
    return False


def base_vars_of_cond(c, spec):
    subs = {d["name"] for d in spec.get("derived", []) if d["kind"] == "sub"}
    names = closure_vars(cond_vars(c), spec)
    base = {v["name"] for v in spec["vars"]}
    return {n for n in names if n in base}, {n for n in names if n in subs}


def or_form(c, spec):
    """'elseif' when both sides range over the same variables, else 'union' (krrood's rule)."""
    lb, ls = base_vars_of_cond(c[1], spec)
    rb, rs = base_vars_of_cond(c[2], spec)
    if ls or rs:
        return "union"
    return "elseif" if lb == rb else "union"


def features(spec):
    f = Counter()

    def walk(c, neg, depth):
        k = c[0]
        if k == "or":
            form = or_form(c, spec)
            f[form] += 1
            if neg:
                f[form + "_under_not"] += 1
            walk(c[1], neg, depth + 1)
            walk(c[2], neg, depth + 1)
        elif k == "and":
            f["and"] += 1
            if neg:
                f["and_under_not"] += 1
            walk(c[1], neg, depth + 1)
            walk(c[2], neg, depth + 1)
        elif k == "not":
            f["not"] += 1
            walk(c[1], True, depth + 1)
        elif k in ("exists", "forall"):
            f[k] += 1
            if neg:
                f[k + "_under_not"] += 1
            walk(c[2], neg, depth + 1)
        else:
            f["atom:" + k] += 1
        f["depth"] = max(f["depth"], depth)

    if spec.get("cond"):
        walk(spec["cond"], False, 0)
    for d in spec.get("derived", []):
        f["derived:" + d["kind"]] += 1
        if d["kind"] == "sub" and d.get("cond"):
            walk(d["cond"], False, 1)
    f["nvars"] = len(spec["vars"])
    f["nselect"] = len(spec["select"])
    f["mode:" + spec["mode"]] = 1
    return f


def skeleton(spec):
    """canonical shape: condition skeleton with variable names kept, literals dropped,
    plus domain-size signature and selection shape"""

    def sk_t(t):
        k = t[0]
        if k == "var":
            return t[1]
        if k == "attr":
            return sk_t(t[1]) + "." + t[2]
        if k == "idx":
            return sk_t(t[1]) + ("[" + sk_t(t[2]) + "]" if isinstance(t[2], list) else "[]")
        if k == "call":
            return sk_t(t[1]) + "." + t[2] + "(" + ",".join(sk_t(a) for a in t[3] if isinstance(a, list)) + ")"
        if k == "lit":
            return "#"
        if k == "fn":
            return "fn(" + ",".join(sk_t(a) for a in t[2].values()) + ")"
        return "?"

    def sk(c):
        k = c[0]
        if k == "cmp":
            return f"({sk_t(c[2])}{c[1]}{sk_t(c[3])})"
        if k in ("in", "contains"):
            return f"{k}({sk_t(c[1])},{sk_t(c[2])})"
        if k == "truth":
            return f"T({sk_t(c[1])})"
        if k == "pred":
            return c[1] + "(" + ",".join(sk_t(t) for t in c[2]) + ")"
        if k == "hastype":
            return f"is({sk_t(c[1])})"
        if k in ("and", "or"):
            return f"{k}[{sk(c[1])},{sk(c[2])}]"
        if k == "not":
            return f"!{sk(c[1])}"
        return f"{k}:{c[1]}[{sk(c[2])}]"

    doms = ",".join(f"{v['name']}:{v['type']}{min(len(v.get('vals', v.get('dom'))), 3)}{v['kind'][0]}" for v in spec["vars"])
    der = ",".join(f"{d['name']}={d['kind']}" for d in spec.get("derived", []))
    return f"{spec['mode']}|{doms}|{der}|{sk(spec['cond']) if spec.get('cond') else '-'}|" + ",".join(
        sk_t(t) for t in spec["select"])


# --------------------------------------------------------------------------- builder
class Built:
    pass


def build(spec, m, objs=None, domain_factory=None):
    """Build real krrood objects.  Returns Built with .query, .V (name->variable), .sel (krrood exprs)"""
    from krrood.entity_query_language import entity as E
    from krrood.entity_query_language.quantify_entity import an
    from krrood.entity_query_language.predicate import HasType
    from krrood.entity_query_language import symbolic as S
    objs = objs if objs is not None else make_world(spec, m)
    V = {}

    def mk_domain(v):
        items = list(v["vals"]) if v["type"] in ("int", "obj") else [objs[i] for i in v["dom"]]
        if domain_factory is not None:
            return domain_factory(v, items)
        return iter(items) if v["kind"] == "gen" else items

    def mk_var(v):
        T = int if v["type"] == "int" else object if v["type"] == "obj" else getattr(m, v["type"])
        return E.let(T, mk_domain(v), name=v["name"])

    shared = {} if spec.get("share_terms") else None

    def bt(t):
        # share_terms: the same attribute / index / call expression OBJECT is used wherever the same term is written
        # (flag = x.flag; ... flag == False, flag ...) instead of a fresh expression per occurrence
        if shared is not None and t[0] in ("attr", "idx", "call"):
            key = json.dumps(t, sort_keys=True, default=repr)
            if key not in shared:
                shared[key] = bt_(t)
            return shared[key]
        return bt_(t)

    def bt_(t):
        k = t[0]
        if k == "var":
            return V[t[1]]
        if k == "attr":
            return getattr(bt(t[1]), t[2])
        if k == "idx":
            return bt(t[1])[bt(t[2]) if isinstance(t[2], list) else t[2]]
        if k == "call":
            return getattr(bt(t[1]), t[2])(*[bt(a) if isinstance(a, list) else a for a in t[3]])
        if k == "lit":
            if isinstance(t[1], list) and spec.get("oneshot_literals"):
                # the collection is written into the query as a one-shot iterable (a generator): the answers are those
                # of the same items in a list, however often the evaluation comes back to it
                return (item for item in list(t[1]))
            return t[1]
        if k == "fn":
            return getattr(m, t[1])(**{kw: bt(a) for kw, a in t[2].items()})
        raise ValueError(t)

    def bc(c):
        k = c[0]
        if k == "cmp":
            return S.Comparator(bt(c[2]), bt(c[3]), OPS[c[1]])
        if k == "in":
            return E.in_(bt(c[1]), bt(c[2]))
        if k == "contains":
            return E.contains(bt(c[1]), bt(c[2]))
        if k == "truth":
            return bt(c[1])
        if k == "pred":
            return getattr(m, c[1])(*[bt(t) for t in c[2]])
        if k == "hastype":
            return HasType(bt(c[1]), getattr(m, c[2]))
        if k == "and":
            return E.and_(bc(c[1]), bc(c[2]))
        if k == "or":
            return E.or_(bc(c[1]), bc(c[2]))
        if k == "not":
            return E.not_(bc(c[1]))
        if k == "exists":
            return E.exists(V[c[1]], bc(c[2]))
        if k == "forall":
            return E.for_all(V[c[1]], bc(c[2]))
        raise ValueError(c)

    for v in spec["vars"]:
        V[v["name"]] = mk_var(v)
    for d in spec.get("derived", []):
        if d["kind"] == "flat":
            V[d["name"]] = E.flatten(bt(d["of"]))
        else:
            sv = mk_var(d["var"])
            V[d["var"]["name"]] = sv
            conds = [bc(d["cond"])] if d.get("cond") else []
            V[d["name"]] = an(E.entity(sv, *conds))
    sel = [bt(t) for t in spec["select"]]
    conds = [bc(spec["cond"])] if spec.get("cond") else []
    b = Built()
    b.objs, b.V, b.sel = objs, V, sel
    if spec["mode"] == "entity":
        b.desc = E.entity(sel[0], *conds)
    else:
        b.desc = E.set_of(sel, *conds)
    b.query = an(b.desc)
    return b


def row_of(result, b, spec):
    if spec["mode"] == "entity":
        return (result,)
    out = []
    for e in b.sel:
        try:
            out.append(result[e])
        except KeyError:
            # a selected sub-query is stored under the sub-query expression itself
            hit = [v for k, v in result.data.items() if k is e]
            if not hit:
                raise
            out.append(getattr(hit[0], "value", hit[0]))
    return tuple(out)


def canon_val(v, idmap):
    if id(v) in idmap:
        return ("o", idmap[id(v)])
    if isinstance(v, (list, tuple)):
        return ("l", tuple(canon_val(x, idmap) for x in v))
    if isinstance(v, (bool, int, float, str)) or v is None:
        return ("v", repr(v))
    return ("?", repr(v))


def evaluate_real(spec, m, objs=None):
    """-> (rows (list of canonical tuples), exception or None)"""
    b = build(spec, m, objs)
    idmap = {id(o): i for i, o in enumerate(b.objs)}
    rows = []
    try:
        for r in b.query.evaluate():
            rows.append(tuple(canon_val(v, idmap) for v in row_of(r, b, spec)))
    except Exception as e:  # krrood raised during evaluation
        return rows, e
    return rows, None


def evaluate_again_after(spec, m, objs, change):
    """the SAME query object evaluated, the world changed in place by change(objs), and evaluated again
    -> (rows of the second evaluation, exception or None)"""
    b = build(spec, m, objs)
    idmap = {id(o): i for i, o in enumerate(b.objs)}
    try:
        for _ in b.query.evaluate():
            pass
    except Exception as e:
        return [], e
    change(objs)
    rows = []
    try:
        for r in b.query.evaluate():
            rows.append(tuple(canon_val(v, idmap) for v in row_of(r, b, spec)))
    except Exception as e:
        return rows, e
    return rows, None


# --------------------------------------------------------------------------- oracle
class OracleError(Exception):
    """the plain-Python reading itself raises (generator produced an ill-typed case)"""


def oracle(spec, m, objs=None, mode="total", unknown_vars=()):
    """Brute-force evaluation.  Returns list of canonical rows (multiset, one per satisfying
    assignment of the outer variables).

    mode="total": classical total-assignment semantics.
    mode="kleene": variables in unknown_vars (empty ranges) are dropped from the enumeration and
      every atom mentioning them is 'unknown' (None); a row needs the condition to be True.
    """
    objs = objs if objs is not None else make_world(spec, m)
    idmap = {id(o): i for i, o in enumerate(objs)}
    base = {v["name"]: v for v in spec["vars"]}
    derived = {d["name"]: d for d in spec.get("derived", [])}
    for d in spec.get("derived", []):
        if d["kind"] == "sub":
            base[d["var"]["name"]] = d["var"]
    unknown = set(unknown_vars)
    kle = mode in ("kleene", "nothing")
    # mode="nothing": like kleene, but an atom about a variable without values produces NO result instead of an unknown
    # one, and the operators treat "no result" as krrood's operators do: a conjunction stops there, a disjunction lets
    # its right side decide, a negation has nothing to negate
    nothing = mode == "nothing"

    def rng_of(name, A):
        if name in derived:
            d = derived[name]
            if d["kind"] == "flat":
                return list(et(d["of"], A))
            # sub query: solutions of the inner query (one per satisfying inner assignment)
            inner = d["var"]
            out = []
            for o in rng_of(inner["name"], A):
                A2 = dict(A)
                A2[inner["name"]] = o
                if (not d.get("cond")) or ec(d["cond"], A2) is True:
                    out.append(o)
            return out
        v = base[name]
        # the identical object twice in a domain is one candidate value
        if v["type"] in ("int", "obj"):
            return list({id(x): x for x in v["vals"]}.values())
        T = getattr(m, v["type"])
        return [objs[i] for i in dict.fromkeys(v["dom"]) if isinstance(objs[i], T)]

    def et(t, A):
        k = t[0]
        if k == "var":
            return A[t[1]]
        if k == "attr":
            return getattr(et(t[1], A), t[2])
        if k == "idx":
            return et(t[1], A)[et(t[2], A) if isinstance(t[2], list) else t[2]]
        if k == "call":
            return getattr(et(t[1], A), t[2])(*[et(a, A) if isinstance(a, list) else a for a in t[3]])
        if k == "lit":
            return t[1]
        if k == "fn":
            f = getattr(m, t[1])
            f = getattr(f, "__wrapped__", f)
            return f(**{kw: et(a, A) for kw, a in t[2].items()})
        raise ValueError(t)

    def mentions_unknown(names, A=None):
        u = unknown | (A.get(None, frozenset()) if A else frozenset())
        return bool(u) and bool(u & closure_vars(names, spec))

    def ec(c, A):
        k = c[0]
        s_local = term_local.get(id(c))
        if s_local is not None and s_local not in A:
            # a nested sub-query used as a term of this one atom: the atom holds iff an answer of the sub-query makes it
            # hold (a sub-query without answers: it does not hold - and the operators around it go on from there)
            if kle and mentions_unknown({s_local}, A):
                return None
            return any(ec(c, {**A, s_local: val}) is True for val in rng_of(s_local, A))
        if k == "cmp":
            if kle and mentions_unknown(term_vars(c[2]) | term_vars(c[3]), A):
                return None
            return bool(OPS[c[1]](et(c[2], A), et(c[3], A)))
        if k == "in":
            if kle and mentions_unknown(term_vars(c[1]) | term_vars(c[2]), A):
                return None
            return et(c[1], A) in et(c[2], A)
        if k == "contains":
            if kle and mentions_unknown(term_vars(c[1]) | term_vars(c[2]), A):
                return None
            return et(c[2], A) in et(c[1], A)
        if k == "truth":
            if kle and mentions_unknown(term_vars(c[1]), A):
                return None
            return bool(et(c[1], A))
        if k == "pred":
            if kle and mentions_unknown(cond_vars(c), A):
                return None
            return bool(getattr(m, c[1])(*[et(t, A) for t in c[2]])())
        if k == "hastype":
            if kle and mentions_unknown(term_vars(c[1]), A):
                return None
            return isinstance(et(c[1], A), getattr(m, c[2]))
        if k == "and" and nothing:
            l = ec(c[1], A)
            return l if l is not True else ec(c[2], A)
        if k == "or" and nothing:
            l = ec(c[1], A)
            return True if l is True else ec(c[2], A)
        if k == "and":
            l = ec(c[1], A)
            if l is False:
                return False
            r = ec(c[2], A)
            if r is False:
                return False
            return None if (l is None or r is None) else True
        if k == "or":
            l = ec(c[1], A)
            if l is True:
                return True
            r = ec(c[2], A)
            if r is True:
                return True
            return None if (l is None or r is None) else False
        if k == "not":
            v = ec(c[1], A)
            return None if v is None else (not v)
        if k in ("exists", "forall"):
            loc = locals_of[id(c)]
            if k == "forall":
                u = c[1]
                if kle and u not in A and u not in derived and not rng_of(u, A):
                    # the counterfactual readings: the variable has no values; a condition that is decided without
                    # looking at it (and_ / or_ short-circuit) decides the quantifier
                    return ec(c[2], {**A, None: A.get(None, frozenset()) | {u}}) is not False
                for val in rng_of(u, A):
                    A2 = dict(A)
                    A2[u] = val
                    if ec(c[2], A2) is not True:
                        return False
                return True
            for A2 in assignments(loc, A):
                if ec(c[2], A2) is True:
                    return True
            if kle and any(n not in A and not rng_of(n, A) for n in loc if n not in derived):
                # the counterfactual readings, inside a quantifier: its variable has no values, the atoms about it are
                # unknown / produce nothing, an or_ / and_ in the condition lets its other side decide
                return ec(c[2], {**A, None: A.get(None, frozenset()) | {n for n in loc if n not in A}}) is True
            return False
        raise ValueError(c)

    def order(names):
        """declaration order (base vars first in declared order, then derived in declared order)"""
        decl = [v["name"] for v in spec["vars"]]
        for d in spec.get("derived", []):
            if d["kind"] == "sub":
                decl.append(d["var"]["name"])
            decl.append(d["name"])
        return [n for n in decl if n in names]

    def assignments(names, A0):
        names = order(names)

        def rec(i, A):
            if i == len(names):
                yield A
                return
            n = names[i]
            if n in A:
                yield from rec(i + 1, A)
                return
            vals = rng_of(n, A)
            if kle and not vals and A0 == {}:
                A2 = dict(A)
                A2[None] = A.get(None, frozenset()) | {n}
                yield from rec(i + 1, A2)
                return
            for val in vals:
                A2 = dict(A)
                A2[n] = val
                yield from rec(i + 1, A2)

        yield from rec(0, dict(A0))

    # which variables are local to a quantifier node
    locals_of = {}
    occurrences = Counter()

    def count_occ(c, inside):
        k = c[0]
        if k in ("exists", "forall"):
            inner = closure_vars(cond_vars(c), spec)
            locals_of[id(c)] = (c, inner)
            for n in inner:
                occurrences[(n, id(c))] += 1
            count_occ(c[2], inside + [id(c)])
        elif k in ("and", "or"):
            count_occ(c[1], inside)
            count_occ(c[2], inside)
        elif k == "not":
            count_occ(c[1], inside)

    outer_names = set()
    for t in spec["select"]:
        outer_names |= closure_vars(term_vars(t), spec)

    def outer_of(c):
        k = c[0]
        if k in ("exists", "forall"):
            return set()
        if k in ("and", "or"):
            return outer_of(c[1]) | outer_of(c[2])
        if k == "not":
            return outer_of(c[1])
        return closure_vars(cond_vars(c), spec)

    # nested sub-queries that are a term of exactly one atom and are not selected (see ec)
    term_local = {}

    def atoms_of(c):
        if c[0] in ("and", "or"):
            return atoms_of(c[1]) + atoms_of(c[2])
        if c[0] == "not":
            return atoms_of(c[1])
        if c[0] in ("exists", "forall"):
            return atoms_of(c[2])
        return [c]

    if spec.get("cond"):
        for d in spec.get("derived", []):
            if d["kind"] == "sub" and d["name"] not in outer_names:
                mentioning = [a for a in atoms_of(spec["cond"]) if d["name"] in cond_vars(a)]
                if len(mentioning) == 1:
                    term_local[id(mentioning[0])] = d["name"]

    if spec.get("cond"):
        count_occ(spec["cond"], [])
        outer_names |= outer_of(spec["cond"])
    outer_names -= set(term_local.values())
    # sub-query inner variables are never outer
    for d in spec.get("derived", []):
        if d["kind"] == "sub":
            outer_names.discard(d["var"]["name"])
    # resolve locals: variables of a quantifier node that are not outer
    for key, (c, inner) in list(locals_of.items()):
        loc = {n for n in inner if n not in outer_names}
        for d in spec.get("derived", []):
            if d["kind"] == "sub":
                loc.discard(d["var"]["name"])
        if c[0] == "forall":
            loc.discard(c[1])
        locals_of[key] = loc
    outer_names -= unknown
    rows = []
    try:
        for A in assignments(outer_names, {}):
            if spec.get("cond"):
                if ec(spec["cond"], A) is not True:
                    continue
            if kle and mentions_unknown(set().union(*[term_vars(t) for t in spec["select"]]), A):
                continue
            rows.append(tuple(canon_val(et(t, A), idmap) for t in spec["select"]))
    except (AttributeError, TypeError, IndexError, KeyError, ValueError) as e:
        raise OracleError(f"{type(e).__name__}: {e}")
    return rows


def empty_range_vars(spec, m, objs=None):
    """base variables whose (type-filtered) domain is empty"""
    objs = objs if objs is not None else make_world(spec, m)
    out = set()
    allv = list(spec["vars"]) + [d["var"] for d in spec.get("derived", []) if d["kind"] == "sub"]
    for v in allv:
        if v["type"] in ("int", "obj"):
            if not v["vals"]:
                out.add(v["name"])
            continue
        T = getattr(m, v["type"])
        if not any(isinstance(objs[i], T) for i in v["dom"]):
            out.add(v["name"])
    return out
