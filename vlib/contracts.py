"""Runtime contracts (icontract) the harness attaches to real krrood functions.

Every condition counts its evaluations in ``EVALS`` so a check can tell whether
the contract was reached at all (zero evaluations = inconclusive, not "held").
"""
from __future__ import annotations

from collections import Counter

EVALS = Counter()
BROKEN = []  # (name, detail) recorded instead of raising inside generators where noted


class ContractBroken(AssertionError):
    pass


def _mk_error(name):
    def error(self, number_of_solutions, done):
        return ContractBroken(
            f"{name}({self!r}).assert_satisfaction({number_of_solutions}, done={done}) returned normally")
    return error


def install_quantifier_contracts():
    """Post-conditions on the four constraint classes: returning normally from
    ``assert_satisfaction(n, q, done)`` is only allowed when n is consistent with the
    constraint (upper bounds at any time, lower bounds once ``done``)."""
    import icontract
    from krrood.entity_query_language import result_quantification_constraint as rqc

    def at_most_ok(self, number_of_solutions, done):
        EVALS["AtMost.assert_satisfaction"] += 1
        return number_of_solutions <= self.value

    def at_least_ok(self, number_of_solutions, done):
        EVALS["AtLeast.assert_satisfaction"] += 1
        return (not done) or number_of_solutions >= self.value

    def exactly_ok(self, number_of_solutions, done):
        EVALS["Exactly.assert_satisfaction"] += 1
        return number_of_solutions <= self.value and ((not done) or number_of_solutions == self.value)

    def range_ok(self, number_of_solutions, done):
        EVALS["Range.assert_satisfaction"] += 1
        return number_of_solutions <= self.at_most.value and (
            (not done) or number_of_solutions >= self.at_least.value)

    for cls, cond in ((rqc.AtMost, at_most_ok), (rqc.AtLeast, at_least_ok),
                      (rqc.Exactly, exactly_ok), (rqc.Range, range_ok)):
        f = cls.__dict__.get("assert_satisfaction")
        if f is None or getattr(f, "_verif_wrapped", False):
            continue
        g = icontract.ensure(cond, error=_mk_error(cls.__name__))(f)
        g._verif_wrapped = True
        cls.assert_satisfaction = g
