"""Logging twin of vlib.eqlmodel for the laziness check (C10): every read of user data, every
method / predicate / function call and every element pulled from a domain appends to LOG."""
from __future__ import annotations

from dataclasses import dataclass

from dataclasses import field
from typing import List

from krrood.entity_query_language.predicate import Predicate, Symbol, symbolic_function

LOG = []


def _logged(attr):
    def get(self):
        LOG.append(("get", self.name, attr))
        return self.__dict__["_" + attr]

    def set_(self, v):
        self.__dict__["_" + attr] = v

    return property(get, set_)


class P:
    a = _logged("a")
    b = _logged("b")
    items = _logged("items")
    kids = _logged("kids")
    ref = _logged("ref")
    d = _logged("d")
    f = _logged("f")
    fs = _logged("fs")

    def __init__(self, a=0, b=0, items=None, kids=None, ref=None, d=None, name="", f=0.0, fs=frozenset()):
        self.__dict__["_f"], self.__dict__["_fs"] = f, fs
        self.name = name
        self.a, self.b = a, b
        self.items = items if items is not None else []
        self.kids = kids if kids is not None else []
        self.ref = ref
        self.d = d if d is not None else {}

    def __getattr__(self, n):
        # only reached for names the object does not have: somebody probes the user's object (hasattr(obj, "__iter__"), ...)
        LOG.append(("probe", self.__dict__.get("name"), n))
        raise AttributeError(n)

    def m(self, k):
        LOG.append(("call", self.name, "m"))
        return self.__dict__["_a"] + k

    def pos(self):
        LOG.append(("call", self.name, "pos"))
        return self.__dict__["_a"] > 0

    def __repr__(self):
        return f"L{type(self).__name__}<{self.name}>"


class Q(P):
    pass


@dataclass(eq=False)
class LS(Symbol):
    """a Symbol dataclass whose public fields log every read (for match patterns and domain-less variables)"""
    name: str = ""
    a: int = 0
    parts: List["LS"] = field(default_factory=list)

    def __getattribute__(self, n):
        if n in ("a", "parts"):
            LOG.append(("get", object.__getattribute__(self, "name"), n))
        return object.__getattribute__(self, n)

    def __repr__(self):
        return "LS<%s>" % object.__getattribute__(self, "name")


@dataclass(eq=False)
class LS2(LS):
    pass


@dataclass(eq=False)
class V:
    tag: str
    p: object
    q: object = None


@dataclass(eq=False)
class BothPositive(Predicate):
    x: object
    y: object

    def __call__(self):
        LOG.append(("pred", "BothPositive", self.x.name, self.y.name))
        return self.x.__dict__["_a"] > 0 and self.y.__dict__["_a"] > 0


@dataclass(eq=False)
class AGreater(Predicate):
    x: object
    k: int

    def __call__(self):
        LOG.append(("pred", "AGreater", self.x.name))
        return self.x.__dict__["_a"] > self.k


@symbolic_function
def sum_ab(x, y=None):
    LOG.append(("fn", "sum_ab", x.name, y.name if y is not None else None))
    return x.__dict__["_a"] + (y.__dict__["_b"] if y is not None else 0) + 1


class LoggedCollection:
    """a user collection (not a generator): asking it for its iterator, its length or its truth value is user code"""

    def __init__(self, name, items):
        self.name, self.items = name, items

    def __iter__(self):
        LOG.append(("iter", self.name))         # logged when the iterator is asked for, not when it is first advanced
        return self._walk()

    def _walk(self):
        for i, it in enumerate(self.items):
            LOG.append(("pull", self.name, i))
            yield it

    def __len__(self):
        LOG.append(("len", self.name))
        return len(self.items)

    def __bool__(self):
        LOG.append(("bool", self.name))
        return True


def logging_domain(v, items):
    if v.get("domain_form") == "collection":
        return LoggedCollection(v["name"], items)

    def gen():
        for i, it in enumerate(items):
            LOG.append(("pull", v["name"], i))
            yield it
    return gen()


def reset_eql_process_state():
    from krrood.entity_query_language import symbolic as S
    S.SymbolicExpression._symbolic_expression_stack_.clear()
