"""Parent process of a check: shards cases over worker subprocesses, merges what
the monitors observed, classifies failures against known-findings.txt, writes the
evidence file and decides the three-valued verdict."""
from __future__ import annotations

import argparse
import importlib
import json
import os
import shutil
import subprocess
import sys
import tempfile
import time
from collections import Counter

from . import common

NCPU = min(16, os.cpu_count() or 4)


def ensure_deps():
    """icontract / deal live in the git-ignored .deps; install them offline when missing."""
    marker = os.path.join(common.DEPS, "icontract")
    if os.path.isdir(marker):
        return
    os.makedirs(common.DEPS, exist_ok=True)
    subprocess.run(
        [common.PY, "-m", "pip", "install", "--quiet", "--no-index", "--find-links",
         "/opt/veriftools/wheels", "--target", common.DEPS, "icontract", "deal"],
        check=False, stdout=subprocess.DEVNULL, stderr=subprocess.DEVNULL,
        env={**os.environ, "PIP_NO_INDEX": "1"},
    )


def worker_env(hashseed):
    env = dict(os.environ)
    pp = [common.VERIF]
    src = common.krrood_src()
    if src != "/repo/src":
        pp.append(src)
    if env.get("PYTHONPATH"):
        pp.append(env["PYTHONPATH"])
    env["PYTHONPATH"] = os.pathsep.join(pp)
    env["PYTHONHASHSEED"] = str(hashseed)
    env["PYTHONDONTWRITEBYTECODE"] = "1"
    env.setdefault("CODE_IAI_KRROOD_VERIF", "1")
    return env


def spawn(check, tier, seed, shard, nshards, cases, out, hashseed, extra=None, replay=None,
          witnesses=False, reach=False, dev=False):
    cmd = [common.PY, "-X", "faulthandler"]
    if dev:
        cmd += ["-X", "dev", "-W", "ignore"]
    cmd += ["-m", "vlib.worker", "--check", check, "--tier", tier, "--seed", str(seed),
            "--shard", str(shard), "--nshards", str(nshards), "--cases", str(cases), "--out", out,
            "--extra", json.dumps(extra or {})]
    if replay:
        cmd += ["--replay", replay]
    if witnesses:
        cmd += ["--witnesses"]
    if reach:
        cmd += ["--reach"]
    errf = open(out + ".err", "w")
    return subprocess.Popen(cmd, cwd=common.VERIF, env=worker_env(hashseed), stdout=errf, stderr=errf)


def run_check(check: str, tier: str, seed: int, replay: str | None = None) -> int:
    t0 = time.time()
    ensure_deps()
    sys.path.insert(0, common.VERIF)
    mod = importlib.import_module("checks." + check.lower())
    plan = mod.plan(tier)
    known, fixed = common.load_known()
    known = known.get(check, {})
    fixed = fixed.get(check, {})
    work = tempfile.mkdtemp(prefix=f"verif-{check}-", dir=os.environ.get("VERIF_WORK", None))
    inconclusive = []
    try:
        if replay:
            out = os.path.join(work, "replay.json")
            p = spawn(check, tier, seed, 0, 1, 0, out, plan.get("hashseeds", [0])[0], replay=replay)
            p.wait(timeout=plan.get("shard_timeout", 900))
            doc = json.load(open(out))
            res = doc.get("replay_result", {})
            print(json.dumps(res, indent=1, default=repr)[:4000])
            if res.get("status") == "fail" and res.get("key") not in known:
                print(f"VIOLATION property={check} replay={replay}")
                return 1
            return 0

        nshards = min(plan.get("shards", NCPU), NCPU)
        cases = plan["cases"]
        hashseeds = plan.get("hashseeds", [0])
        procs = []
        # witnesses of known / fixed findings
        wout = os.path.join(work, "witness.json")
        procs.append(("witness", wout, spawn(check, tier, seed, 0, 1, 0, wout, hashseeds[0], witnesses=True)))
        for s in range(nshards):
            out = os.path.join(work, f"shard{s}.json")
            hs = hashseeds[s % len(hashseeds)]
            procs.append((f"shard{s}", out, spawn(check, tier, seed, s, nshards, cases, out, hs,
                                                  reach=(s == 0), dev=(s == 1 and plan.get("dev_shard", True)))))
        deadline = time.time() + plan.get("shard_timeout", 900)
        docs, wdoc = [], None
        for name, out, p in procs:
            try:
                rc = p.wait(timeout=max(1.0, deadline - time.time()))
            except subprocess.TimeoutExpired:
                p.kill()
                p.wait()
                inconclusive.append(f"{name}:watchdog")
                continue
            try:
                doc = json.load(open(out))
            except Exception:
                err = open(out + ".err").read()[-1500:] if os.path.exists(out + ".err") else ""
                inconclusive.append(f"{name}:crashed rc={rc} {err!r}")
                continue
            if not doc.get("complete"):
                inconclusive.append(f"{name}:incomplete {doc.get('setup_error') or doc.get('gen_error') or ''}"[:1500])
            if doc.get("gen_error"):
                inconclusive.append(f"{name}:generator-error {doc['gen_error'][-600:]}")
            if doc.get("finish_error"):
                inconclusive.append(f"{name}:finish-error {doc['finish_error'][-600:]}")
            if name == "witness":
                wdoc = doc
            else:
                docs.append(doc)

        evaluations = sum(d["evaluations"] for d in docs)
        exhaustive_cases = sum(d.get("exhaustive_cases", 0) for d in docs)
        shapes = set()
        counters = Counter()
        reach = Counter()
        samples, failures = [], []
        timeouts = skips = nontrivial = 0
        for d in docs:
            shapes.update(d["shapes"])
            common.merge_counters(counters, d["counters"])
            common.merge_counters(reach, d.get("reach", {}))
            samples.extend(d["samples"][:1])
            failures.extend(d["failures"])
            timeouts += d["timeouts"]
            skips += d["skips"]
            nontrivial += d["nontrivial"]

        # optional extra workload run by the parent (e.g. the repository's own tests under the harness contracts)
        pe = getattr(mod, "parent_extra", None)
        if pe is not None:
            try:
                efails, ecounters = pe(tier)
                failures.extend(efails)
                common.merge_counters(counters, ecounters)
            except Exception as e:  # the extra workload could not run: not a verdict about the property
                inconclusive.append(f"parent-extra:{type(e).__name__}:{e}"[:300])

        # classify
        hits = Counter()
        violations = []
        for f in failures:
            k = f.get("key")
            if k == "__timeout__":
                continue
            if k is not None and k in known:
                hits[k] += 1
            else:
                violations.append(f)
        lines = []
        witness_status = {}
        wres = (wdoc or {}).get("witness", {})
        for key, text in known.items():
            w = wres.get(key)
            still = bool(w and w.get("status") == "fail")
            witness_status[key] = "still-fails" if still else ("no-witness" if w is None else "not-reproduced")
            if still or hits[key]:
                lines.append(f"KNOWN-FINDING: property={check} key={key} hits={hits[key]} witness={witness_status[key]} :: {text}")
            else:
                lines.append(f"note: property={check} key={key} listed finding not reproduced on this tree (witness {witness_status[key]}, 0 random hits)")
        # witnesses that are not listed as known (fixed ones, or regression witnesses) must pass
        for key, w in wres.items():
            if key in known:
                continue
            if w.get("status") == "fail" and (w.get("key") not in known):
                violations.append({"idx": f"witness:{key}", "spec": mod.witnesses()[key], "kind": w.get("kind"),
                                   "key": w.get("key"), "detail": w.get("detail")})
            elif w.get("status") == "timeout":
                inconclusive.append(f"witness:{key}:timeout")

        # thresholds
        if timeouts > max(3, evaluations // 200):
            inconclusive.append(f"too-many-case-timeouts:{timeouts}")
        if len(shapes) < plan.get("min_nontrivial", 2):
            inconclusive.append(f"too-few-distinct-nontrivial:{len(shapes)}<{plan.get('min_nontrivial', 2)}")
        for cname, cmin in plan.get("min_counters", {}).items():
            if counters.get(cname, 0) < cmin:
                inconclusive.append(f"monitor-not-reached:{cname}={counters.get(cname, 0)}<{cmin}")

        wall = time.time() - t0
        anchors = getattr(mod, "ANCHORS", [])
        reach_report = {a: sum(v for k, v in reach.items() if k.endswith(a)) for a in anchors}
        coverage = {
            "evaluations": evaluations,
            "distinct_nontrivial": len(shapes),
            "nontrivial_cases": nontrivial,
            "rule": mod.RULE,
            "samples": samples[:4] or [{"note": "no non-trivial passing sample recorded"}],
            "exhaustive": bool(getattr(mod, "EXHAUSTIVE", False)) and exhaustive_cases > 0,
            "exhaustive_cases": exhaustive_cases,
            "monitor_counters": dict(sorted(counters.items())),
            "known_finding_hits": dict(hits),
            "known_finding_witnesses": witness_status,
            "fixed_regression_witnesses": {k: wres.get(k, {}).get("status") for k in wres if k not in known},
            "case_timeouts": timeouts,
            "skipped_cases": skips,
            "inconclusive_reasons": inconclusive,
            "anchor_function_hits_shard0": reach_report,
            "krrood_functions_reached_shard0": len(reach),
            "tree_hash": common.tree_hash(),
            "krrood_src": common.krrood_src(),
            "shards": len(docs),
            "hashseeds": hashseeds,
        }
        extra_cov = getattr(mod, "coverage_extra", None)
        if extra_cov:
            coverage.update(extra_cov(counters, evaluations))
        ev = {
            "property_id": check,
            "tier": tier,
            "seed": seed,
            "level": mod.LEVEL,
            "coverage": coverage,
            "assumptions": getattr(mod, "ASSUMPTIONS", []),
            "wall_s": round(wall, 2),
            "violations": len(violations),
        }
        # evidence/<ID>.json describes runs against /repo itself; a run against another tree (a scratch copy with a
        # deliberate change, VERIF_KRROOD_SRC) leaves its description next to the replay files (not under version control)
        evidence_dir = os.path.join(common.VERIF, "evidence")
        if os.path.realpath(common.krrood_src()) != os.path.realpath("/repo/src"):
            evidence_dir = os.path.join(common.VERIF, "evidence", "replay", "_other_trees")
        os.makedirs(evidence_dir, exist_ok=True)
        with open(os.path.join(evidence_dir, f"{check}.json"), "w") as fh:
            json.dump(ev, fh, indent=1, default=repr, sort_keys=True)

        for ln in lines:
            print(ln)
        print(f"{check} tier={tier} seed={seed} evaluations={evaluations} distinct_nontrivial={len(shapes)} "
              f"known_hits={sum(hits.values())} violations={len(violations)} timeouts={timeouts} wall={wall:.1f}s")
        if violations:
            rdir = os.path.join(common.VERIF, "evidence", "replay", check)
            os.makedirs(rdir, exist_ok=True)
            seen = set()
            for v in violations[:25]:
                h = common.shape_hash(v["spec"])
                if h in seen:
                    continue
                seen.add(h)
                path = os.path.join(rdir, h + ".json")
                with open(path, "w") as fh:
                    json.dump({"property": check, "spec": v["spec"], "kind": v.get("kind"), "key": v.get("key"),
                               "detail": v.get("detail"), "obs": v.get("obs"), "seed": seed, "tier": tier,
                               "idx": v.get("idx")}, fh, indent=1, default=repr)
                print(f"VIOLATION property={check} replay={path}")
                print(f"  kind={v.get('kind')} detail={str(v.get('detail'))[:300]}")
            return 1
        if inconclusive:
            for r in inconclusive:
                print(f"INCONCLUSIVE property={check} reason={r}")
            return 2
        return 0
    finally:
        shutil.rmtree(work, ignore_errors=True)


def main(argv=None):
    ap = argparse.ArgumentParser(prog="vcheck")
    ap.add_argument("check")
    ap.add_argument("--tier", default=os.environ.get("VERIF_TIER", "quick"), choices=["quick", "thorough"])
    ap.add_argument("--seed", type=int, default=int(os.environ.get("VERIF_SEED", "0")))
    ap.add_argument("--replay", default=None)
    a = ap.parse_args(argv)
    return run_check(a.check.upper(), a.tier, a.seed, a.replay)


if __name__ == "__main__":
    sys.exit(main())
