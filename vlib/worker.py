"""Worker process: runs a slice of the cases of one check against the real krrood.

Protocol: one JSON document written to --out at the end (or partial on crash:
the parent treats a missing/invalid file as an inconclusive shard).
"""
from __future__ import annotations

import argparse
import faulthandler
import importlib
import json
import os
import sys
import time
import traceback
from collections import Counter

from . import common


def _assert_tree():
    import krrood

    root = common.krrood_src()
    got = os.path.abspath(krrood.__file__)
    if not got.startswith(root + os.sep):
        raise SystemExit(f"worker imports krrood from {got}, expected under {root}")


def _reach_start(counts: Counter):
    mon = getattr(sys, "monitoring", None)
    if mon is None:
        return False
    tool = 4
    try:
        mon.use_tool_id(tool, "verif-reach")
    except ValueError:
        return False

    def on_start(code, off):
        fn = code.co_filename
        if "/krrood/" not in fn:
            return mon.DISABLE
        counts[fn.rsplit("/krrood/", 1)[1] + ":" + code.co_qualname] += 1

    mon.register_callback(tool, mon.events.PY_START, on_start)
    mon.set_events(tool, mon.events.PY_START)
    return True


def run_one(mod, ctx, spec, timeout):
    """Run a single case; never raises (except KeyboardInterrupt)."""
    try:
        with common.Watchdog(timeout):
            res = mod.run(spec, ctx)
    except common.CaseTimeout:
        try:
            getattr(mod, "recover", lambda ctx: None)(ctx)
        except Exception:
            pass
        return {"status": "timeout"}
    except Exception as e:  # a harness bug or an escaped krrood exception the check did not classify
        try:
            getattr(mod, "recover", lambda ctx: None)(ctx)
        except Exception:
            pass
        return {
            "status": "fail",
            "kind": "harness-exception:" + type(e).__name__,
            "key": None,
            "detail": "".join(traceback.format_exception_only(type(e), e))[-400:]
            + " @ " + " <- ".join(f"{f.name}:{f.lineno}" for f in traceback.extract_tb(e.__traceback__)[-4:]),
        }
    res.setdefault("status", "ok")
    return res


def main(argv=None):
    ap = argparse.ArgumentParser()
    ap.add_argument("--check", required=True)
    ap.add_argument("--tier", default="quick")
    ap.add_argument("--seed", type=int, default=0)
    ap.add_argument("--shard", type=int, default=0)
    ap.add_argument("--nshards", type=int, default=1)
    ap.add_argument("--cases", type=int, default=0)
    ap.add_argument("--out", required=True)
    ap.add_argument("--replay", default=None)
    ap.add_argument("--witnesses", action="store_true")
    ap.add_argument("--reach", action="store_true")
    ap.add_argument("--extra", default="{}")
    a = ap.parse_args(argv)
    faulthandler.enable()
    t0 = time.time()
    if common.DEPS not in sys.path:
        sys.path.append(common.DEPS)
    _assert_tree()
    mod = importlib.import_module("checks." + a.check.lower())
    plan = mod.plan(a.tier)
    timeout = plan.get("case_timeout", 10.0)
    reach = Counter()
    reach_on = a.reach and _reach_start(reach)
    ctx = {"tier": a.tier, "seed": a.seed, "shard": a.shard, "nshards": a.nshards,
           "extra": json.loads(a.extra), "counters": Counter()}
    out = {"shard": a.shard, "evaluations": 0, "nontrivial": 0, "shapes": [], "samples": [],
           "failures": [], "counters": {}, "timeouts": 0, "skips": 0, "witness": {},
           "reach": {}, "complete": False}
    shapes = set()
    try:
        mod.setup(ctx)
    except Exception as e:
        out["setup_error"] = traceback.format_exc()[-1500:]
        json.dump(out, open(a.out, "w"), default=repr)
        return 3

    # everything imported so far is immortal for our purposes: keep it out of later gc passes
    import gc
    gc.collect()
    gc.freeze()

    def account(spec, res, idx):
        st = res.get("status", "ok")
        if st == "timeout":
            out["timeouts"] += 1
            if len(out["failures"]) < 50:
                out["failures"].append({"idx": idx, "spec": spec, "kind": "timeout", "key": "__timeout__"})
            return
        if st == "skip":
            out["skips"] += 1
            return
        out["evaluations"] += res.get("evaluations", 1)
        for sh, nt in res.get("shapes", ()):
            if nt:
                out["nontrivial"] += 1
                shapes.add(sh)
        if res.get("nontrivial"):
            out["nontrivial"] += 1
            if res.get("shape") is not None:
                shapes.add(res["shape"])
        if st == "fail":
            if len(out["failures"]) < 400:
                out["failures"].append({"idx": idx, "spec": spec, "kind": res.get("kind"),
                                        "key": res.get("key"), "detail": res.get("detail"),
                                        "obs": res.get("obs")})
            else:
                ctx["counters"]["failures_dropped"] += 1
                # keep unclassified ones at any cost
                if res.get("key") is None:
                    out["failures"].append({"idx": idx, "spec": spec, "kind": res.get("kind"),
                                            "key": None, "detail": res.get("detail")})
        elif len(out["samples"]) < 3 and res.get("nontrivial"):
            out["samples"].append({"spec": spec, "obs": res.get("obs")})

    if a.replay:
        doc = json.load(open(a.replay))
        spec = doc["spec"] if "spec" in doc else doc
        res = run_one(mod, ctx, spec, timeout * 10)
        account(spec, res, -1)
        out["replay_result"] = res
    elif a.witnesses:
        for key, spec in mod.witnesses().items():
            res = run_one(mod, ctx, spec, timeout * 10)
            out["witness"][key] = {"status": res.get("status"), "kind": res.get("kind"),
                                   "key": res.get("key"), "detail": res.get("detail")}
    else:
        # enumerated (exhaustive) part first, if the check has one
        ex = getattr(mod, "exhaustive", None)
        n_ex = 0
        if ex is not None:
            for j, spec in enumerate(ex(a.tier, ctx)):
                # the enumerated part is spread over the normal shards only (the -X dev shard is slow)
                if a.nshards > 1 and plan.get("dev_shard", True):
                    if a.shard == 1:
                        break
                    others = [s_ for s_ in range(a.nshards) if s_ != 1]
                    if others[j % len(others)] != a.shard:
                        continue
                elif j % a.nshards != a.shard:
                    continue
                res = run_one(mod, ctx, spec, timeout)
                account(spec, res, f"ex{j}")
                n_ex += 1
        out["exhaustive_cases"] = n_ex
        deadline = t0 + plan.get("shard_budget_s", 1e9)
        # the shard that runs under -X dev (debug allocator, ~10x slower) takes every 8th of its cases
        stride = a.nshards * (8 if sys.flags.dev_mode else 1)
        if sys.flags.dev_mode:
            ctx["counters"]["dev_mode_shard_cases_skipped"] += len(range(a.shard, a.cases, a.nshards)) - len(range(a.shard, a.cases, stride))
        for idx in range(a.shard, a.cases, stride):
            if time.time() > deadline:
                ctx["counters"]["budget_stop"] += 1
                break
            rng = common.case_rng(a.seed, a.check, idx)
            try:
                spec = mod.gen(rng, a.tier, ctx)
            except Exception:
                out["gen_error"] = traceback.format_exc()[-1500:]
                break
            res = run_one(mod, ctx, spec, timeout)
            account(spec, res, idx)
    fin = getattr(mod, "finish", None)
    if fin is not None:
        try:
            extra_fail = fin(ctx) or []
            for f in extra_fail:
                out["failures"].append(f)
        except Exception:
            out["finish_error"] = traceback.format_exc()[-1500:]
    out["shapes"] = sorted(shapes)
    out["counters"] = dict(ctx["counters"])
    if reach_on:
        out["reach"] = dict(reach)
    out["complete"] = True
    out["wall_s"] = time.time() - t0
    with open(a.out, "w") as fh:
        json.dump(out, fh, default=repr)
    return 0


if __name__ == "__main__":
    sys.exit(main())
