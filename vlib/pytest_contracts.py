"""pytest plugin: runs the repository's own tests with the harness contracts installed
(quantifier post-conditions, ClassDiagram immutability of read-only operations, SymbolGraph index audit).
Usage:  pytest -p vlib.pytest_contracts ...   (PYTHONPATH must contain /verif and /verif/.deps)
Writes a JSON summary to $VERIF_CONTRACT_REPORT."""
from __future__ import annotations

import json
import os
import sys

REPORT = {"contract_evaluations": {}, "broken": [], "tests": 0, "graph_audits": 0}


def pytest_configure(config):
    deps = os.path.join(os.path.dirname(os.path.dirname(os.path.abspath(__file__))), ".deps")
    if deps not in sys.path:
        sys.path.append(deps)
    from vlib import contracts
    contracts.install_quantifier_contracts()
    try:
        import checks.c17 as c17
        ctx = {}
        c17.setup(ctx)
        REPORT["c17_wrapped"] = ctx.get("wrapped", [])
    except Exception as e:  # pragma: no cover
        REPORT["c17_setup_error"] = repr(e)


def pytest_runtest_teardown(item):
    REPORT["tests"] += 1
    # audit the relation index of the symbol graph after every test
    try:
        from krrood.entity_query_language.symbol_graph import SymbolGraph
        sg = SymbolGraph()
        g = sg._instance_graph
        stale = 0
        for wf, pairs in sg._relation_index.items():
            for (s, t) in pairs:
                if not (g.has_node(s) and g.has_node(t) and g.has_edge(s, t)):
                    stale += 1
        REPORT["graph_audits"] += 1
        if stale:
            REPORT["broken"].append({"test": item.nodeid, "what": f"{stale} relation-index entries without an edge"})
    except Exception:
        pass


def pytest_runtest_logreport(report):
    if report.when == "call" and report.failed:
        txt = str(report.longrepr)
        if "ContractBroken" in txt or "Mutated" in txt:
            REPORT["broken"].append({"test": report.nodeid, "what": txt[-600:]})


def pytest_sessionfinish(session, exitstatus):
    from vlib import contracts
    REPORT["contract_evaluations"] = dict(contracts.EVALS)
    try:
        import checks.c17 as c17
        REPORT["contract_evaluations"]["ClassDiagram.read_only_ops"] = c17.EVALS["n"]
    except Exception:
        pass
    path = os.environ.get("VERIF_CONTRACT_REPORT")
    if path:
        with open(path, "w") as fh:
            json.dump(REPORT, fh)


def run_repo_tests_under_contracts(timeout=1500):
    """run the repository's test-suite (from the tree the check is pointed at) with the plugin; -> report dict"""
    import subprocess
    import tempfile
    from vlib import common
    import shutil
    src = common.krrood_src()
    repo_root = os.path.dirname(src)
    if not os.path.isdir(os.path.join(repo_root, "test")):
        repo_root = "/repo"          # a scratch copy of src/ only: use the repository's tests against it
    # the suite regenerates test/dataset/ormatic_interface.py at session start: run a temporary copy of the tests
    work = tempfile.mkdtemp(prefix="verif-repotests-")
    rep = os.path.join(work, "report.json")
    try:
        shutil.copytree(os.path.join(repo_root, "test"), os.path.join(work, "test"))
        if os.path.exists(os.path.join(repo_root, "pytest.ini")):
            shutil.copy(os.path.join(repo_root, "pytest.ini"), work)
        env = dict(os.environ, VERIF_CONTRACT_REPORT=rep, PYTHONDONTWRITEBYTECODE="1",
                   PYTHONPATH=os.pathsep.join([src, common.VERIF, common.DEPS]))
        r = subprocess.run([common.PY, "-m", "pytest", "-q", "-p", "no:cacheprovider", "-p", "vlib.pytest_contracts", "--timeout=900",
                            "--deselect", "test/test_eql/test_rendering.py", "test"],
                           cwd=work, env=env, capture_output=True, text=True, timeout=timeout)
        try:
            report = json.load(open(rep))
        except Exception:
            report = {"error": (r.stdout + r.stderr)[-500:]}
    finally:
        shutil.rmtree(work, ignore_errors=True)
    report["pytest_tail"] = (r.stdout.strip().splitlines() or ["?"])[-1]
    return report
