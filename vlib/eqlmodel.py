"""Harness-owned domain model for the EQL checks (plain dataclasses, Symbol classes,
a Predicate subclass and symbolic functions)."""
from __future__ import annotations

from dataclasses import dataclass, field
from typing import Dict, List, Optional

from krrood.entity_query_language.predicate import Predicate, Symbol, symbolic_function


@dataclass(eq=False)
class P:
    a: int = 0
    b: int = 0
    items: List[int] = field(default_factory=list)
    kids: List["P"] = field(default_factory=list)
    ref: Optional["P"] = None
    d: Dict[str, int] = field(default_factory=dict)
    name: str = ""
    f: float = 0.0
    fs: frozenset = frozenset()

    def m(self, k):
        return self.a + k

    def pos(self):
        return self.a > 0

    def key(self):
        return "k"

    def plus(self, k, j=0):
        return self.a + k + j

    def __repr__(self):
        return f"{type(self).__name__}<{self.name}:a={self.a},b={self.b}>"


@dataclass(eq=False, repr=False)
class Q(P):
    pass


@dataclass(eq=False, repr=False)
class PE(P):
    """value equality: two instances with the same a and b are equal (and hash alike) but are distinct objects"""

    def __eq__(self, other):
        return isinstance(other, PE) and (self.a, self.b) == (other.a, other.b)

    def __hash__(self):
        return hash((self.a, self.b))


@dataclass(eq=False)
class V:
    """Instances of this class are inferred by rule queries."""
    tag: str
    p: P
    q: Optional[P] = None

    def __repr__(self):
        return f"V({self.tag},{self.p!r},{self.q!r})"


@dataclass(eq=False)
class S0(Symbol):
    a: int = 0
    name: str = ""


@dataclass(eq=False)
class S1(S0):
    pass


@dataclass(eq=False)
class BothPositive(Predicate):
    x: object
    y: object

    def __call__(self):
        return self.x.a > 0 and self.y.a > 0


@dataclass(eq=False)
class AGreater(Predicate):
    x: object
    k: int

    def __call__(self):
        return self.x.a > self.k


@dataclass(eq=False)
class IntGreater(Predicate):
    """usable with plain values only: then it is an ordinary object that stands as a condition"""
    x: int
    k: int

    def __call__(self):
        return self.x > self.k


class Boom(Exception):
    """raised by user code on purpose (fault injection through supplied predicates)"""


FLAKY = {"countdown": None, "calls": 0}


@dataclass(eq=False)
class Flaky(Predicate):
    """true for every x; raises Boom at the armed call"""
    x: object

    def __call__(self):
        FLAKY["calls"] += 1
        if FLAKY["countdown"] is not None:
            FLAKY["countdown"] -= 1
            if FLAKY["countdown"] <= 0:
                FLAKY["countdown"] = None
                raise Boom()
        return True


@symbolic_function
def sum_ab(x, y=None):
    """never falsy (>= 1): keeps the falsy-operand finding out of the main workload"""
    return x.a + (y.b if y is not None else 0) + 1


@symbolic_function
def diff_ab(x, y=None):
    """may be 0 (falsy)"""
    return x.a - (y.b if y is not None else 0)


def fresh_symbol_graph():
    from krrood.entity_query_language.symbol_graph import SymbolGraph
    SymbolGraph().clear()
    return SymbolGraph()


def reset_eql_process_state():
    """Drop process-global registries that otherwise grow without bound over a long
    worker run (not part of any property except C20, which never calls this)."""
    from krrood.entity_query_language import symbolic as S
    try:
        S.SymbolicExpression._symbolic_expression_stack_.clear()
    except Exception:
        pass
