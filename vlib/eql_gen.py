"""Random EQL query specs (see eql_engine for the spec language)."""
from __future__ import annotations

from . import eql_engine as G

CMP = ["==", "!=", "<", "<=", ">", ">="]


def gen_vars(rng, world, nv, allow_empty=True, kinds=("list", "gen")):
    names = ["x", "y", "z"][:nv]
    out = []
    n = len(world)
    for nm in names:
        size = rng.choice([0, 1, 2, 2, 3, 3, 4]) if allow_empty else rng.choice([1, 2, 2, 3, 3, 4])
        dom = [rng.randrange(n) for _ in range(size)]
        # the identical object twice in a domain is one value (a domain is a set of candidate values): mostly kept
        # distinct, sometimes left in to see that every pass over the domain agrees on that
        if rng.random() < 0.85:
            dom = list(dict.fromkeys(dom))
        out.append({"name": nm, "type": rng.choice(["P", "P", "P", "Q"]), "dom": dom, "kind": rng.choice(list(kinds))})
    return out


def scalar_term(rng, var, rich, spec_ctx):
    """a term over variable `var` evaluating to an int"""
    r = rng.random()
    v = ["var", var]
    if not rich or r < 0.6:
        return ["attr", v, rng.choice(["a", "b"])]
    if r < 0.7:
        return ["callm", v, rng.randint(0, 2)]
    if r < 0.8:
        return ["idx", ["attr", v, "d"], "k"]
    if r < 0.9 and spec_ctx["ref_ok"].get(var):
        return ["attr", ["attr", v, "ref"], rng.choice(["a", "b"])]
    return ["attr", v, rng.choice(["a", "b"])]


def norm_term(t):
    """callm is sugar for x.m(k): ["call", ["var",x], "m", [k]]"""
    if t[0] == "callm":
        return ["call", t[1], "m", [t[2]]]
    if t[0] in ("attr", "idx"):
        return [t[0], norm_term(t[1])] + t[2:]
    return t


def gen_atom(rng, names, rich, ctx):
    k = rng.random()
    v = rng.choice(names)
    if k < 0.375:
        return ["cmp", rng.choice(CMP), norm_term(scalar_term(rng, v, rich, ctx)), ["lit", rng.randint(0, 2)]]
    if k < 0.40:
        # identity-compared objects: a reference attribute against a bare variable (either operand order); the operator
        # has to report the values that are NOT equal as well (a negation / a disjunction above it needs them)
        w = rng.choice(names)
        t, u = ["attr", ["var", v], "ref"], ["var", w]
        return ["cmp", rng.choice(["==", "==", "!="]), t, u] if rng.random() < 0.6 else ["cmp", rng.choice(["==", "==", "!="]), u, t]
    if k < 0.62:
        w = rng.choice(names)
        return ["cmp", rng.choice(CMP), norm_term(scalar_term(rng, v, rich, ctx)),
                norm_term(scalar_term(rng, w, rich, ctx))]
    if k < 0.72:
        lst = sorted(rng.sample([0, 1, 2], rng.randint(0, 2)))
        return ["in", norm_term(scalar_term(rng, v, rich, ctx)), ["lit", lst]]
    if k < 0.80:
        return ["contains", ["attr", ["var", v], "items"], ["lit", rng.randint(0, 2)]]
    if k < 0.86:
        return ["truth", ["attr", ["var", v], rng.choice(["a", "b"])]]
    if not rich:
        return ["cmp", rng.choice(CMP), ["attr", ["var", v], "a"], ["lit", rng.randint(0, 2)]]
    if k < 0.89:
        w = rng.choice(names)
        return ["in", ["attr", ["var", v], "a"], ["attr", ["var", w], "items"]]
    if k < 0.92:
        w = rng.choice(names)
        return ["pred", "BothPositive", [["var", v], ["var", w]]]
    if k < 0.93:
        return ["pred", "AGreater", [["var", v], ["lit", rng.randint(0, 1)]]]
    if k < 0.94:
        return ["pred", "IntGreater", [["lit", rng.randint(0, 2)], ["lit", rng.randint(0, 2)]]]
    if k < 0.95:
        return ["hastype", ["var", v], "Q"]
    if k < 0.96:
        # partially ordered operands: floats with NaN, frozensets (proper-subset order)
        w = rng.choice(names)
        if rng.random() < 0.5:
            return ["cmp", rng.choice(CMP), ["attr", ["var", v], "f"],
                    ["attr", ["var", w], "f"] if rng.random() < 0.5 else ["lit", rng.choice([0.0, 1.0, 2.5])]]
        return ["cmp", rng.choice(CMP), ["attr", ["var", v], "fs"], ["attr", ["var", w], "fs"]]
    if k < 0.968:
        w = rng.choice(names)
        return ["cmp", rng.choice(CMP), ["fn", "sum_ab", {"x": ["var", v], "y": ["var", w]}], ["lit", rng.randint(1, 4)]]
    if k < 0.992:
        # a method call / an index whose argument is itself a term over a (possibly different) variable
        w = rng.choice(names)
        arg = norm_term(scalar_term(rng, w, rich, ctx))
        r = rng.random()
        if r < 0.45:
            t = ["call", ["var", v], "m", [arg]]
        elif r < 0.7:
            first = rng.randint(0, 1) if rng.random() < 0.5 else norm_term(scalar_term(rng, w, rich, ctx))
            t = ["call", ["var", v], "plus", [first, arg]]
        else:
            t = ["idx", ["attr", ["var", v], "d"], ["call", ["var", w], "key", []]]
        return ["cmp", rng.choice(CMP), t, ["lit", rng.randint(0, 3)]]
    return ["truth", ["call", ["var", v], "pos", []]]


def gen_cond(rng, names, depth, rich, ctx, p_not=0.25):
    if depth == 0 or rng.random() < 0.3:
        return gen_atom(rng, names, rich, ctx)
    k = rng.random()
    if k < (1 - p_not) / 2:
        return ["and", gen_cond(rng, names, depth - 1, rich, ctx, p_not), gen_cond(rng, names, depth - 1, rich, ctx, p_not)]
    if k < (1 - p_not):
        return ["or", gen_cond(rng, names, depth - 1, rich, ctx, p_not), gen_cond(rng, names, depth - 1, rich, ctx, p_not)]
    return ["not", gen_cond(rng, names, depth - 1, rich, ctx, p_not)]


def ref_ok_map(world, vars_):
    return {v["name"]: all(world[i]["ref"] is not None for i in v["dom"]) for v in vars_}


def gen_core(rng, rich=False, allow_empty=True, max_depth=3, nv=None):
    """and/or/not over comparison-like atoms, 1-3 variables, selection of plain variables"""
    world = G.gen_world(rng)
    nv = nv or rng.choice([1, 2, 2, 3])
    vars_ = gen_vars(rng, world, nv, allow_empty)
    names = [v["name"] for v in vars_]
    ctx = {"ref_ok": ref_ok_map(world, vars_)}
    cond = gen_cond(rng, names, rng.randint(0, max_depth), rich, ctx) if rng.random() < 0.95 else None
    sel = rng.sample(names, rng.randint(1, nv))
    mode = "entity" if len(sel) == 1 and rng.random() < 0.5 else "set_of"
    return {"world": world, "vars": vars_, "derived": [], "cond": cond,
            "select": [["var", n] for n in sel], "mode": mode}


def gen_flatten(rng):
    """a dependent flatten variable used in conditions and/or selected"""
    world = G.gen_world(rng)
    vars_ = gen_vars(rng, world, rng.choice([1, 2]), allow_empty=False)
    names = [v["name"] for v in vars_]
    x = names[0]
    of_kids = rng.random() < 0.6
    derived = [{"name": "e", "kind": "flat", "of": ["attr", ["var", x], "kids" if of_kids else "items"]}]
    eterm = ["attr", ["var", "e"], rng.choice(["a", "b"])] if of_kids else ["var", "e"]
    atom_e = ["cmp", rng.choice(CMP), eterm, ["lit", rng.randint(0, 2)]]
    ctx = {"ref_ok": ref_ok_map(world, vars_)}
    r = rng.random()
    if r < 0.4:
        cond = atom_e
    elif r < 0.7:
        cond = ["and", gen_atom(rng, names, False, ctx), atom_e]
    elif r < 0.85:
        cond = ["and", atom_e, gen_atom(rng, names, False, ctx)]
    else:
        cond = None
    if len(names) == 2 and rng.random() < 0.25:
        # the flattened element is free in a quantified condition over the other variable (nothing binds it before)
        z = names[1]
        cond = [rng.choice(["forall", "forall", "exists"]), z, ["cmp", rng.choice(CMP), eterm, ["attr", ["var", z], rng.choice("ab")]]]
        sel = [["var", "e"]] if rng.random() < 0.5 else [["var", x]]
        return {"world": world, "vars": vars_, "derived": derived, "cond": cond, "select": sel, "mode": "entity" if rng.random() < 0.5 else "set_of"}
    if cond is not None and rng.random() < 0.2:
        # a disjunction over the same variable whose one side yields no row at all for an x with an empty collection
        atom_x = ["cmp", rng.choice(CMP), ["attr", ["var", x], rng.choice("ab")], ["lit", rng.randint(0, 2)]]
        cond = ["or", cond, atom_x] if rng.random() < 0.6 else ["or", atom_x, cond]
    choice = rng.random()
    if choice < 0.4 or cond is None:
        sel = [["var", "e"]]
    elif choice < 0.7:
        sel = [["var", x]]
    else:
        sel = [["var", x], ["var", "e"]]
    mode = "entity" if len(sel) == 1 and rng.random() < 0.5 else "set_of"
    return {"world": world, "vars": vars_, "derived": derived, "cond": cond, "select": sel, "mode": mode}


def gen_subquery(rng):
    world = G.gen_world(rng)
    vars_ = gen_vars(rng, world, 1, allow_empty=False)
    inner = gen_vars(rng, world, 1, allow_empty=False)[0]
    inner["name"] = "w"
    ctx = {"ref_ok": ref_ok_map(world, vars_ + [inner])}
    icond = gen_atom(rng, ["w"], False, ctx) if rng.random() < 0.8 else None
    derived = [{"name": "s", "kind": "sub", "var": inner, "cond": icond}]
    cond = ["cmp", rng.choice(CMP), ["attr", ["var", "x"], rng.choice("ab")], ["attr", ["var", "s"], rng.choice("ab")]]
    r2 = rng.random()
    if r2 < 0.3:
        cond = ["and", cond, gen_atom(rng, ["x"], False, ctx)]
    elif r2 < 0.45:
        # the comparison with the sub-query yields no row for an x when the sub-query has no answer
        atom = ["cmp", rng.choice(CMP), ["attr", ["var", "x"], rng.choice("ab")], ["lit", rng.randint(0, 2)]]
        cond = ["or", cond, atom] if rng.random() < 0.6 else ["or", atom, cond]
    sel = rng.choice([[["var", "x"]], [["var", "s"]], [["var", "x"], ["var", "s"]]])
    mode = "entity" if len(sel) == 1 and rng.random() < 0.5 else "set_of"
    return {"world": world, "vars": vars_, "derived": derived, "cond": cond, "select": sel, "mode": mode}


def gen_scalar_subquery(rng):
    """a nested sub-query over a plain scalar variable (0 / False / 0.0 are falsy values like any other) whose value
    is used directly as a comparator operand of the outer query"""
    world = G.gen_world(rng)
    vars_ = gen_vars(rng, world, 1, allow_empty=False)
    if rng.random() < 0.5:
        inner = {"name": "w", "type": "int", "vals": rng.sample(range(0, 5), rng.randint(1, 4)), "dom": [],
                 "kind": rng.choice(["list", "gen"])}
    else:
        inner = {"name": "w", "type": "obj", "vals": rng.sample([-2, -1, 0, 1, 2, 1.0, True, 0.0, False, 3], rng.randint(1, 5)),
                 "dom": [], "kind": rng.choice(["list", "gen"])}
    icond = ["cmp", rng.choice(CMP), ["var", "w"], ["lit", rng.randint(0, 3)]] if rng.random() < 0.7 else None
    derived = [{"name": "s", "kind": "sub", "var": inner, "cond": icond}]
    xa = ["attr", ["var", "x"], rng.choice("ab")]
    cond = ["cmp", rng.choice(CMP), xa, ["var", "s"]] if rng.random() < 0.7 else ["cmp", rng.choice(CMP), ["var", "s"], xa]
    if rng.random() < 0.3:
        cond = ["and", cond, ["cmp", rng.choice(CMP), ["attr", ["var", "x"], rng.choice("ab")], ["lit", rng.randint(0, 2)]]]
    sel = rng.choice([[["var", "x"]], [["var", "s"]], [["var", "x"], ["var", "s"]]])
    mode = "entity" if len(sel) == 1 and rng.random() < 0.5 else "set_of"
    return {"world": world, "vars": vars_, "derived": derived, "cond": cond, "select": sel, "mode": mode}


def gen_exists(rng, form=None, falsy_lit=False):
    lo = 0 if falsy_lit else 1
    world = G.gen_world(rng)
    form = form or rng.choice(["E1", "E2"])
    if form == "E1":
        vars_ = gen_vars(rng, world, 1, allow_empty=False)
        of_kids = rng.random() < 0.7
        derived = [{"name": "e", "kind": "flat", "of": ["attr", ["var", "x"], "kids" if of_kids else "items"]}]
        eterm = ["attr", ["var", "e"], rng.choice("ab")] if of_kids else ["var", "e"]
        inner = ["cmp", rng.choice(CMP), eterm, ["lit", rng.randint(0, 2)]]
        cond = ["exists", "x", inner]
        # not_(exists(x, ...)) in the E1 form has no agreed reading (krrood rewrites it to a for_all over x): not generated
        if rng.random() < 0.3:
            cond = ["and", ["cmp", rng.choice(CMP), ["attr", ["var", "x"], "b"], ["lit", rng.randint(0, 2)]], cond]
        sel = [["var", "x"]]
    else:
        vars_ = gen_vars(rng, world, 2, allow_empty=False)
        derived = []
        inner = ["cmp", rng.choice(CMP), ["attr", ["var", "x"], rng.choice("ab")], ["attr", ["var", "y"], rng.choice("ab")]]
        if rng.random() < 0.3:
            inner = ["and", inner, ["cmp", rng.choice(CMP), ["attr", ["var", "x"], "b"], ["lit", rng.randint(lo, 2)]]]
        cond = ["exists", "x", inner]
        if rng.random() < 0.3:
            cond = ["not", cond]
        sel = [["var", "y"]]
    mode = rng.choice(["entity", "set_of"])
    return {"world": world, "vars": vars_, "derived": derived, "cond": cond, "select": sel, "mode": mode, "form": form}


def gen_partial_order(rng):
    """ordering comparisons over operands that are only partially ordered (NaN floats, frozensets), often negated:
    not (a < b) is not (a >= b) there"""
    world = G.gen_world(rng)
    vars_ = gen_vars(rng, world, rng.choice([1, 2]), allow_empty=False)
    names = [v["name"] for v in vars_]

    def atom():
        v, w = rng.choice(names), rng.choice(names)
        op = rng.choice(["<", "<=", ">", ">="] * 2 + ["==", "!="])
        if rng.random() < 0.5:
            return ["cmp", op, ["attr", ["var", v], "f"], ["attr", ["var", w], "f"] if rng.random() < 0.6 else ["lit", rng.choice([0.0, 1.0, 2.5])]]
        return ["cmp", op, ["attr", ["var", v], "fs"], ["attr", ["var", w], "fs"]]

    c = atom()
    r = rng.random()
    if r < 0.5:
        c = ["not", c]
    elif r < 0.7:
        c = ["and", ["not", c], atom()]
    elif r < 0.85:
        c = ["not", ["and", c, atom()]]
    sel = rng.sample(names, rng.randint(1, len(names)))
    return {"world": world, "vars": vars_, "derived": [], "cond": c, "select": [["var", n] for n in sel], "mode": "set_of"}


def gen_scalar_vars(rng, falsy=True):
    """variables ranging over plain ints (0 is falsy) compared with literals, with each other and with attributes"""
    world = G.gen_world(rng)
    lo = 0 if falsy else 1
    if falsy and rng.random() < 0.5:
        # value-equal but distinct scalars and scalars whose hashes collide (hash(-1) == hash(-2), 1 == 1.0 == True)
        pool = [-2, -1, 0, 1, 2, 1.0, True, 0.0, False, 3]
        pick = lambda k: rng.sample(pool, rng.randint(1, k))
        vars_ = [{"name": "n", "type": "obj", "vals": pick(5), "dom": [], "kind": rng.choice(["list", "gen"])}]
        if rng.random() < 0.6:
            vars_.append({"name": "k", "type": "obj", "vals": pick(4), "dom": [], "kind": rng.choice(["list", "gen"])})
    else:
        vars_ = [{"name": "n", "type": "int", "vals": sorted(rng.sample(range(lo, lo + 5), rng.randint(1, 4))), "dom": [], "kind": rng.choice(["list", "gen"])}]
        if rng.random() < 0.5:
            vars_.append({"name": "k", "type": "int", "vals": sorted(rng.sample(range(lo, lo + 4), rng.randint(1, 3))), "dom": [], "kind": "list"})
    if rng.random() < 0.5:
        vars_ += gen_vars(rng, world, 1, allow_empty=False)
    names = [v["name"] for v in vars_]

    def term(nm):
        return ["var", nm] if nm in ("n", "k") else ["attr", ["var", nm], rng.choice("ab")]

    def atom():
        a, b = rng.choice(names), rng.choice(names)
        r = rng.random()
        if falsy and r < 0.12:
            # a bare variable (its value is its truth value) or a Python bool in condition position
            return ["truth", ["var", rng.choice([n_ for n_ in names if n_ in ("n", "k")])]]
        if falsy and r < 0.18:
            return ["truth", ["lit", rng.random() < 0.5]]
        if r < 0.55:
            return ["cmp", rng.choice(CMP), term(a), ["lit", rng.randint(lo, lo + 3)]]
        return ["cmp", rng.choice(CMP), term(a), term(b)]

    c = atom()
    for _ in range(rng.randint(0, 2)):
        c = ["and", c, atom()] if rng.random() < 0.7 else ["and", atom(), c]
    if rng.random() < 0.2:
        c = ["or", c, ["cmp", rng.choice(CMP), ["var", "n"], ["lit", rng.randint(lo, lo + 3)]]]
    sel = rng.sample(names, rng.randint(1, len(names)))
    return {"world": world, "vars": vars_, "derived": [], "cond": c, "select": [["var", x] for x in sel], "mode": "set_of"}


def gen_fnfalsy(rng):
    """a symbolic function whose value may be falsy (0) used as comparator operand"""
    world = G.gen_world(rng)
    vars_ = gen_vars(rng, world, 2, allow_empty=False)
    args = rng.choice([{"x": ["var", "x"], "y": ["var", "y"]}, {"x": ["var", "y"], "y": ["var", "x"]}, {"x": ["var", "x"]}])
    cond = ["cmp", rng.choice(CMP), ["fn", "diff_ab", args], ["lit", rng.randint(-1, 2)]]
    if rng.random() < 0.3:
        cond = ["not", cond]
    sel = rng.choice([[["var", "x"]], [["var", "y"]], [["var", "x"], ["var", "y"]]])
    return {"world": world, "vars": vars_, "derived": [], "cond": cond, "select": sel, "mode": "set_of"}


def gen_forall(rng, allow_empty=False, falsy_lit=False):
    lo = 0 if falsy_lit else 1
    world = G.gen_world(rng)
    vars_ = gen_vars(rng, world, 2, allow_empty=False)
    if allow_empty:
        vars_[0]["dom"] = []
    inner = ["cmp", rng.choice(CMP), ["attr", ["var", "x"], rng.choice("ab")], ["attr", ["var", "y"], rng.choice("ab")]]
    rp = rng.random()
    if rp < 0.12:
        # a predicate / symbolic function over both variables as the quantified condition
        inner = ["pred", "BothPositive", [["var", "x"], ["var", "y"]]]
    elif rp < 0.24:
        inner = ["cmp", rng.choice(CMP), ["fn", "sum_ab", {"x": ["var", "x"], "y": ["var", "y"]}], ["lit", rng.randint(1, 4)]]
    r = rng.random()
    if r < 0.25:
        inner = ["or", inner, ["cmp", rng.choice(CMP), ["attr", ["var", "x"], "b"], ["attr", ["var", "y"], "a"]]]
    elif r < 0.4:
        inner = ["and", inner, ["cmp", rng.choice(CMP), ["attr", ["var", "y"], "b"], ["lit", rng.randint(lo, 2)]]]
    cond = ["forall", "x", inner]
    if rng.random() < 0.25:
        cond = ["not", cond]
    r2 = rng.random()
    if r2 < 0.3:
        cond = ["and", ["cmp", rng.choice(CMP), ["attr", ["var", "y"], "b"], ["lit", rng.randint(0, 2)]], cond]
    elif r2 < 0.5:
        # a disjunction whose one side is the quantified condition (it yields only the rows that hold) and whose other
        # side mentions fewer variables
        atom = ["cmp", rng.choice(CMP), ["attr", ["var", "y"], rng.choice("ab")], ["lit", rng.randint(0, 2)]]
        cond = ["or", cond, atom] if rng.random() < 0.6 else ["or", atom, cond]
    mode = rng.choice(["entity", "set_of"])
    return {"world": world, "vars": vars_, "derived": [], "cond": cond, "select": [["var", "y"]], "mode": mode}


def gen_quantifier_nest(rng, reuse=False):
    """the selected variable y is bound by a first conjunct; below it quantified conditions (with y free) are combined
    with and / or / not and with plain atoms over y: every operator then needs the FALSE case of a quantified operand
    for single bindings of y.  Every quantifier has a variable of its own, except that the two sides of an or_ may
    quantify the same one (the else-if form).  reuse=True: one variable for all quantifiers."""
    world = G.gen_world(rng)
    vars_ = gen_vars(rng, world, 2, allow_empty=False)
    for v in vars_:
        v["type"] = "P"         # every object is a P: no range is emptied by its type (empty ranges have families of their own)
    pool = []

    def fresh():
        if reuse:
            return "x"
        name = "x" if not pool else f"x{len(pool) + 1}"
        pool.append(name)
        if name != "x":
            vars_.append(dict(vars_[0], name=name, dom=[rng.randrange(len(world)) for _ in range(rng.choice([1, 2, 2, 3]))]))
        return name

    def atom_y():
        return ["cmp", rng.choice(CMP), ["attr", ["var", "y"], rng.choice("ab")], ["lit", rng.randint(0, 2)]]

    def quantified(name=None):
        name = name or fresh()
        inner = ["cmp", rng.choice(CMP), ["attr", ["var", "y"], rng.choice("ab")], ["attr", ["var", name], rng.choice("ab")]]
        if rng.random() < 0.5:
            # a comparison with a literal inside the quantified condition, which and / or may or may not reach
            about_y = atom_y()
            inner = [rng.choice(["and", "or"]), inner, about_y] if rng.random() < 0.5 else [rng.choice(["and", "or"]), about_y, inner]
        return [rng.choice(["exists", "forall"]), name, inner]

    def nest(depth):
        r = rng.random()
        if depth == 0 or r < 0.3:
            return quantified() if rng.random() < 0.7 else atom_y()
        if r < 0.55:
            return ["and", nest(depth - 1), nest(depth - 1)]
        if r < 0.85:
            if rng.random() < 0.35:
                name = fresh()
                return ["or", quantified(name), quantified(name)]
            return ["or", nest(depth - 1), nest(depth - 1)]
        return ["not", nest(depth - 1)]

    r0 = rng.random()
    if r0 < 0.2:
        # the else-if form over quantified conditions that enumerate y themselves (no binder, see below): a y that the
        # left side rejects only for a later value of its variable still has to reach the right side
        name = fresh()
        body = ["or", quantified(name), quantified(name)]
        dom = next(v for v in vars_ if v["name"] == name)["dom"]
        while len(dom) < 2:
            dom.append(rng.randrange(len(world)))
    else:
        body = ["or", nest(1), quantified()] if r0 < 0.45 else nest(2)
    binder = ["cmp", ">=", ["attr", ["var", "y"], "a"], ["lit", 0]]      # true for every y: it only binds y
    # sometimes without the binder: the quantified conditions then meet y unbound and enumerate it themselves
    with_binder = rng.random() < 0.7 and r0 >= 0.2
    cond = ["and", binder, body] if with_binder else body
    if with_binder and len(vars_) > 1 and rng.random() < 0.15:
        # an empty range: the quantified condition then produces nothing at all for the bound y (exists is false,
        # for_all holds vacuously)
        rng.choice([v for v in vars_ if v["name"] != "y"])["dom"] = []
    return {"world": world, "vars": vars_, "derived": [], "cond": cond, "select": [["var", "y"]],
            "mode": rng.choice(["entity", "set_of"])}


def gen_nested_quantifiers(rng):
    """a quantified condition inside another one over a different variable: for_all(x, exists(x2, C(x, x2, y))) and the
    other three combinations, negated or not, with y bound by a first conjunct or free"""
    world = G.gen_world(rng)
    vars_ = gen_vars(rng, world, 2, allow_empty=False)
    for v in vars_:
        v["type"] = "P"
    vars_.append(dict(vars_[0], name="x2", dom=[rng.randrange(len(world)) for _ in range(rng.choice([1, 2, 2, 3]))]))
    inner = ["cmp", rng.choice(CMP), ["attr", ["var", "x"], rng.choice("ab")], ["attr", ["var", "x2"], rng.choice("ab")]]
    if rng.random() < 0.6:
        about_y = ["cmp", rng.choice(CMP), ["attr", ["var", "y"], rng.choice("ab")], ["attr", ["var", rng.choice(["x", "x2"])], rng.choice("ab")]]
        inner = [rng.choice(["and", "or"]), inner, about_y] if rng.random() < 0.7 else about_y
    cond = [rng.choice(["forall", "exists"]), "x", [rng.choice(["forall", "exists"]), "x2", inner]]
    binder = ["cmp", ">=", ["attr", ["var", "y"], "a"], ["lit", 0]]
    if rng.random() < 0.3:
        cond = ["not", cond]
    if rng.random() < 0.7:
        cond = ["and", binder, cond]
    return {"world": world, "vars": vars_, "derived": [], "cond": cond, "select": [["var", "y"]],
            "mode": rng.choice(["entity", "set_of"])}


def gen_multiselect(rng, bound=True):
    """several selected expressions over the same variable: with a binding condition (bound=True)
    or without any condition mentioning it (the cross-product finding)"""
    world = G.gen_world(rng)
    vars_ = gen_vars(rng, world, rng.choice([1, 2]), allow_empty=False)
    names = [v["name"] for v in vars_]
    x = names[0]
    sel = [["var", x], ["attr", ["var", x], rng.choice(["a", "b", "name"])]]
    if rng.random() < 0.3:
        sel.append(["attr", ["var", x], "b"])
    if len(names) > 1 and rng.random() < 0.5:
        sel.append(["var", names[1]])
    ctx = {"ref_ok": ref_ok_map(world, vars_)}
    if bound:
        cond = ["cmp", rng.choice(CMP), ["attr", ["var", x], rng.choice("ab")], ["lit", rng.randint(0, 2)]]
        if rng.random() < 0.4:
            cond = ["and", cond, gen_atom(rng, names, False, ctx)]
    else:
        others = [n for n in names if n != x]
        cond = gen_atom(rng, others, False, ctx) if others and rng.random() < 0.5 else None
    return {"world": world, "vars": vars_, "derived": [], "cond": cond, "select": sel, "mode": "set_of"}
