#!/usr/bin/env python3
"""Self-test driver: applies deliberate property-breaking edits to a scratch copy of
/repo/src (outside /repo and /verif), runs the named check against the copy and
reports whether the check fired.  The scratch copy is removed afterwards.

usage: selftest/run.py [--tier quick] [--only C09[,C01]] [--name substr] [--keep]
Mutations are listed in selftest/mutations.json:
  {"name":..., "property": "C09", "file": "krrood/...py", "old": "...", "new": "...", "expect": "fire"|"silent"}
"""
import argparse
import json
import os
import shutil
import subprocess
import sys
import tempfile

HERE = os.path.dirname(os.path.abspath(__file__))
VERIF = os.path.dirname(HERE)


def main():
    ap = argparse.ArgumentParser()
    ap.add_argument("--tier", default="quick")
    ap.add_argument("--only", default="")
    ap.add_argument("--name", default="")
    ap.add_argument("--seed", default="0")
    ap.add_argument("--tests", action="store_true", help="also run the repository test-suite against the mutant")
    a = ap.parse_args()
    muts = json.load(open(os.path.join(HERE, "mutations.json")))
    only = {x for x in a.only.split(",") if x}
    rows = []
    for m in muts:
        if only and m["property"] not in only:
            continue
        if a.name and a.name not in m["name"]:
            continue
        scratch = tempfile.mkdtemp(prefix="krrood-mut-")
        try:
            shutil.copytree("/repo/src", os.path.join(scratch, "src"))
            edits = m.get("edits") or [{"file": m["file"], "old": m["old"], "new": m["new"]}]
            for e in edits:
                p = os.path.join(scratch, "src", e["file"])
                s = open(p).read()
                if s.count(e["old"]) < 1:
                    rows.append((m["name"], m["property"], "PATCH-DOES-NOT-APPLY"))
                    raise LookupError
                s = s.replace(e["old"], e["new"], e.get("count", 1))
                open(p, "w").write(s)
            env = dict(os.environ, VERIF_KRROOD_SRC=os.path.join(scratch, "src"))
            r = subprocess.run([os.path.join(VERIF, "vcheck"), m["property"], "--tier", a.tier, "--seed", a.seed],
                               env=env, capture_output=True, text=True)
            fired = r.returncode == 1 and "VIOLATION" in r.stdout
            verdict = "fired" if fired else ("INCONCLUSIVE" if r.returncode == 2 else ("silent" if r.returncode == 0 else f"rc={r.returncode}"))
            first = next((l for l in r.stdout.splitlines() if l.startswith("  kind=")), "")
            tests = ""
            if a.tests:
                shutil.copytree("/repo/test", os.path.join(scratch, "test"))
                shutil.copy("/repo/pytest.ini", scratch)
                t = subprocess.run(["/venv/bin/python", "-m", "pytest", "-q", "-x", "-p", "no:cacheprovider", "--timeout=900",
                                    "--deselect", "test/test_eql/test_rendering.py", "test"],
                                   cwd=scratch, env=dict(os.environ, PYTHONPATH=os.path.join(scratch, "src")),
                                   capture_output=True, text=True)
                tests = " | tests: " + (t.stdout.strip().splitlines() or ["?"])[-1]
            ok = (verdict == "fired") == (m.get("expect", "fire") == "fire")
            rows.append((m["name"], m["property"], ("OK " if ok else "MISS ") + verdict + " " + first.strip()[:160] + tests))
        except LookupError:
            pass
        finally:
            shutil.rmtree(scratch, ignore_errors=True)
        print(rows[-1], flush=True)
    bad = [r for r in rows if not r[2].startswith("OK")]
    print(f"{len(rows) - len(bad)}/{len(rows)} as expected")
    return 1 if bad else 0


if __name__ == "__main__":
    sys.exit(main())
