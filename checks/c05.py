"""C05 - persisting to SQL and reloading in a fresh session restores the object graph.

Same generated models and object graphs as C04, pushed through a real database: session.add(to_dao(g)),
commit, then a NEW Session on the same engine loads the rows through every DAO class of the root's
inheritance chain and from_dao must give an isomorphic graph (relationship collections compared as
sets of partners paired by uid).  Conservation monitor on the ORM event log: one mapper after_insert
event per distinct object, none twice, and SELECT count(*) per table equals the number of distinct
objects of that class and its subclasses.
"""
from __future__ import annotations

from checks import c04

ID = "C05"
LEVEL = "exploration"
RULE = ("random mapped models x random object graphs (as C04, without nan/inf) persisted into a fresh in-memory SQLite "
        "database created by krrood's create_engine and reloaded in a second Session via each DAO class of the root's "
        "chain; every third graph also starts a stream of five graphs converted with one shared ToDAOState, stored in one "
        "session and dropped right after their conversion (row counts per table = distinct objects); plus the hand-written model.  Non-trivial = the graph has an aliased node; distinct = (objects, shared "
        "nodes, classes) signature")
ASSUMPTIONS = ["list order and duplicate list entries are not compared (the statement promises 'the same elements')",
               "a restored collection only has to be a list / set equal in content",
               "SQLite in memory stands for 'a fresh database'"]
ANCHORS = ["DataAccessObject.to_dao", "DataAccessObject.from_dao", "create_engine", "WrappedTable.create_mapper_args",
           "WrappedTable.create_one_to_one_relationship", "WrappedTable.create_one_to_many_relationship"]
GRAPHS = {"quick": 25, "thorough": 200}


def plan(tier):
    return {"cases": 36 if tier == "quick" else 160, "shards": 16, "case_timeout": 900, "shard_timeout": 6000,
            "dev_shard": False, "min_nontrivial": 15,
            "min_counters": {"graphs": 500, "insert_events": 2000, "row_counts_checked": 1500, "reloads": 600,
                             "c05_objects_compared": 3000, "c05_stream_graphs": 400}}


setup = c04.setup
finish = c04.finish


def gen(rng, tier, ctx):
    case = c04.gen(rng, tier, ctx)
    case["n"] = GRAPHS[tier]
    return case


def witnesses():
    cl = lambda name, parent, fields: {"name": name, "parent": parent, "fields": fields}
    f = lambda n, k, t=None: {"name": n, "kind": k, "target": t}
    return {"alt-mapped-object-in-cycle-left-as-mapping": {"handwritten": True, "seed": 1, "n": 60},
            "hierarchy-reference-mapped-one-to-many": {"seed": 5, "n": 30, "spec": {
        "module": "rw_node", "order": ["K0", "K1"], "profile": "rt", "classes": [
            cl("K0", None, [f("uid", "int"), f("f0_0", "self_opt", "K0")]), cl("K1", "K0", [f("f1_0", "int")])]}},
            "init-false-fields-not-restored": {"seed": 3, "n": 30, "spec": NO_INIT_SPEC},
            "deep-reference-chain-recursion-limit": {"seed": 5, "n": 3, "spec": CHAIN_SPEC}}


CHAIN_SPEC = {"module": "rw_chain", "order": ["K0"], "profile": "rt", "classes": [
    {"name": "K0", "parent": None, "fields": [{"name": "uid", "kind": "int", "target": None}, {"name": "f0_0", "kind": "self_opt", "target": "K0"}]}]}


NO_INIT_SPEC = {"module": "rw_noinit", "order": ["K0", "K1"], "profile": "rt", "classes": [
    {"name": "K0", "parent": None, "fields": [{"name": "uid", "kind": "int", "target": None},
                                              {"name": "f0_0", "kind": "int", "target": None, "no_init": True},
                                              {"name": "f0_1", "kind": "opt_ref", "target": "K1", "no_init": True},
                                              {"name": "f0_2", "kind": "list_ref", "target": "K1", "no_init": True}]},
    {"name": "K1", "parent": None, "fields": [{"name": "uid", "kind": "int", "target": None}, {"name": "f1_0", "kind": "str", "target": None, "no_init": True}]}]}


def run(case, ctx):
    return c04.run(case, ctx, mode="c05")
