"""C03 - evaluations are repeatable and do not interfere with each other.

Schedule exploration from the client side.  A case = a set of 1-3 query objects with a given
sharing pattern + a schedule over {start, next, drain, abandon(close), abandon(drop+gc), raise-in-user-
predicate}.  Oracle = the implementation itself in isolation: the identical spec is built a second
time from scratch and each query is evaluated alone; an iterator driven by the schedule must yield
exactly that sequence (a prefix of it when abandoned).
"""
from __future__ import annotations

import gc
import itertools

from vlib import eql_engine as G
from vlib import eql_gen as GEN

ID = "C03"
LEVEL = "exploration"
EXHAUSTIVE = True
RULE = ("sharing patterns {shared variable, shared variable in a 2-variable query, shared sub-expression under not_, "
        "shared sub-query, independent, same query object, rule query (refinement/alternative/next_rule), domain-less "
        "Symbol variable, shared predicate, one attribute expression object in condition and operand position} x domains {list, one-shot generator} x schedules: sequential "
        "(drain / partial+abandon by close, by dropping the reference or by just never advancing it again / raise in user "
        "predicate, then evaluate again) and interleaved (random next/drain/"
        "abandon over up to 4 live iterators); thorough enumerates every interleaving of two iterators with <=7 steps "
        "for every pattern.  Non-trivial = at least two evaluations, one of which yields >=2 results; distinct = pattern "
        "x domain kind x schedule shape")
ASSUMPTIONS = ["reference = the same spec built again from scratch (fresh variables, fresh one-shot domains) and each "
               "query evaluated alone, under the same PYTHONHASHSEED",
               "an abandoned iterator only has to have produced a prefix",
               "inferred instances are compared by (class, tag, identities of constructor arguments)"]
ANCHORS = ["HashedIterable.__iter__", "ResultQuantifier.evaluate", "SymbolicExpression._parent_",
           "ConclusionSelector.update_conclusion", "SymbolicExpression._is_duplicate_output_"]

PATTERNS = ["shared_var", "shared_var2", "shared_sub", "shared_subquery", "independent", "same_query", "rule",
            "domainless", "domainless_attr", "domainless_join", "shared_pred", "shared_scalar", "shared_fn", "shared_attr"]
# a domain-less variable gets a fresh domain at every evaluate(): evaluations that share one do not interfere
SHARING = {"shared_var", "shared_var2", "shared_sub", "shared_subquery", "same_query", "rule", "shared_pred",
           "shared_scalar", "shared_fn", "shared_attr"}


def plan(tier):
    return {"cases": 4000 if tier == "quick" else 100000, "shards": 16, "case_timeout": 30, "shard_timeout": 3000,
            "min_nontrivial": 100,
            "min_counters": {"next_events": 5000, "iterators_started": 5000, "sequential_reevaluations": 500,
                             "interleaved_schedules": 500, "rule_cases_with_more_than_32_results": 20}}


def setup(ctx):
    from vlib import eqlmodel
    ctx["m"] = eqlmodel
    eqlmodel.fresh_symbol_graph()


def recover(ctx):
    ctx["m"].reset_eql_process_state()


def gen_schedule(rng, nq, sequential):
    sched = []
    if sequential:
        for _ in range(rng.randint(2, 4)):
            qi = rng.randrange(nq)
            how = rng.choice(["drain", "drain", "partial_close", "partial_drop", "partial_park", "partial_park", "raise"])
            sched.append(["start", qi])
            j = len([s for s in sched if s[0] == "start"]) - 1
            if how == "drain":
                sched.append(["drain", j])
            elif how == "raise":
                sched.append(["arm", rng.randint(1, 4)])
                sched.append(["drain", j])
                sched.append(["disarm"])
            else:
                for _ in range(rng.randint(0, 3)):
                    sched.append(["next", j])
                sched.append([{"partial_close": "close", "partial_drop": "drop", "partial_park": "park"}[how], j])
        return sched
    if rng.random() < 0.15:
        # every iterator is created first, then they are run one after the other from start to end: the evaluations do
        # not overlap (a created iterator has not begun anything)
        k = rng.randint(2, 3)
        sched = [["start", rng.randrange(nq)] for _ in range(k)]
        for j in rng.sample(range(k), k):
            sched.append(["drain", j])
        return sched
    live = []
    n_it = 0
    for _ in range(rng.randint(3, 12)):
        op = rng.choice(["start", "next", "next", "next", "next", "drain", "close", "drop"])
        if op == "start" or not live:
            if n_it >= 4:
                continue
            sched.append(["start", rng.randrange(nq)])
            live.append(n_it)
            n_it += 1
        else:
            j = rng.choice(live)
            sched.append([op, j])
            if op in ("drain", "close", "drop"):
                live.remove(j)
    return sched


def gen(rng, tier, ctx):
    pattern = rng.choice(PATTERNS)
    world = G.gen_world(rng, n=rng.randint(2, 6))
    dom = [rng.randrange(len(world)) for _ in range(rng.randint(1, 5))]
    if rng.random() < 0.85:
        dom = list(dict.fromkeys(dom))      # else the identical object may occur twice in the domain
    dom2 = list(dict.fromkeys(rng.randrange(len(world)) for _ in range(rng.randint(1, 4))))
    gctx = {"ref_ok": {}}
    atoms = [GEN.gen_atom(rng, ["x"], False, gctx) for _ in range(3)]
    sequential = rng.random() < 0.45
    nq = 2
    schedule = gen_schedule(rng, nq, sequential)
    if pattern == "rule" and rng.random() < 0.3:
        # many bindings: whatever an evaluation remembers per concluded binding grows beyond a few dozen entries
        world = G.gen_world(rng, n=rng.randint(70, 90))
        dom = list(range(len(world)))
    if pattern == "domainless_join":
        # nested loops only: the join is advanced a few times, the other query runs from start to end (or is closed
        # early), then the join goes on.  (Two iterators that walk the shared variable in alternation are the listed
        # live-iterators finding.)
        schedule = [["start", 0]] + [["next", 0]] * rng.randint(0, 4)
        for _ in range(rng.randint(1, 2)):
            j = len([s_ for s_ in schedule if s_[0] == "start"])
            schedule += [["start", 1]] + [["next", j]] * rng.randint(0, 2) + [[rng.choice(["drain", "drain", "close"]), j]]
            schedule += [["next", 0]] * rng.randint(0, 3)
        schedule += [["drain", 0]]
        sequential = False
    return {"pattern": pattern, "gen": rng.random() < 0.5, "world": world, "dom": dom, "dom2": dom2, "atoms": atoms,
            "t": rng.randint(0, 2), "u": rng.randint(0, 2), "rule_kind": rng.choice(["ref", "alt", "next", "ref+alt"]),
            "schedule": schedule, "sequential": sequential}


def exhaustive(tier, ctx):
    if tier != "thorough":
        return
    import random
    rng = random.Random(7)
    world = G.gen_world(rng, n=4)
    gctx = {"ref_ok": {}}
    for pattern in PATTERNS:
        if pattern == "domainless_join":
            continue        # only nested-loop schedules are generated for it, see gen()
        for gen_ in (False, True):
            atoms = [["cmp", ">=", ["attr", ["var", "x"], "a"], ["lit", 1]], ["cmp", "<=", ["attr", ["var", "x"], "b"], ["lit", 1]],
                     ["contains", ["attr", ["var", "x"], "items"], ["lit", 1]]]
            for n in range(2, 8):
                for bits in itertools.product((0, 1), repeat=n):
                    sched = [["start", 0], ["start", 1]] + [["next", b] for b in bits] + [["drain", 0], ["drain", 1]]
                    yield {"pattern": pattern, "gen": gen_, "world": world, "dom": [0, 1, 2, 3], "dom2": [1, 2, 3],
                           "atoms": atoms, "t": 1, "u": 1, "rule_kind": "ref+alt", "schedule": sched, "sequential": False}


def witnesses():
    world = [{"cls": "P", "a": i % 2, "b": i % 3, "items": [i % 2], "kids": [], "ref": None, "d": {"k": 0}, "name": f"o{i}"} for i in range(4)]
    atoms = [["cmp", ">=", ["attr", ["var", "x"], "a"], ["lit", 0]], ["cmp", ">=", ["attr", ["var", "x"], "b"], ["lit", 0]],
             ["cmp", ">=", ["attr", ["var", "x"], "a"], ["lit", 0]]]
    base = {"world": world, "dom": [0, 1, 2, 3], "dom2": [0, 1], "atoms": atoms, "t": 0, "u": 0, "rule_kind": "ref", "sequential": False}
    return {
        "live-iterators-sharing-a-variable": dict(base, pattern="shared_var", gen=True,
                                                   schedule=[["start", 0], ["next", 0], ["start", 1], ["next", 1], ["next", 0], ["drain", 1], ["drain", 0]]),
        "rule-query-second-evaluation-empty": dict(base, pattern="rule", gen=False, sequential=True,
                                                   schedule=[["start", 0], ["drain", 0], ["start", 0], ["drain", 1]]),
        "rule-query-after-abandoned-evaluation": dict(base, pattern="rule", gen=True, sequential=True, rule_kind="next",
                                                      schedule=[["start", 0], ["next", 0], ["next", 0], ["next", 0], ["close", 0],
                                                                ["start", 0], ["drain", 1]]),
    }


def build_queries(spec, m, armed):
    """-> list of query objects for the pattern (fresh objects every call except the world)"""
    from krrood.entity_query_language.entity import let, entity, set_of, not_, and_, inference
    from krrood.entity_query_language.quantify_entity import an
    from krrood.entity_query_language.conclusion import Add
    from krrood.entity_query_language.rule import refinement, alternative, next_rule
    objs = spec["_objs"]
    items = [objs[i] for i in spec["dom"]]
    items2 = [objs[i] for i in spec["dom2"]]
    mk = (lambda it: iter(list(it))) if spec["gen"] else (lambda it: list(it))
    p = spec["pattern"]

    def cond(i, V):
        bspec = {"world": spec["world"], "vars": [], "derived": []}
        return _bc(spec["atoms"][i], V)

    if p == "domainless":
        x = let(m.S0, None, name="x")
        return [an(entity(x, x.a >= spec["t"])), an(entity(x))]
    if p == "domainless_join":
        # the shared domain-less variable is the INNER variable of a join: it is walked again for every value of the
        # outer one, also after the other evaluation has finished
        x = let(m.S0, None, name="x")
        y = let(m.S0, None, name="y")
        return [an(set_of([y, x], y.a >= x.a)), an(entity(x, x.a >= spec["t"]))]
    if p == "domainless_attr":
        # the domain-less variable is reachable only through a selected expression
        x = let(m.S0, None, name="x")
        return [an(entity(x.name)), an(set_of([x.name, x.a]))]
    if p == "shared_scalar":
        # a variable over plain values (0 is falsy) used as a comparator operand in one query and re-bound in the other
        vals = sorted({i % 5 for i in spec["dom"]} | {0})
        n = let(int, mk(vals), name="n")
        return [an(entity(n, n < spec["t"] + 2)), an(entity(n, n >= 0, n < spec["u"] + 2))]
    if p == "shared_attr":
        # one attribute expression object used as a condition, as a comparator operand, and as both in one query
        x = let(m.P, mk(items), name="x")
        f = x.a
        return [an(entity(x, f)), an(entity(x, f < spec["t"] + 1, f)) if spec["u"] % 2 else an(entity(x, f == 0))]
    if p == "shared_fn":
        # one symbolic-function node used as a condition in one query and as a comparator operand in the other
        x = let(m.P, mk(items), name="x")
        f = m.diff_ab(x=x)
        return [an(entity(x, f)), an(entity(x, f == 0))]
    x = let(m.P, mk(items), name="x")
    V = {"x": x}
    if p == "shared_var":
        return [an(entity(x, cond(0, V))), an(entity(x, cond(1, V)))]
    if p == "shared_var2":
        y = let(m.P, mk(items2), name="y")
        return [an(set_of([x, y], x.a >= y.b, cond(0, V))), an(entity(x, cond(1, V)))]
    if p == "shared_sub":
        sub = cond(0, V)
        return [an(entity(x, sub, cond(1, V))), an(entity(x, not_(sub)))]
    if p == "shared_subquery":
        w = let(m.P, mk(items2), name="w")
        s = an(entity(w, w.a >= spec["t"]))
        x2 = let(m.P, mk(items), name="x2")
        return [an(entity(x, x.a == s.a)), an(entity(x2, x2.b >= s.b))]
    if p == "independent":
        y = let(m.P, mk(items), name="y")
        return [an(entity(x, cond(0, V))), an(entity(y, _bc(spec["atoms"][1], {"x": y})))]
    if p == "same_query":
        q = an(entity(x, cond(0, V)))
        return [q, q]
    if p == "shared_pred":
        pr = m.Flaky(x)
        return [an(entity(x, pr, cond(0, V))), an(entity(x, pr))]
    if p == "rule":
        v = inference(m.V)()
        q = an(entity(v, cond(0, V)))
        with q:
            Add(v, inference(m.V)(tag="base", p=x))
            k = spec["rule_kind"]
            if "ref" in k:
                with refinement(cond(1, V)):
                    Add(v, inference(m.V)(tag="ref", p=x))
            if "alt" in k:
                with alternative(cond(2, V)):
                    Add(v, inference(m.V)(tag="alt", p=x))
            if k == "next":
                with next_rule(cond(2, V)):
                    Add(v, inference(m.V)(tag="next", p=x))
        return [q, q]
    raise ValueError(p)


def _bc(c, V):
    from krrood.entity_query_language import entity as E
    from krrood.entity_query_language import symbolic as S
    bt = lambda t: (V[t[1]] if t[0] == "var" else getattr(bt(t[1]), t[2]) if t[0] == "attr" else
                    bt(t[1])[t[2]] if t[0] == "idx" else t[1])
    k = c[0]
    if k == "cmp":
        return S.Comparator(bt(c[2]), bt(c[3]), G.OPS[c[1]])
    if k == "in":
        return E.in_(bt(c[1]), bt(c[2]))
    if k == "contains":
        return E.contains(bt(c[1]), bt(c[2]))
    if k == "truth":
        return bt(c[1])
    raise ValueError(c)


def key_of(r, idmap, m):
    if isinstance(r, m.V):
        return ("V", r.tag, idmap.get(id(r.p), "?"))
    if isinstance(r, tuple):
        return tuple(key_of(x, idmap, m) for x in r)
    if hasattr(r, "data") and hasattr(r, "keys"):
        return tuple(sorted(str(key_of(getattr(v, "value", v), idmap, m)) for v in r.data.values()))
    return idmap.get(id(r), repr(r))


def run(spec, ctx):
    m = ctx["m"]
    C = ctx["counters"]
    if spec["pattern"] in ("domainless", "domainless_attr", "domainless_join"):
        m.fresh_symbol_graph()
        objs = [m.S0(a=o["a"], name=o["name"]) for o in spec["world"]]
    else:
        objs = G.make_world(spec, m)
    spec = dict(spec, _objs=objs)
    idmap = {id(o): i for i, o in enumerate(objs)}
    armed = None
    m.FLAKY["countdown"] = None
    # reference: each query alone on its own fresh build
    ref = []
    nq = 2
    for i in range(nq):
        qs = build_queries(spec, m, armed)
        try:
            ref.append([key_of(r, idmap, m) for r in qs[i].evaluate()])
        except Exception as e:
            recover(ctx)
            C["reference_raises"] += 1
            return {"status": "skip"}
    if spec["pattern"] == "rule" and any(len(r) > 32 for r in ref):
        C["rule_cases_with_more_than_32_results"] += 1
    qs = build_queries(spec, m, armed)
    its, got, owner, closed = {}, {}, {}, {}
    n_it = 0
    max_live = 0
    shared_live = False
    reevaluated_rule = False
    started_q = set()
    under_way = set()
    raised_mode = False
    problems = []
    for step in spec["schedule"]:
        op = step[0]
        if op == "start":
            qi = step[1]
            its[n_it] = iter(qs[qi].evaluate())
            got[n_it] = []
            owner[n_it] = qi
            if spec["pattern"] == "rule" and (qi in started_q or (0 in started_q or 1 in started_q)):
                reevaluated_rule = True
            started_q.add(qi)
            n_it += 1
            C["iterators_started"] += 1
            live_now = [j for j in its if j not in closed]
            max_live = max(max_live, len(live_now))
        elif op in ("next", "drain"):
            j = step[1]
            if j not in its or j in closed:
                continue
            # evaluate() is lazy: an iterator that was created but never advanced has not begun its evaluation.  Two
            # evaluations overlap from the moment both have been advanced and neither has ended.
            under_way.add(j)
            under_way_now = [i for i in under_way if i not in closed]
            owners_now = [owner[i] for i in under_way_now]
            if len(under_way_now) >= 2 and (spec["pattern"] in SHARING or len(set(owners_now)) < len(owners_now)):
                shared_live = True
            try:
                if op == "next":
                    got[j].append(key_of(next(its[j]), idmap, m))
                    C["next_events"] += 1
                else:
                    for r in its[j]:
                        got[j].append(key_of(r, idmap, m))
                        C["next_events"] += 1
                    got[j].append("END")
                    closed[j] = "end"
            except StopIteration:
                got[j].append("END")
                closed[j] = "end"
            except m.Boom:
                closed[j] = "boom"
                C["user_code_raised"] += 1
            except Exception as e:
                got[j].append("EXC:" + type(e).__name__)
                closed[j] = "exc"
        elif op == "close":
            j = step[1]
            if j in its and j not in closed:
                its[j].close()
                closed[j] = "closed"
        elif op == "park":
            # abandoned for good but still referenced (neither closed nor collected): it is never advanced again
            j = step[1]
            if j in its and j not in closed:
                closed[j] = "parked"
                C["parked_iterators"] += 1
        elif op == "drop":
            j = step[1]
            if j in its and j not in closed:
                its[j] = None
                gc.collect()
                closed[j] = "dropped"
        elif op == "arm":
            m.FLAKY["countdown"] = step[1]
        elif op == "disarm":
            m.FLAKY["countdown"] = None
    if spec["sequential"]:
        C["sequential_reevaluations"] += max(0, n_it - 1)
    else:
        C["interleaved_schedules"] += 1
    for j, seq in got.items():
        exp = ref[owner[j]]
        if seq and seq[-1] == "END":
            ok = seq[:-1] == exp
        elif seq and isinstance(seq[-1], str) and seq[-1].startswith("EXC:"):
            ok = False
        else:
            ok = seq == exp[:len(seq)]
        if not ok:
            problems.append(f"iterator {j} of query {owner[j]} yielded {seq[:6]} (len {len(seq)}), alone it yields {exp[:6]} (len {len(exp)})")
    shape = f"{spec['pattern']}|{'gen' if spec['gen'] else 'list'}|" + ",".join(s[0][0] + str(s[1]) if len(s) > 1 else s[0][0] for s in spec["schedule"])
    if problems:
        key = None
        if shared_live:
            key = "live-iterators-sharing-a-variable"
        elif spec["pattern"] == "rule" and n_it >= 2:
            key = "rule-query-second-evaluation-empty"      # fixed in the repository: not listed, so a VIOLATION again
        return {"status": "fail", "kind": "schedule-dependent-result", "key": key,
                "detail": "; ".join(problems[:3]) + " | " + shape}
    nontrivial = n_it >= 2 and any(len(r) >= 2 for r in ref)
    return {"status": "ok", "nontrivial": nontrivial, "shape": shape,
            "obs": {"iterators": n_it, "max_live": max_live, "results": [len(v) for v in got.values()]}}
