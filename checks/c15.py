"""C15 - property-descriptor inference reaches the full closure in any assertion order.

Reference-model monitor: a set of facts is asserted on descriptor-managed fields in a given order
through a given write form; afterwards (a) every managed field of every object and (b)
SymbolGraph().relations() must equal the fix-point closure of the asserted facts under the declared
semantics (vlib/onto_closure), and (a) must agree with (b).
"""
from __future__ import annotations

import itertools

from vlib import onto_closure as OC

ID = "C15"
LEVEL = "exploration"
EXHAUSTIVE = True
RULE = ("random populations (2-7 instances of Person/Employee/Manager, Org/Dept, Chief roles; an eighth of the cases use value-equal but distinct VOrg / VPerson twins) and fact sets of 1-8 "
        "facts over {works_for, head_of, member_of, members, sub_org_of (transitive), wholly_owned_by (sub-property of "
        "sub_org_of), chairs / attends (a role whose super-property lives on a subclass of the declared role taker type), under (the same transitive property declared on another class under another field name), part_of/has_part (transitive + inverse)} including chains, diamonds and cycles, asserted in a random order through a random write form "
        "(assignment, container assignment while empty, container assignment over inferred values, the constructor of the subject, append, extend, insert, add, update); a bank of fixed fact sets "
        "(chains, diamond, cycles, role-taker chains) is run in ALL permutations (<=5 facts quick, <=6 thorough).  "
        "Non-trivial = the closure contains at least two derived facts beyond the asserted ones; distinct = (fact "
        "kinds in assertion order, write forms, population shape)")
ASSUMPTIONS = ["workloads are monotone: a single-valued field is written at most once and a container is only assigned "
               "while empty (retraction is not part of the statement)",
               "a single-valued field for which the closure derives several values is compared by membership only",
               "graph relations are compared as a set of (source, field, target); parallel duplicate edges are reported only"]
ANCHORS = ["PropertyDescriptorRelation.add_to_graph", "PropertyDescriptorRelation.infer_super_relations",
           "PropertyDescriptorRelation.infer_inverse_relation", "PropertyDescriptorRelation.infer_transitive_relations",
           "PropertyDescriptor.update_value", "PropertyDescriptor.__set__", "MonitoredList.append", "MonitoredSet.add"]


def plan(tier):
    return {"cases": 3000 if tier == "quick" else 100000, "shards": 16, "case_timeout": 60, "shard_timeout": 3000,
            "min_nontrivial": 100,
            "min_counters": {"facts_asserted": 8000, "derived_facts_checked": 8000, "permutation_cases": 500,
                             "field:sub_org_of": 500, "field:head_of": 300, "field:part_of": 300, "field:under": 100, "field:chairs": 50, "field:leads": 40, "field:runs": 60, "field:attendees": 40, "role_class:ChiefF": 100, "form:ctor": 200, "form:assign_keep": 30}}


def setup(ctx):
    from models import ontomodel
    ctx["om"] = ontomodel


# ctor: the fact is given to the constructor of its subject (when the subject has not been created yet);
# assign_keep: a new collection is assigned while the field holds inferred values only
LIST_FORMS = ["append", "append", "extend", "insert", "assign_empty", "ctor", "assign_keep"]
SET_FORMS = ["add", "add", "update", "assign_empty", "ctor", "assign_keep"]
FIELD_KIND = {"works_for": ("person", "org", "single"), "head_of": ("chief", "org", "single"),
              "member_of": ("person", "org", "list"), "members": ("org", "member", "set"),
              "sub_org_of": ("org", "org", "list"), "part_of": ("org", "org", "list"), "has_part": ("org", "org", "list"),
              "wholly_owned_by": ("org", "org", "list"), "under": ("unit", "org", "list"),
              "chairs": ("chair", "org", "single"), "attends": ("delegate", "org", "list"),
              "leads": ("convener", "org", "list"), "runs": ("boss", "org", "single"),
              "attendees": ("org", "attendee", "list"), "guides": ("chair", "org", "list"), "sees": ("delegate", "org", "list"),
              "shows": ("convener", "org", "list")}


def gen_population(rng):
    pop = []
    for i in range(rng.randint(1, 3)):
        pop.append([f"p{i}", rng.choice(["Person", "Employee", "Manager"]), None])
    for i in range(rng.randint(1, 4)):
        pop.append([f"o{i}", rng.choice(["Org", "Org", "Dept"]), None])
    persons = [p[0] for p in pop if p[0].startswith("p")]
    for i in range(rng.randint(0, 2)):
        pop.append([f"c{i}", rng.choice(["Chief", "Chief", "Chief", "ChiefF", "ChiefF", "ChiefE"]), rng.choice(persons)])
    for i in range(rng.choice([0, 0, 1, 2])):
        pop.append([f"u{i}", "Unit", None])
    for i in range(rng.choice([0, 0, 1, 2])):
        pop.append([f"b{i}", "Boss", None])
    if rng.random() < 0.3:
        # a role whose super-property lives on a subclass of the declared role taker type only
        visitors = []
        for i in range(rng.randint(1, 2)):
            pop.append([f"v{i}", rng.choice(["Visitor", "Delegate", "Delegate", "Convener", "Convener"]), None])
            visitors.append(f"v{i}")
        # (a chair's role taker carries the field for the inverse of what the chair attends: a plain Visitor cannot
        # take the role - krrood refuses the assertion, there is no field to put the inverse into)
        takers = [v for v in visitors if dict((p[0], p[1]) for p in pop)[v] != "Visitor"]
        for i in range(rng.randint(1, 2) if takers else 0):
            pop.append([f"h{i}", "Chair", rng.choice(takers)])
    return pop


def names_of(pop, kind):
    if kind == "person":
        return [p[0] for p in pop if p[0].startswith("p")]
    if kind == "org":
        return [p[0] for p in pop if p[0].startswith("o")]
    if kind == "chief":
        return [p[0] for p in pop if p[0].startswith("c")]
    if kind == "unit":
        return [p[0] for p in pop if p[0].startswith("u")]
    if kind == "boss":
        return [p[0] for p in pop if p[1] == "Boss"]
    if kind == "chair":
        return [p[0] for p in pop if p[0].startswith("h")]
    if kind == "delegate":
        return [p[0] for p in pop if p[1] in ("Delegate", "Convener")]
    if kind == "convener":
        return [p[0] for p in pop if p[1] == "Convener"]
    if kind == "attendee":
        # who has a field for the inverse: a delegate / convener, or a chair whose role taker is one
        cls_of = {p[0]: p[1] for p in pop}
        return [p[0] for p in pop if p[1] in ("Delegate", "Convener") or (p[1] == "Chair" and cls_of.get(p[2]) in ("Delegate", "Convener"))]
    return [p[0] for p in pop if p[0][0] in "pc"]


def gen_facts(rng, pop, n):
    facts, single_used = [], set()
    fields = list(FIELD_KIND)
    tries = 0
    while len(facts) < n and tries < 60:
        tries += 1
        f = rng.choice(fields)
        sk, ok, kind = FIELD_KIND[f]
        ss, os_ = names_of(pop, sk), names_of(pop, ok)
        if not ss or not os_:
            continue
        s, o = rng.choice(ss), rng.choice(os_)
        if kind == "single":
            if (s, f) in single_used:
                continue
            single_used.add((s, f))
        if (s, f, o) in [tuple(x[:3]) for x in facts]:
            continue
        form = rng.choice(["assign", "assign", "assign", "ctor"]) if kind == "single" else rng.choice(LIST_FORMS if kind == "list" else SET_FORMS)
        facts.append([s, f, o, form])
    return facts


def gen_twins(rng):
    """value-equal but distinct individuals (VOrg("t0") twice): the graph is keyed by identity, so must the fields be"""
    # (the persons are distinguishable: they are held in SETS, which cannot hold two equal elements by Python's own rules)
    pop = [[f"p{i}", "VPerson", f"q{i}"] for i in range(rng.randint(1, 3))]
    pop += [[f"o{i}", "VOrg", f"t{i % 2}"] for i in range(rng.randint(2, 4))]
    facts = []
    for _ in range(rng.randint(1, 7)):
        if rng.random() < 0.5:
            s, f, o, form = rng.choice(names_of(pop, "person")), "member_of", rng.choice(names_of(pop, "org")), rng.choice(["append", "extend", "insert"])
        else:
            s, f, o, form = rng.choice(names_of(pop, "org")), "members", rng.choice(names_of(pop, "person")), rng.choice(["add", "update"])
        if (s, f, o) not in [tuple(x[:3]) for x in facts]:
            facts.append([s, f, o, form])
    return {"pop": pop, "facts": facts, "twins": True}


def gen(rng, tier, ctx):
    if rng.random() < 0.12:
        return gen_twins(rng)
    pop = gen_population(rng)
    facts = gen_facts(rng, pop, rng.randint(1, 8))
    rng.shuffle(facts)
    return {"pop": pop, "facts": facts}


BANK = [
    # chains / diamond / cycles of a transitive property
    ([["o0", "Org", None], ["o1", "Org", None], ["o2", "Dept", None], ["o3", "Org", None]],
     [["o0", "sub_org_of", "o1"], ["o1", "sub_org_of", "o2"], ["o2", "sub_org_of", "o3"]]),
    ([["o0", "Org", None], ["o1", "Org", None], ["o2", "Org", None], ["o3", "Org", None]],
     [["o0", "sub_org_of", "o1"], ["o0", "sub_org_of", "o2"], ["o1", "sub_org_of", "o3"], ["o2", "sub_org_of", "o3"]]),
    ([["o0", "Org", None], ["o1", "Dept", None], ["o2", "Org", None]],
     [["o0", "sub_org_of", "o1"], ["o1", "sub_org_of", "o2"], ["o2", "sub_org_of", "o0"]]),
    ([["o0", "Org", None], ["o1", "Org", None], ["o2", "Org", None], ["o3", "Org", None]],
     [["o0", "part_of", "o1"], ["o2", "has_part", "o1"], ["o2", "part_of", "o3"]]),
    ([["o0", "Org", None], ["o1", "Org", None], ["o2", "Org", None]],
     [["o0", "part_of", "o1"], ["o1", "part_of", "o2"], ["o2", "part_of", "o0"]]),
    ([["o0", "Org", None], ["o1", "Dept", None], ["o2", "Org", None], ["o3", "Dept", None], ["o4", "Org", None]],
     [["o0", "sub_org_of", "o1"], ["o1", "sub_org_of", "o2"], ["o2", "sub_org_of", "o3"], ["o3", "sub_org_of", "o4"],
      ["o4", "sub_org_of", "o2"]]),
    # a sub-property of a transitive property mixed into its chains
    ([["o0", "Org", None], ["o1", "Org", None], ["o2", "Dept", None], ["o3", "Org", None]],
     [["o0", "wholly_owned_by", "o1"], ["o1", "sub_org_of", "o2"], ["o2", "wholly_owned_by", "o3"]]),
    ([["o0", "Org", None], ["o1", "Org", None], ["o2", "Org", None], ["o3", "Org", None]],
     [["o0", "sub_org_of", "o1"], ["o1", "wholly_owned_by", "o2"], ["o2", "wholly_owned_by", "o3"], ["o3", "sub_org_of", "o0"]]),
    # one transitive property on two classes under different field names
    ([["u0", "Unit", None], ["o0", "Org", None], ["o1", "Dept", None], ["o2", "Org", None]],
     [["u0", "under", "o0"], ["o0", "sub_org_of", "o1"], ["o1", "wholly_owned_by", "o2"]]),
    # the super-property of a role lives on a subclass of the declared role taker type
    ([["v0", "Delegate", None], ["v1", "Convener", None], ["o0", "Org", None], ["o1", "Org", None], ["h0", "Chair", "v0"], ["h1", "Chair", "v1"]],
     [["h0", "chairs", "o0"], ["h1", "chairs", "o0"], ["v0", "attends", "o1"], ["o1", "attendees", "h1"]]),
    # role taker chains and inverses
    ([["p0", "Person", None], ["o0", "Org", None], ["o1", "Org", None], ["c0", "Chief", "p0"]],
     [["c0", "head_of", "o0"], ["p0", "member_of", "o1"], ["o1", "members", "c0"], ["o0", "sub_org_of", "o1"]]),
    ([["p0", "Manager", None], ["p1", "Person", None], ["o0", "Dept", None], ["c0", "Chief", "p0"], ["c1", "Chief", "p1"]],
     [["c0", "head_of", "o0"], ["c1", "head_of", "o0"], ["p1", "works_for", "o0"], ["o0", "members", "p0"]]),
    ([["p0", "Employee", None], ["o0", "Org", None], ["o1", "Org", None], ["o2", "Org", None]],
     [["p0", "works_for", "o0"], ["p0", "member_of", "o1"], ["o2", "members", "p0"], ["o0", "part_of", "o1"],
      ["o1", "part_of", "o2"]]),
]


def exhaustive(tier, ctx):
    maxf = 5 if tier == "quick" else 6
    for pop, facts in BANK:
        if len(facts) > maxf:
            continue
        for fi, forms in enumerate((("append", "add"), ("extend", "update"), ("insert", "assign_empty"))):
            if tier == "quick" and fi > 0 and len(facts) > 4:
                continue
            withform = []
            for s, f, o in facts:
                kind = FIELD_KIND[f][2]
                withform.append([s, f, o, "assign" if kind == "single" else forms[0] if kind == "list" else forms[1]])
            for perm in itertools.permutations(withform):
                yield {"pop": pop, "facts": [list(x) for x in perm], "perm": True}


def witnesses():
    return {
        "role-taker-subclass-super-property": {"pop": [["v0", "Delegate", None], ["o0", "Org", None], ["h0", "Chair", "v0"]],
                                               "facts": [["h0", "chairs", "o0", "assign"], ["h0", "guides", "o0", "append"]]},
        "assignment-drops-inferred-values": {"pop": [["p0", "Person", None], ["p1", "Person", None], ["o0", "Org", None]],
                                             "facts": [["p0", "works_for", "o0", "assign"], ["o0", "members", "p1", "assign_keep"]]},
        "constructor-sub-property-before-super-field": {"pop": [["p0", "Person", None], ["o0", "Org", None]],
                                                        "facts": [["p0", "works_for", "o0", "ctor"]]},
        "transitive-property-on-two-classes": {"pop": [["u0", "Unit", None], ["o0", "Org", None], ["o1", "Org", None]],
                                               "facts": [["o0", "sub_org_of", "o1", "append"], ["u0", "under", "o0", "append"]]},
        "role-sub-property-in-constructor-before-the-role-taker-field": {
            "pop": [["p0", "Person", None], ["o0", "Org", None], ["c0", "ChiefE", "p0"]],
            "facts": [["c0", "head_of", "o0", "ctor"]]},
        "inverse-through-a-role-uses-the-declared-role-taker-type": {
            "pop": [["v0", "Convener", None], ["o0", "Org", None], ["h0", "Chair", "v0"]],
            "facts": [["o0", "attendees", "h0", "append"]]},
    }


def assert_fact(named, s, f, o, form, asserted=()):
    kind = FIELD_KIND[f][2]
    O = named[o]
    if form == "ctor" and s not in named:
        # the fact is asserted by the constructor of its subject
        named.create(s, **{f: O if kind == "single" else [O] if kind == "list" else {O}})
        return "ctor"
    S = named[s]
    if kind == "single":
        setattr(S, f, O)
        return "assign"
    cont = getattr(S, f)
    if form == "ctor":
        form = "append" if kind == "list" else "add"
    if form == "assign_keep":
        name_of = {id(v): k for k, v in named.items()}
        if len(cont) and not any((s, f, name_of.get(id(x))) in asserted for x in cont):
            # everything the field holds was inferred; it stays derivable, whatever is assigned
            setattr(S, f, [O] if kind == "list" else {O})
            return "assign_keep"
        form = "append" if kind == "list" else "add"
    if form == "assign_empty":
        if len(cont) == 0:
            setattr(S, f, [O] if kind == "list" else {O})
            return "assign_empty"
        form = "append" if kind == "list" else "add"
    if form == "append":
        cont.append(O)
    elif form == "extend":
        cont.extend([O])
    elif form == "insert":
        cont.insert(0, O)
    elif form == "add":
        cont.add(O)
    elif form == "update":
        cont.update([O])
    else:
        raise ValueError(form)
    return form


def run(spec, ctx):
    from krrood.entity_query_language.symbol_graph import SymbolGraph
    om = ctx["om"]
    C = ctx["counters"]
    SymbolGraph().clear()
    sg = SymbolGraph()
    kinds, taker = {}, {}
    pop = {name: (cls, tk) for name, cls, tk in spec["pop"]}
    for name, (cls, tk) in pop.items():
        kinds[name] = cls
        if cls in ("Chief", "ChiefF", "ChiefE", "Chair"):
            taker[name] = tk

    class Named(dict):
        """the instances by name, created when they are first needed (so that a fact can be given to a constructor)"""

        def create(self, name, **kwargs):
            cls, tk = pop[name]
            if cls == "ChiefE":
                C["role_class:" + cls] += 1
                obj = om.ChiefE(kwargs.pop("head_of", None), self[tk])       # the field order of the class
            elif cls in ("Chief", "ChiefF", "Chair"):
                C["role_class:" + cls] += 1
                obj = om.ALL_CLASSES[cls](self[tk], **kwargs)
            elif cls in ("VOrg", "VPerson"):
                obj = om.ALL_CLASSES[cls](tk, **kwargs)          # the display name repeats: value-equal twins
                C["twin_instances"] += 1
            else:
                obj = om.ALL_CLASSES[cls](name, **kwargs)
            self[name] = obj
            return obj

        def __missing__(self, name):
            return self.create(name)

    named = Named()
    if not any(form == "ctor" for _, _, _, form in spec["facts"]):
        for name in pop:
            named[name]
    forms_used = []
    asserted = set()
    try:
        for s, f, o, form in spec["facts"]:
            forms_used.append(assert_fact(named, s, f, o, form, asserted))
            asserted.add((s, f, o))
            C["facts_asserted"] += 1
            C["field:" + f] += 1
            C["form:" + forms_used[-1]] += 1
    except Exception as e:
        key = None
        s_, f_, o_, form_ = spec["facts"][len(forms_used)]
        if (kinds.get(s_) == "ChiefE" and f_ == "head_of" and form_ == "ctor" and s_ not in named and isinstance(e, TypeError)
                and "weak reference to 'NoneType'" in str(e)):
            # the other face of the listed finding: with an inverse property declared, the inverse is looked for on the
            # role taker of the target - which the running constructor has not assigned yet
            key = "role-sub-property-in-constructor-before-the-role-taker-field"
        return {"status": "fail", "kind": "assertion-raised:" + type(e).__name__, "key": key,
                "detail": f"{type(e).__name__}: {e}"[:300] + f" | facts={spec['facts']} forms={forms_used}"}
    for name in pop:
        named[name]
    named = dict(named)
    facts = {(s, f, o) for s, f, o, _ in spec["facts"]}
    exp = OC.closure(facts, kinds, taker)
    C["derived_facts_checked"] += len(exp) - len(facts)
    if spec.get("perm"):
        C["permutation_cases"] += 1
    fields, raw = OC.observe_fields(om, named)
    rel_list = OC.observe_graph(named, SymbolGraph())
    rel = set(rel_list)
    duplicate_problems = []
    if len(rel_list) != len(rel):
        C["parallel_duplicate_edges"] += len(rel_list) - len(rel)
        dup = sorted({t for t in rel_list if rel_list.count(t) > 1})
        duplicate_problems.append(f"the graph holds the same relation more than once: {dup[:4]}")
    order_ = [(s_, f_, o_) for s_, f_, o_, _ in spec["facts"]]
    for (n_, f_), vals in raw.items():
        if f_ in ("members",) or len(vals) == len(set(vals)):
            continue
        for o_ in {v for v in vals if vals.count(v) > 1}:
            # a list legitimately holds an element twice when it was inferred first and asserted afterwards (the
            # assertion appends like any append); asserted once and not derivable before, it is there once
            if (n_, f_, o_) in order_:
                before = set(order_[:order_.index((n_, f_, o_))])
                if (n_, f_, o_) in OC.closure(before, kinds, taker):
                    continue
            elif vals.count(o_) <= 1:
                continue
            duplicate_problems.append(f"{n_}.{f_} holds {o_} {vals.count(o_)} times: {vals} (asserted at most once, not derivable before)")
    def judge(exp):
        # single-valued fields with several derivable values: membership only
        singles = {}
        for (s, f, o) in exp:
            if f in OC.SINGLE:
                singles.setdefault((s, f), set()).add(o)
        multi = {k for k, v in singles.items() if len(v) > 1}
        e_f = {t for t in exp if (t[0], t[1]) not in multi}
        g_f = {t for t in fields if (t[0], t[1]) not in multi}
        problems = list(duplicate_problems)
        for (s, f) in multi:
            got = {t[2] for t in fields if t[0] == s and t[1] == f}
            if len(got) != 1 or not got <= singles[(s, f)]:
                problems.append(f"single-valued {s}.{f} holds {sorted(got)}, derivable values are {sorted(singles[(s, f)])}")
        if e_f != g_f:
            problems.append(f"fields vs closure: missing {sorted(e_f - g_f)[:5]} extra {sorted(g_f - e_f)[:5]}")
        if rel != exp:
            problems.append(f"graph vs closure: missing {sorted(exp - rel)[:5]} extra {sorted(rel - exp)[:5]}")
        if {t for t in rel if (t[0], t[1]) not in multi} != g_f:
            d1 = {t for t in rel if (t[0], t[1]) not in multi}
            problems.append(f"fields vs graph: only in graph {sorted(d1 - g_f)[:5]} only in fields {sorted(g_f - d1)[:5]}")
        return problems

    problems = judge(exp)
    # the listed finding: a role sub-property given to the constructor of a role class that declares the role's own field
    # before the role-taker field - the role taker does not exist yet when the field is assigned, its super-properties
    # are not inferred (and not made up for).  Judged by the mechanism: exactly the closure without that rule.
    early = {(s_, f_, o_) for (s_, f_, o_, _), fm in zip(spec["facts"], forms_used) if fm == "ctor" and kinds.get(s_) == "ChiefE" and f_ == "head_of"}
    known_key = None
    if problems and early:
        exp_known = OC.closure(facts, kinds, taker, without_role_taker_rule=early)
        if exp_known != exp and not judge(exp_known):
            known_key = "role-sub-property-in-constructor-before-the-role-taker-field"
    for k, items in raw.items():
        if len(items) != len(set(items)) and k[1] != "members":
            C["duplicate_list_entries"] += 1
    shape = "|".join(f"{f}:{fm}" for (_, f, _, _), fm in zip(spec["facts"], forms_used)) + "|" + ",".join(p[1][0] for p in spec["pop"])
    if problems:
        return {"status": "fail", "kind": "closure-mismatch", "key": known_key,
                "detail": "; ".join(problems[:3]) + f" | order={[(s, f, o) for s, f, o, _ in spec['facts']]} forms={forms_used}"}
    return {"status": "ok", "nontrivial": len(exp) - len(facts) >= 2, "shape": shape,
            "obs": {"asserted": len(facts), "closure": len(exp)}}
