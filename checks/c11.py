"""C11 - pattern matching is equivalent to the explicit query it abbreviates.

Reference-model monitor: random entity_matching patterns (literal / nested match / match_any /
match_all / select variants, depth <= 3) are evaluated by the real engine; the returned SET of
domain elements (and the selected inner parts) is compared with a direct Python predicate derived
from the pattern spec.
"""
from __future__ import annotations

import itertools

ID = "C11"
LEVEL = "exploration"
RULE = ("random patterns over a Symbol model (Shelf -> Box/FancyBox -> Part/BigPart, scalar, reference, collection "
        "and list-of-str attributes - literal, match_any and match_all on the latter too): per attribute one of {literal, literal on a collection, nested match (same or "
        "sub type, also constraining an attribute only the sub type has; on an Optional reference that may hold None), element pattern on a collection, match_any(list), match_all(list), match_any(Type)(...), select / "
        "select_any of inner parts}, 1-3 constrained attributes, nesting depth <=3, domains mixing all classes, "
        "distinct elements with equal attribute values and elements sharing one collection object.  Non-trivial = the "
        "expected answer is a non-empty proper subset of the domain elements of the root type; distinct = pattern "
        "skeleton")
ASSUMPTIONS = ["results are compared as sets of domain elements (multiplicities are reported only)",
               "a literal on a collection attribute means membership; match_all means equal element sets",
               "a nested match on a collection attribute is an element pattern (some element matches)"]
ANCHORS = ["Match._resolve", "AttributeAssignment.infer_condition_between_attribute_and_assigned_value",
           "AttributeAssignment.resolve", "Exists._evaluate__", "entity_matching", "Match.expression"]


def plan(tier):
    return {"cases": 4200 if tier == "quick" else 80000, "shards": 16, "case_timeout": 20, "shard_timeout": 3000,
            "min_nontrivial": 60,
            "min_counters": {"elements_compared": 500, "kind:lit": 300, "kind:match": 300, "kind:any": 200,
                             "kind:all": 200, "kind:anymatch": 100, "selects_checked": 50,
                             "builtin_collection_constraints": 100, "patterns_over_a_tuple_field": 150, "patterns_built_from_reused_sub_patterns": 200, "patterns_over_an_optional_collection": 150, "patterns_quantified_twice": 150, "patterns_over_a_collection_with_missing_members": 150, "untyped_patterns_reused": 100}}


def setup(ctx):
    from models import matchmodel
    from krrood.entity_query_language.symbol_graph import SymbolGraph
    SymbolGraph().clear()
    SymbolGraph()
    ctx["mm"] = matchmodel


def gen_world(rng):
    parts = [{"cls": rng.choice(["Part", "BigPart", "MarkedPart", "LoosePart"]), "name": rng.choice("ab"), "size": rng.randint(0, 2), "grade": rng.randint(0, 1)}
             for _ in range(rng.randint(2, 5))]
    boxes = []
    shared = [rng.randrange(len(parts)) for _ in range(2)]
    for i in range(rng.randint(1, 5)):
        share = rng.random() < 0.3
        pl = shared if share else [rng.randrange(len(parts)) for _ in range(rng.randint(0, 3))]
        boxes.append({"cls": rng.choice(["Box", "FancyBox"]), "label": rng.choice(["B0", "B1", "B2"]), "lid": rng.randrange(len(parts)),
                      "parts": pl, "share": share and rng.random() < 0.5, "tags": [rng.choice("xyz") for _ in range(rng.randint(0, 2))],
                      "weight": rng.randint(0, 1), "ribbon": rng.choice("rs"),
                      "spare": rng.randrange(len(parts)) if rng.random() < 0.6 else None,
                      # a collection that may be missing
                      "extras": [rng.randrange(len(parts)) for _ in range(rng.randint(0, 2))] if rng.random() < 0.6 else None,
                      # a collection whose members may be missing
                      "slots": [rng.choice([None, rng.randrange(len(parts))]) for _ in range(rng.randint(0, 3))]})
    shelves = [{"code": rng.choice(["S0", "S1"]), "main": rng.randrange(len(boxes)),
                "boxes": [rng.randrange(len(boxes)) for _ in range(rng.randint(0, 3))]} for _ in range(rng.randint(0, 3))]
    return {"parts": parts, "boxes": boxes, "shelves": shelves}


ELEM_TYPE = {"lid": "Part", "spare": "Part", "parts": "Part", "row": "Part", "extras": "Part", "slots": "Part", "main": "Box", "boxes": "Box"}


def gen_part_pattern(rng, allow_empty=False):
    attrs = {}
    if rng.random() < 0.8:
        attrs["name"] = ["lit", rng.choice("ab")]
    if rng.random() < 0.4 or not attrs:
        attrs["size"] = ["lit", rng.randint(0, 2)]
    if allow_empty and rng.random() < 0.3:
        attrs = {}
    # Marked: a type that is not a subclass of the declared element type (a mixin some parts inherit from)
    type_ = rng.choice(["Part", "Part", "BigPart", "Marked"])
    if type_ == "BigPart" and rng.random() < 0.4:
        attrs["grade"] = ["lit", rng.randint(0, 1)]         # an attribute only the narrower type has
    return {"type": type_, "attrs": attrs}


def gen_box_pattern(rng, world, depth, allow_select):
    attrs = {}
    n = len(world["parts"])
    choices = ["label", "lid", "parts", "weight", "lid", "parts"] + (["tags"] if rng.random() < 0.35 else []) + \
              (["spare"] if rng.random() < 0.3 else [])
    rng.shuffle(choices)
    choices = list(dict.fromkeys(choices))
    for a in choices[:rng.choice([1, 2, 2, 3, 3, 4])]:
        if a == "label":
            attrs[a] = ["lit", rng.choice(["B0", "B1", "B2"])]
        elif a == "weight":
            attrs[a] = ["lit", rng.randint(0, 1)]
        elif a == "tags":
            k = rng.random()
            pool = [rng.choice("xyz") for _ in range(rng.choice([0, 1, 2, 3]))]
            attrs[a] = ["lit", rng.choice("xyz")] if k < 0.5 else ["anylit", pool] if k < 0.75 else ["alllit", pool]
        elif a in ("lid", "spare"):
            k = rng.random()
            if k < 0.6:
                attrs[a] = ["match", gen_part_pattern(rng)]
            elif k < 0.8 and allow_select:
                attrs[a] = ["select", gen_part_pattern(rng, allow_empty=True)]
            else:
                attrs[a] = ["litobj", rng.randrange(n)]
        else:
            k = rng.random()
            cand = [rng.randrange(n) for _ in range(rng.choice([0, 1, 1, 2, 2, 3]))]      # the empty list is a legal literal
            if k < 0.18:
                attrs[a] = ["any", cand]
            elif k < 0.36:
                attrs[a] = ["all", cand]
            elif k < 0.52:
                attrs[a] = ["match", gen_part_pattern(rng)]
            elif k < 0.66:
                attrs[a] = ["anymatch", gen_part_pattern(rng)]
            elif k < 0.74:
                attrs[a] = ["litobj", rng.randrange(n)]
            elif not allow_select:
                attrs[a] = ["any", cand]
            elif k < 0.84:
                attrs[a] = ["select", gen_part_pattern(rng, allow_empty=True)]
            elif k < 0.92:
                attrs[a] = ["select_any", cand]
            else:
                attrs[a] = ["select_all", cand]
    type_ = rng.choice(["Box", "Box", "FancyBox"])
    if type_ == "FancyBox" and rng.random() < 0.4:
        attrs["ribbon"] = ["lit", rng.choice("rs")]
    if rng.random() < 0.2:
        # a collection attribute declared Optional[List[Part]]: None has no members
        k = rng.random()
        cand = [rng.randrange(n) for _ in range(rng.choice([1, 1, 2]))]
        attrs["extras"] = (["litobj", rng.randrange(n)] if k < 0.35 else ["match", gen_part_pattern(rng)] if k < 0.6 else
                           ["anymatch", gen_part_pattern(rng)] if k < 0.8 else ["any", cand])
    if rng.random() < 0.2:
        # a collection attribute declared List[Optional[Part]]: a missing member matches no pattern
        k = rng.random()
        cand = [rng.randrange(n) for _ in range(rng.choice([1, 1, 2]))]
        attrs["slots"] = (["litobj", rng.randrange(n)] if k < 0.3 else ["match", gen_part_pattern(rng)] if k < 0.65 else
                          ["anymatch", gen_part_pattern(rng)] if k < 0.85 else ["any", cand])
    if "parts" in attrs and rng.random() < 0.25:
        # the same elements through a field declared Tuple[Part, ...]
        attrs = {("row" if a == "parts" else a): c for a, c in attrs.items()}
    return {"type": type_, "attrs": attrs}


def gen(rng, tier, ctx):
    world = gen_world(rng)
    allow_select = rng.random() < 0.5
    if world["shelves"] and rng.random() < 0.3:
        attrs = {}
        if rng.random() < 0.5:
            attrs["code"] = ["lit", rng.choice(["S0", "S1"])]
        k = rng.random()
        inner_sel = allow_select and rng.random() < 0.6
        sel_here = allow_select and rng.random() < 0.4
        if k < 0.5:
            attrs["main"] = ["select" if sel_here else "match", gen_box_pattern(rng, world, 1, inner_sel)]
        elif k < 0.8:
            attrs["boxes"] = ["select" if sel_here else "match", gen_box_pattern(rng, world, 1, inner_sel)]
        else:
            attrs["boxes"] = ["anymatch", gen_box_pattern(rng, world, 1, False)]
        pat = {"type": "Shelf", "attrs": attrs}
    else:
        pat = gen_box_pattern(rng, world, 0, allow_select)
    return {"world": world, "pattern": pat, "root_selected": allow_select and rng.random() < 0.5,
            "again": rng.randrange(1, 10 ** 6) if rng.random() < 0.3 else None, "reuse": rng.random() < 0.3}


def witnesses():
    world = {"parts": [{"cls": "Part", "name": "a", "size": 0}, {"cls": "Part", "name": "b", "size": 1}],
             "boxes": [{"cls": "Box", "label": "B0", "lid": 0, "parts": [0, 1], "share": False, "tags": ["x", "y"], "weight": 0},
                       {"cls": "Box", "label": "B1", "lid": 1, "parts": [0, 1], "share": False, "tags": ["y"], "weight": 0}],
             "shelves": []}
    return {
        "match-any-collapses-equal-collections": {"world": world, "pattern": {"type": "Box", "attrs": {"parts": ["any", [0]]}}, "root_selected": False},
        "match-all-over-unhashable-elements": {"world": dict(world, parts=[{"cls": "LoosePart", "name": "a", "size": 0}, {"cls": "LoosePart", "name": "b", "size": 1}]),
                                               "pattern": {"type": "Box", "attrs": {"parts": ["all", [1, 0]]}}, "root_selected": False},
        "literal-on-builtin-collection-is-equality": {"world": world, "pattern": {"type": "Box", "attrs": {"tags": ["lit", "x"]}}, "root_selected": False},
        "nested-match-mixin-type-not-enforced": {"world": dict(world, parts=[{"cls": "MarkedPart", "name": "a", "size": 0}, {"cls": "Part", "name": "a", "size": 1}]),
                                                 "pattern": {"type": "Box", "attrs": {"lid": ["match", {"type": "Marked", "attrs": {"name": ["lit", "a"]}}]}}, "root_selected": False},
        "nested-match-subclass-attribute": {"world": dict(world, parts=[{"cls": "BigPart", "name": "a", "size": 0, "grade": 1}, {"cls": "BigPart", "name": "b", "size": 1, "grade": 0}]),
                                            "pattern": {"type": "Box", "attrs": {"lid": ["match", {"type": "BigPart", "attrs": {"grade": ["lit", 1]}}]}}, "root_selected": False},
        "nested-match-on-none-valued-optional": {"world": dict(world, boxes=[dict(world["boxes"][0], spare=0), dict(world["boxes"][1], spare=None)]),
                                                 "pattern": {"type": "Box", "attrs": {"spare": ["match", {"type": "Part", "attrs": {"name": ["lit", "a"]}}]}}, "root_selected": False},
        "sub-pattern-object-used-in-a-second-pattern": {"world": world, "reuse": True, "root_selected": False,
                                                        "pattern": {"type": "Box", "attrs": {"lid": ["match", {"type": "Part", "attrs": {"name": ["lit", "a"]}}]}}},
        "optional-collection-attribute-not-a-collection": {"world": dict(world, boxes=[dict(world["boxes"][0], extras=[0]), dict(world["boxes"][1], extras=None)]),
                                                          "pattern": {"type": "Box", "attrs": {"extras": ["litobj", 0]}}, "root_selected": False},
        "selected-part-of-another-element": {"world": world, "pattern": {"type": "Box", "attrs": {"lid": ["select", {"type": "Part", "attrs": {}}]}}, "root_selected": True},
    }


def make_world(w, mm):
    parts = [getattr(mm, p["cls"])(name=p["name"], size=p["size"], **({"grade": p.get("grade", 0)} if p["cls"] == "BigPart" else {}))
             for p in w["parts"]]
    boxes = []
    shared_list = None
    for b in w["boxes"]:
        pl = [parts[i] for i in b["parts"]]
        if b["share"]:
            if shared_list is None:
                shared_list = pl
            pl = shared_list
        boxes.append(getattr(mm, b["cls"])(label=b["label"], lid=parts[b["lid"]], parts=pl, row=tuple(pl), tags=list(b["tags"]), weight=b["weight"],
                                           spare=parts[b["spare"]] if b.get("spare") is not None else None,
                                           extras=[parts[i] for i in b["extras"]] if b.get("extras") is not None else None,
                                           slots=[parts[i] if i is not None else None for i in b.get("slots", [])],
                                           **({"ribbon": b.get("ribbon", "")} if b["cls"] == "FancyBox" else {})))
    shelves = [mm.Shelf(code=s["code"], main=boxes[s["main"]], boxes=[boxes[i] for i in s["boxes"]]) for s in w["shelves"]]
    return parts, boxes, shelves


def build_kwargs(pat, mm, parts, M, selects, path):
    kw = {}
    for a, c in pat["attrs"].items():
        k = c[0]
        if k == "lit":
            kw[a] = c[1]
        elif k == "litobj":
            kw[a] = parts[c[1]]
        elif k == "match":
            kw[a] = M.match(getattr(mm, c[1]["type"]))(**build_kwargs(c[1], mm, parts, M, selects, path + (a,)))
        elif k == "select":
            sel = M.select(getattr(mm, c[1]["type"]))
            selects.append((path + (a,), sel))
            sel(**build_kwargs(c[1], mm, parts, M, selects, path + (a,)))
            kw[a] = sel
        elif k == "anylit":
            kw[a] = M.match_any(list(c[1]))
        elif k == "alllit":
            kw[a] = M.match_all(list(c[1]))
        elif k == "any":
            kw[a] = M.match_any([parts[i] for i in c[1]])
        elif k == "all":
            kw[a] = M.match_all([parts[i] for i in c[1]])
        elif k in ("select_any", "select_all"):
            sel = (M.select_any if k == "select_any" else M.select_all)([parts[i] for i in c[1]])
            selects.append((path + (a,), sel))
            kw[a] = sel
        elif k == "anymatch":
            sub = M.match_any(getattr(mm, c[1]["type"]))
            sub(**build_kwargs(c[1], mm, parts, M, selects, path + (a,)))
            kw[a] = sub
    return kw


def build_pattern(pat, mm, parts, M, domain=None, root=False, root_selected=False, selects=None):
    T = getattr(mm, pat["type"])
    m = (M.entity_selection if root_selected else M.entity_matching)(T, domain)
    return m(**build_kwargs(pat, mm, parts, M, selects, ()))


def unconstrained(sub, attr):
    """a nested match / select without keyword constraints on the attribute's declared (element) type adds no condition"""
    return not sub["attrs"] and sub["type"] == ELEM_TYPE.get(attr)


def matches(obj, pat, mm, parts):
    if not isinstance(obj, getattr(mm, pat["type"])):
        return False
    for a, c in pat["attrs"].items():
        v = getattr(obj, a)
        if v is None and a == "extras":
            v = []          # the optional collection is missing: no members
        k = c[0]
        if k == "lit":
            ok = (c[1] in v) if isinstance(v, (list, tuple)) else (v == c[1])
        elif k == "litobj":
            ok = any(x is parts[c[1]] for x in v) if isinstance(v, (list, tuple)) else (v is parts[c[1]])
        elif k in ("match", "select", "anymatch"):
            if isinstance(v, (list, tuple)) and unconstrained(c[1], a):
                ok = True
            else:
                ok = any(matches(x, c[1], mm, parts) for x in v) if isinstance(v, (list, tuple)) else matches(v, c[1], mm, parts)
        elif k == "anylit":
            ok = any(x in c[1] for x in v)
        elif k == "alllit":
            ok = set(v) == set(c[1])
        elif k in ("any", "select_any"):
            cand = {id(parts[i]) for i in c[1]}
            ok = any(id(x) in cand for x in v)
        elif k in ("all", "select_all"):
            ok = {id(x) for x in v} == {id(parts[i]) for i in c[1]}
        else:
            raise ValueError(c)
        if not ok:
            return False
    return True


def allowed_values(o, pat, path, mm, parts):
    """ids of the values a select at `path` may report for the matched element o -> (allowed ids, element ids that
    must all be reported when the select is an element pattern on a collection)"""
    a = path[0]
    c = pat["attrs"][a]
    v = getattr(o, a)
    cands = v if isinstance(v, (list, tuple)) else [v]
    k = c[0]
    if len(path) > 1:
        allowed, must = set(), set()
        for x in cands:
            if matches(x, c[1], mm, parts):
                al, mu = allowed_values(x, c[1], path[1:], mm, parts)
                allowed |= al
                must |= mu
        return allowed, must
    if k == "select":
        elems = [x for x in cands if matches(x, c[1], mm, parts)]
        if isinstance(v, (list, tuple)):
            if unconstrained(c[1], a):
                return {id(v)}, set()
            return {id(x) for x in elems} | {id(v)}, {id(x) for x in elems}
        return {id(x) for x in elems}, {id(x) for x in elems}
    if k in ("select_any", "select_all"):
        cand = {id(parts[i]) for i in c[1]}
        return {id(v)} | {id(x) for x in v if id(x) in cand}, set()
    raise ValueError(c)


def any_entries(o, pat, path=(), chain=()):
    """(path, value of the collection, identities of the objects from the root element down to the holder) for every
    collection an existential constraint looks at below o; the listed finding de-duplicates answers by the value of
    that collection, whoever holds it"""
    out = []
    chain = chain + (id(o),)
    for a, c in pat["attrs"].items():
        v = getattr(o, a, None)
        if c[0] in ("any", "select_any", "anymatch") and isinstance(v, (list, tuple)):
            out.append((path + (a,), tuple(id(x) for x in v), chain))
        if c[0] == "anylit" and isinstance(v, (list, tuple)):
            out.append((path + (a,), tuple(v), chain))          # value-equal lists of strings collapse as well
        if c[0] in ("match", "select", "anymatch") and v is not None:
            for x in (v if isinstance(v, (list, tuple)) else [v]):
                out.extend(any_entries(x, c[1], path + (a,), chain))
    return out


def has_twin(obj_id, entries):
    """some existential collection held by (or below) the object has the same value as one held by another object"""
    for path, val, chain in entries:
        if obj_id in chain:
            # another holder with an equal collection, or the same holder reached through another element
            if any(p2 == path and v2 == val and c2 != chain for p2, v2, c2 in entries):
                return True
    return False


def skeleton(pat):
    return pat["type"] + "(" + ",".join(f"{a}={c[0]}" + (skeleton(c[1]) if c[0] in ("match", "select", "anymatch") else "")
                                         for a, c in sorted(pat["attrs"].items())) + ")"


def kinds(pat, out):
    for a, c in pat["attrs"].items():
        out.add((c[0], a))
        if c[0] in ("match", "select", "anymatch"):
            kinds(c[1], out)
    return out


def run(spec, ctx):
    from krrood.entity_query_language import match as M
    from krrood.entity_query_language.quantify_entity import an
    mm = ctx["mm"]
    C = ctx["counters"]
    parts, boxes, shelves = make_world(spec["world"], mm)
    C["patterns_over_a_tuple_field"] += "row=" in skeleton(spec["pattern"])
    C["patterns_over_an_optional_collection"] += "extras=" in skeleton(spec["pattern"])
    C["patterns_over_a_collection_with_missing_members"] += "slots=" in skeleton(spec["pattern"])
    dom = boxes + parts + shelves
    pat = spec["pattern"]
    ks = kinds(pat, set())
    for k, a in ks:
        C["kind:" + {"select": "match", "select_any": "any", "select_all": "all", "litobj": "lit", "anylit": "any", "alllit": "all"}.get(k, k)] += 1
        if a == "tags":
            C["builtin_collection_constraints"] += 1
    root_T = getattr(mm, pat["type"])
    exp = [o for o in dom if matches(o, pat, mm, parts)]
    exp_ids = {id(o) for o in exp}
    selects = []
    try:
        kw = build_kwargs(pat, mm, parts, M, selects, ())
        m = (M.entity_selection if spec["root_selected"] else M.entity_matching)(root_T, list(dom))(**kw)
        q = an(m)
        rows = list(q.evaluate())
    except Exception as e:
        from krrood.entity_query_language import symbolic as S
        S.SymbolicExpression._symbolic_expression_stack_.clear()
        return {"status": "fail", "kind": "exception:" + type(e).__name__, "key": None,
                "detail": f"{type(e).__name__}: {e}"[:300] + " | " + skeleton(pat)}
    idn = {id(o): repr(o) + "#" + str(i) for i, o in enumerate(dom)}
    extra_problems, missing_problems = [], []
    allowed = {id(o): [allowed_values(o, pat, path, mm, parts) for path, _ in selects] for o in exp}
    supported = set()             # expected elements for which some row speaks
    reported = [set() for _ in selects]
    if selects:
        C["selects_checked"] += 1
    if len(selects) > 1 or (selects and spec["root_selected"]):
        C["multi_select_rows"] += len(rows)
    for r in rows:
        is_row = hasattr(r, "keys") and not isinstance(r, mm.Symbol)
        root, vals = None, [[] for _ in selects]
        if is_row:
            if spec["root_selected"]:
                try:
                    root = r[m.variable]
                except Exception as e:
                    extra_problems.append(f"row has no value for the selected root: {type(e).__name__}")
                    continue
            for i, (path, sel) in enumerate(selects):
                got_any = False
                for var in (sel.variable, sel._var_):
                    try:
                        vals[i].append(r[var])
                        got_any = True
                    except Exception:
                        pass
                if not got_any:
                    extra_problems.append(f"row has no value for the select on {'.'.join(path)}")
        elif not selects:
            root = r
        elif len(selects) == 1 and not spec["root_selected"]:
            vals[0].append(r)
        else:
            extra_problems.append(f"{len(selects)} selects (root selected: {spec['root_selected']}) but a bare value {r!r} was returned")
            continue
        for i, vs in enumerate(vals):
            reported[i] |= {id(x) for x in vs}
        if root is not None and id(root) not in exp_ids:
            extra_problems.append(f"extra element {idn.get(id(root), repr(root))}")
            continue
        cands = [root] if root is not None else exp
        speaks_for = [o for o in cands if all(all(id(x) in allowed[id(o)][i][0] for x in vs) for i, vs in enumerate(vals))]
        if not speaks_for:
            what = [[idn.get(id(x), repr(x)[:40]) for x in vs] for vs in vals]
            extra_problems.append(f"selected parts {what} are not the parts of {'the row element ' + idn.get(id(root), '?') if root is not None else 'any element satisfying the pattern'}")
        supported |= {id(o) for o in speaks_for}
    C["elements_compared"] += len(rows)
    for o in exp:
        if id(o) not in supported:
            missing_problems.append(o)
    lost_parts, lost_ids = [], []
    for i, (path, sel) in enumerate(selects):
        must = set()
        for o in exp:
            if id(o) in supported:
                must |= allowed[id(o)][i][1]
        if not must <= reported[i]:
            lost_ids.extend(sorted(must - reported[i]))
            lost_parts.append(f"matching parts {[idn.get(x, '?') for x in sorted(must - reported[i])][:3]} of the select on {'.'.join(path)} are not reported")
    if len({id(r) for r in rows}) != len(rows) and not selects:
        C["duplicate_results"] += 1
    if extra_problems or missing_problems or lost_parts:
        key = None
        if not extra_problems:
            # the twin need not satisfy the rest of the pattern (the existential condition de-duplicates on its own) and
            # may be held by the same element (two boxes of one shelf with equal part lists)
            entries = [e for o in dom if isinstance(o, root_T) for e in any_entries(o, pat)]
            def lost_part_explained(part_id):
                # the part hangs below a holder whose existential collection has a twin, or it is such a holder itself
                if has_twin(part_id, entries):
                    return True
                roots = [o for o in exp if any(part_id in al[1] for al in allowed[id(o)])]
                return any(has_twin(id(o), entries) for o in roots)

            if all(has_twin(id(o), entries) for o in missing_problems) and all(lost_part_explained(i) for i in lost_ids):
                key = "match-any-collapses-equal-collections"
        C["fail:" + (key or "UNEXPLAINED")] += 1
        detail = extra_problems[:2] + [f"missing elements {[idn.get(id(o), '?') for o in missing_problems][:4]}"] * bool(missing_problems) + lost_parts[:2]
        return {"status": "fail", "kind": "pattern-mismatch", "key": key, "detail": "; ".join(detail) + " | " + skeleton(pat)}
    if spec.get("reuse") and not selects:
        # the pattern itself is quantified a second time
        try:
            again = {id(r) for r in an(m).evaluate()}
        except Exception as e:
            from krrood.entity_query_language import symbolic as S
            S.SymbolicExpression._symbolic_expression_stack_.clear()
            return {"status": "fail", "kind": "reuse:exception:" + type(e).__name__, "key": None,
                    "detail": f"the pattern quantified a second time: {type(e).__name__}: {e}"[:300] + " | " + skeleton(pat)}
        C["patterns_quantified_twice"] += 1
        if again != {id(r) for r in rows if not (hasattr(r, "keys") and not isinstance(r, mm.Symbol))}:
            return {"status": "fail", "kind": "reuse:pattern-mismatch", "key": None,
                    "detail": f"the pattern quantified a second time gives {len(again)} elements, the first time {len(rows)} rows | " + skeleton(pat)}
        # a pattern written without a type, used for attributes of two different types
        try:
            anything = M.match()()
            first_use = {id(r) for r in an(M.entity_matching(mm.Box, list(boxes))(lid=anything)).evaluate()}
            second_use = {id(r) for r in an(M.entity_matching(mm.Shelf, list(shelves))(main=anything)).evaluate()}
        except Exception as e:
            from krrood.entity_query_language import symbolic as S
            S.SymbolicExpression._symbolic_expression_stack_.clear()
            return {"status": "fail", "kind": "reuse:exception:" + type(e).__name__, "key": None,
                    "detail": f"an untyped pattern used for two attributes: {type(e).__name__}: {e}"[:300]}
        C["untyped_patterns_reused"] += 1
        if first_use != {id(b) for b in boxes} or second_use != {id(s_) for s_ in shelves}:
            return {"status": "fail", "kind": "reuse:pattern-mismatch", "key": None,
                    "detail": f"anything = match()(): Box(lid=anything) gives {len(first_use)} of {len(boxes)} boxes, then Shelf(main=anything) "
                              f"gives {len(second_use)} of {len(shelves)} shelves"}
        # the pattern objects written for the attributes are used in a second pattern
        try:
            got2 = {id(r) for r in an(M.entity_matching(root_T, list(dom))(**kw)).evaluate()}
        except Exception as e:
            from krrood.entity_query_language import symbolic as S
            S.SymbolicExpression._symbolic_expression_stack_.clear()
            return {"status": "fail", "kind": "reuse:exception:" + type(e).__name__, "key": None,
                    "detail": f"second pattern built from the same sub-pattern objects: {type(e).__name__}: {e}"[:300] + " | " + skeleton(pat)}
        C["patterns_built_from_reused_sub_patterns"] += 1
        if got2 != exp_ids:
            entries = [e for o in dom if isinstance(o, root_T) for e in any_entries(o, pat)]
            key = None
            if not (got2 - exp_ids) and all(has_twin(i, entries) for i in exp_ids - got2):
                key = "match-any-collapses-equal-collections"
            C["fail:" + (key or "UNEXPLAINED")] += 1
            return {"status": "fail", "kind": "reuse:pattern-mismatch", "key": key,
                    "detail": f"a second pattern built from the same sub-pattern objects: extra {[idn.get(i, '?') for i in got2 - exp_ids][:3]} "
                              f"missing {[idn.get(i, '?') for i in exp_ids - got2][:3]} | " + skeleton(pat)}
    if spec.get("again") and not selects:
        # the same query object once more after collections it looks at were changed IN PLACE
        import random
        rng = random.Random(spec["again"])
        for b in boxes:
            r = rng.random()
            if r < 0.4 and b.parts:
                b.parts.pop(rng.randrange(len(b.parts)))
            elif r < 0.8:
                b.parts.append(rng.choice(parts))
            b.row = tuple(b.parts)
            if rng.random() < 0.3 and b.tags:
                b.tags.pop()
            elif rng.random() < 0.3:
                b.tags.append(rng.choice("xyz"))
        exp2 = {id(o) for o in dom if matches(o, pat, mm, parts)}
        try:
            got2 = {id(r) for r in q.evaluate()}
        except Exception as e:
            return {"status": "fail", "kind": "again:exception:" + type(e).__name__, "key": None,
                    "detail": f"second evaluation after in-place changes: {type(e).__name__}: {e}"[:300] + " | " + skeleton(pat)}
        C["reevaluations_after_in_place_changes"] += 1
        if got2 != exp2:
            entries = [e for o in dom if isinstance(o, root_T) for e in any_entries(o, pat)]
            key = None
            if not (got2 - exp2) and all(has_twin(i, entries) for i in exp2 - got2):
                key = "match-any-collapses-equal-collections"
            C["fail:" + (key or "UNEXPLAINED")] += 1
            return {"status": "fail", "kind": "again:pattern-mismatch", "key": key,
                    "detail": f"second evaluation after in-place changes of the collections: extra {[idn.get(i, '?') for i in got2 - exp2][:3]} "
                              f"missing {[idn.get(i, '?') for i in exp2 - got2][:3]} | " + skeleton(pat)}
    n_root = sum(1 for o in dom if isinstance(o, root_T))
    return {"status": "ok", "nontrivial": 0 < len(exp) < n_root, "shape": skeleton(pat) + ("|rootsel" if spec["root_selected"] else ""),
            "obs": {"expected": len(exp), "rows": len(rows)}}
