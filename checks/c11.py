"""C11 - pattern matching is equivalent to the explicit query it abbreviates.

Reference-model monitor: random entity_matching patterns (literal / nested match / match_any /
match_all / select variants, depth <= 3) are evaluated by the real engine; the returned SET of
domain elements (and the selected inner parts) is compared with a direct Python predicate derived
from the pattern spec.
"""
from __future__ import annotations

import itertools

ID = "C11"
LEVEL = "exploration"
RULE = ("random patterns over a Symbol model (Shelf -> Box/FancyBox -> Part/BigPart, scalar, reference, collection "
        "and list-of-str attributes): per attribute one of {literal, literal on a collection, nested match (same or "
        "sub type), element pattern on a collection, match_any(list), match_all(list), match_any(Type)(...), select / "
        "select_any of inner parts}, 1-3 constrained attributes, nesting depth <=3, domains mixing all classes, "
        "distinct elements with equal attribute values and elements sharing one collection object.  Non-trivial = the "
        "expected answer is a non-empty proper subset of the domain elements of the root type; distinct = pattern "
        "skeleton")
ASSUMPTIONS = ["results are compared as sets of domain elements (multiplicities are reported only)",
               "a literal on a collection attribute means membership; match_all means equal element sets",
               "a nested match on a collection attribute is an element pattern (some element matches)"]
ANCHORS = ["Match._resolve", "AttributeAssignment.infer_condition_between_attribute_and_assigned_value",
           "AttributeAssignment.resolve", "Exists._evaluate__", "entity_matching", "Match.expression"]


def plan(tier):
    return {"cases": 3000 if tier == "quick" else 80000, "shards": 16, "case_timeout": 20, "shard_timeout": 3000,
            "min_nontrivial": 60,
            "min_counters": {"elements_compared": 500, "kind:lit": 300, "kind:match": 300, "kind:any": 200,
                             "kind:all": 200, "kind:anymatch": 100, "selects_checked": 50}}


def setup(ctx):
    from models import matchmodel
    from krrood.entity_query_language.symbol_graph import SymbolGraph
    SymbolGraph().clear()
    SymbolGraph()
    ctx["mm"] = matchmodel


def gen_world(rng):
    parts = [{"cls": rng.choice(["Part", "BigPart"]), "name": rng.choice("ab"), "size": rng.randint(0, 2)} for _ in range(rng.randint(2, 5))]
    boxes = []
    shared = [rng.randrange(len(parts)) for _ in range(2)]
    for i in range(rng.randint(1, 5)):
        share = rng.random() < 0.3
        pl = shared if share else [rng.randrange(len(parts)) for _ in range(rng.randint(0, 3))]
        boxes.append({"cls": rng.choice(["Box", "FancyBox"]), "label": rng.choice(["B0", "B1", "B2"]), "lid": rng.randrange(len(parts)),
                      "parts": pl, "share": share and rng.random() < 0.5, "tags": [rng.choice("xyz") for _ in range(rng.randint(0, 2))],
                      "weight": rng.randint(0, 1)})
    shelves = [{"code": rng.choice(["S0", "S1"]), "main": rng.randrange(len(boxes)),
                "boxes": [rng.randrange(len(boxes)) for _ in range(rng.randint(0, 3))]} for _ in range(rng.randint(0, 3))]
    return {"parts": parts, "boxes": boxes, "shelves": shelves}


def gen_part_pattern(rng):
    attrs = {}
    if rng.random() < 0.8:
        attrs["name"] = ["lit", rng.choice("ab")]
    if rng.random() < 0.4 or not attrs:
        attrs["size"] = ["lit", rng.randint(0, 2)]
    return {"type": rng.choice(["Part", "Part", "BigPart"]), "attrs": attrs}


def gen_box_pattern(rng, world, depth, allow_select):
    attrs = {}
    n = len(world["parts"])
    choices = ["label", "lid", "parts", "weight", "lid", "parts"] + (["tags"] if rng.random() < 0.25 else [])
    rng.shuffle(choices)
    choices = list(dict.fromkeys(choices))
    for a in choices[:rng.randint(1, 3)]:
        if a == "label":
            attrs[a] = ["lit", rng.choice(["B0", "B1", "B2"])]
        elif a == "weight":
            attrs[a] = ["lit", rng.randint(0, 1)]
        elif a == "tags":
            attrs[a] = ["lit", rng.choice("xyz")]
        elif a == "lid":
            k = rng.random()
            if k < 0.6:
                attrs[a] = ["match", gen_part_pattern(rng)]
            elif k < 0.8 and allow_select:
                attrs[a] = ["select", gen_part_pattern(rng)]
            else:
                attrs[a] = ["litobj", rng.randrange(n)]
        else:
            k = rng.random()
            cand = [rng.randrange(n) for _ in range(rng.randint(1, 2))]
            if k < 0.2:
                attrs[a] = ["any", cand]
            elif k < 0.4:
                attrs[a] = ["all", cand]
            elif k < 0.6:
                attrs[a] = ["match", gen_part_pattern(rng)]
            elif k < 0.8:
                attrs[a] = ["anymatch", gen_part_pattern(rng)]
            elif k < 0.9:
                attrs[a] = ["litobj", rng.randrange(n)]
            else:
                attrs[a] = ["select_any", cand] if allow_select else ["any", cand]
    return {"type": rng.choice(["Box", "Box", "FancyBox"]), "attrs": attrs}


def gen(rng, tier, ctx):
    world = gen_world(rng)
    allow_select = rng.random() < 0.5
    if world["shelves"] and rng.random() < 0.3:
        attrs = {}
        if rng.random() < 0.5:
            attrs["code"] = ["lit", rng.choice(["S0", "S1"])]
        k = rng.random()
        if k < 0.5:
            attrs["main"] = ["match", gen_box_pattern(rng, world, 1, False)]
        elif k < 0.8:
            attrs["boxes"] = ["match", gen_box_pattern(rng, world, 1, False)]
        else:
            attrs["boxes"] = ["anymatch", gen_box_pattern(rng, world, 1, False)]
        pat = {"type": "Shelf", "attrs": attrs}
    else:
        pat = gen_box_pattern(rng, world, 0, allow_select)
    return {"world": world, "pattern": pat, "root_selected": allow_select and rng.random() < 0.5}


def witnesses():
    world = {"parts": [{"cls": "Part", "name": "a", "size": 0}, {"cls": "Part", "name": "b", "size": 1}],
             "boxes": [{"cls": "Box", "label": "B0", "lid": 0, "parts": [0, 1], "share": False, "tags": ["x", "y"], "weight": 0},
                       {"cls": "Box", "label": "B1", "lid": 1, "parts": [0, 1], "share": False, "tags": ["y"], "weight": 0}],
             "shelves": []}
    return {
        "match-any-collapses-equal-collections": {"world": world, "pattern": {"type": "Box", "attrs": {"parts": ["any", [0]]}}, "root_selected": False},
        "literal-on-builtin-collection-is-equality": {"world": world, "pattern": {"type": "Box", "attrs": {"tags": ["lit", "x"]}}, "root_selected": False},
    }


def make_world(w, mm):
    parts = [getattr(mm, p["cls"])(name=p["name"], size=p["size"]) for p in w["parts"]]
    boxes = []
    shared_list = None
    for b in w["boxes"]:
        pl = [parts[i] for i in b["parts"]]
        if b["share"]:
            if shared_list is None:
                shared_list = pl
            pl = shared_list
        boxes.append(getattr(mm, b["cls"])(label=b["label"], lid=parts[b["lid"]], parts=pl, tags=list(b["tags"]), weight=b["weight"]))
    shelves = [mm.Shelf(code=s["code"], main=boxes[s["main"]], boxes=[boxes[i] for i in s["boxes"]]) for s in w["shelves"]]
    return parts, boxes, shelves


def build_pattern(pat, mm, parts, M, domain=None, root=False, root_selected=False, selects=None):
    T = getattr(mm, pat["type"])
    if root:
        m = (M.entity_selection if root_selected else M.entity_matching)(T, domain)
    else:
        m = M.match(T)
    kw = {}
    for a, c in pat["attrs"].items():
        k = c[0]
        if k == "lit":
            kw[a] = c[1]
        elif k == "litobj":
            kw[a] = parts[c[1]]
        elif k == "match":
            kw[a] = build_pattern(c[1], mm, parts, M)
        elif k == "select":
            sub = c[1]
            s = M.select(getattr(mm, sub["type"]))
            s(**{aa: cc[1] for aa, cc in sub["attrs"].items()})
            selects.append((a, s))
            kw[a] = s
        elif k == "any":
            kw[a] = M.match_any([parts[i] for i in c[1]])
        elif k == "all":
            kw[a] = M.match_all([parts[i] for i in c[1]])
        elif k == "select_any":
            s = M.select_any([parts[i] for i in c[1]])
            selects.append((a, s))
            kw[a] = s
        elif k == "anymatch":
            sub = M.match_any(getattr(mm, c[1]["type"]))
            inner = build_pattern(c[1], mm, parts, M)
            sub(**inner.kwargs)
            kw[a] = sub
    return m(**kw)


def matches(obj, pat, mm, parts):
    if not isinstance(obj, getattr(mm, pat["type"])):
        return False
    for a, c in pat["attrs"].items():
        v = getattr(obj, a)
        k = c[0]
        if k == "lit":
            ok = (c[1] in v) if isinstance(v, list) else (v == c[1])
        elif k == "litobj":
            ok = any(x is parts[c[1]] for x in v) if isinstance(v, list) else (v is parts[c[1]])
        elif k in ("match", "select", "anymatch"):
            ok = any(matches(x, c[1], mm, parts) for x in v) if isinstance(v, list) else matches(v, c[1], mm, parts)
        elif k in ("any", "select_any"):
            cand = {id(parts[i]) for i in c[1]}
            ok = any(id(x) in cand for x in v)
        elif k == "all":
            ok = {id(x) for x in v} == {id(parts[i]) for i in c[1]}
        else:
            raise ValueError(c)
        if not ok:
            return False
    return True


def skeleton(pat):
    return pat["type"] + "(" + ",".join(f"{a}={c[0]}" + (skeleton(c[1]) if c[0] in ("match", "select", "anymatch") else "")
                                         for a, c in sorted(pat["attrs"].items())) + ")"


def kinds(pat, out):
    for a, c in pat["attrs"].items():
        out.add((c[0], a))
        if c[0] in ("match", "select", "anymatch"):
            kinds(c[1], out)
    return out


def run(spec, ctx):
    from krrood.entity_query_language import match as M
    from krrood.entity_query_language.quantify_entity import an
    mm = ctx["mm"]
    C = ctx["counters"]
    parts, boxes, shelves = make_world(spec["world"], mm)
    dom = boxes + parts + shelves
    pat = spec["pattern"]
    ks = kinds(pat, set())
    for k, a in ks:
        C["kind:" + ("match" if k == "select" else "any" if k == "select_any" else "lit" if k == "litobj" else k)] += 1
    root_T = getattr(mm, pat["type"])
    exp = [o for o in dom if matches(o, pat, mm, parts)]
    selects = []
    key_hint = None
    # known mechanisms
    if any(k in ("any", "select_any", "anymatch") for k, a in ks):
        key_hint = "match-any-collapses-equal-collections"
    if ("lit", "tags") in ks:
        key_hint = "literal-on-builtin-collection-is-equality"
    try:
        m = build_pattern(pat, mm, parts, M, domain=list(dom), root=True, root_selected=spec["root_selected"], selects=selects)
        q = an(m)
        rows = list(q.evaluate())
    except Exception as e:
        from krrood.entity_query_language import symbolic as S
        S.SymbolicExpression._symbolic_expression_stack_.clear()
        return {"status": "fail", "kind": "exception:" + type(e).__name__, "key": None,
                "detail": f"{type(e).__name__}: {e}"[:300] + " | " + skeleton(pat)}
    idn = {id(o): repr(o) + "#" + str(i) for i, o in enumerate(dom)}
    problems = []
    n_sel = len(selects) + (1 if spec["root_selected"] else 0)
    if n_sel == 0:
        got = rows
    elif n_sel == 1 and spec["root_selected"]:
        got = rows
    else:
        # rows are inner parts (one select) or dicts (several selects): check consistency, derive roots when possible
        got = None
        C["selects_checked"] += 1
        for r in rows:
            if n_sel == 1:
                attr, s = selects[0]
                vals = [r]
                # consistency: the selected part must belong to some expected element
                if not any((r is getattr(o, attr)) or (isinstance(getattr(o, attr), list) and any(r is x for x in getattr(o, attr))) for o in exp):
                    problems.append(f"selected {r!r} is not the {attr} of any element satisfying the pattern")
            else:
                try:
                    root = r[m.variable] if spec["root_selected"] else None
                except Exception:
                    root = None
                for attr, s in selects:
                    try:
                        val = r[s._var_]
                    except Exception as e:
                        problems.append(f"row has no value for select on {attr}: {type(e).__name__}")
                        continue
                    if root is not None:
                        ra = getattr(root, attr)
                        if not (val is ra or (isinstance(ra, list) and any(val is x for x in ra))):
                            problems.append(f"row is inconsistent: selected {attr}={val!r} does not belong to the row's element {root!r}")
                if root is not None:
                    got = (got or []) + [root]
        if got is None and not problems:
            # completeness via the selected parts: every expected element must contribute at least one selected part
            attr, s = selects[0]
            sel_ids = {id(r) for r in rows} if n_sel == 1 else None
            if sel_ids is not None:
                for o in exp:
                    v = getattr(o, attr)
                    vs = v if isinstance(v, list) else [v]
                    sub = pat["attrs"][attr]
                    if sub[0] == "select":
                        vs = [x for x in vs if matches(x, sub[1], mm, parts)]
                    else:
                        vs = [x for x in vs if any(x is parts[i] for i in sub[1])]
                    if vs and not any(id(x) in sel_ids for x in vs):
                        problems.append(f"no selected part reported for matching element {o!r}")
    if got is not None:
        C["elements_compared"] += len(got)
        sg, se = {id(o) for o in got}, {id(o) for o in exp}
        if sg != se:
            problems.append(f"extra={[idn.get(i, '?') for i in sorted(sg - se)][:4]} missing={[idn.get(i, '?') for i in sorted(se - sg)][:4]}")
        if len(got) != len(sg):
            C["duplicate_results"] += 1
    if problems:
        C["fail:" + (key_hint or "UNEXPLAINED")] += 1
        return {"status": "fail", "kind": "pattern-mismatch", "key": key_hint, "detail": "; ".join(problems[:3]) + " | " + skeleton(pat)}
    n_root = sum(1 for o in dom if isinstance(o, root_T))
    return {"status": "ok", "nontrivial": 0 < len(exp) < n_root, "shape": skeleton(pat) + ("|rootsel" if spec["root_selected"] else ""),
            "obs": {"expected": len(exp), "rows": len(rows)}}
