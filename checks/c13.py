"""C13 - domain-less variables range over exactly the live instances of their type.

Census monitor over histories: the harness keeps a weak-reference census of every Symbol instance
it creates; after each query step the result of an(entity(let(T, None))).evaluate() must equal
the census (alive after the same gc.collect(), type T or a subclass), each instance once.
Structural invariant at quiescent points: graph nodes = per-class lists = id index = census.
"""
from __future__ import annotations

import gc
import weakref
from collections import Counter

ID = "C13"
LEVEL = "exploration"
RULE = ("random histories (10-60 steps) over a class hierarchy (Person > Employee > Manager, Org > Dept, Chief role) of "
        "{create, drop reference, gc, relate, query with a fresh query, build a query and evaluate it later, "
        "create / drop 8-70 instances at once, re-evaluate an old query, a rule query whose second branch (over another domain-less variable) is written after a "
        "first evaluation compared with the same rule written in one go, forget all queries (the harness also empties krrood's process-wide query registries so "
        "that dropped instances can really die), SymbolGraph().clear() + re-create}.  Non-trivial = the history contains a drop+gc "
        "that reclaims an instance before a later query, or a clear; distinct = the operation-kind sequence (with the "
        "queried type)")
ASSUMPTIONS = ["instances created before a clear() are don't-care afterwards (neither required nor forbidden)",
               "the census is taken after the same gc.collect() the query sees",
               "the structural invariant reads SymbolGraph internals when they exist; if they do not it is skipped and counted"]
ANCHORS = ["update_cache", "SymbolGraph.add_node", "SymbolGraph.remove_node", "SymbolGraph.remove_dead_instances",
           "SymbolGraph.get_instances_of_type", "Symbol.__new__"]

OPS = ["create", "create", "create", "clone", "q_during", "drop", "drop", "gc", "relate", "q_new", "q_new", "q_build", "q_build_attr", "q_eval", "q_eval",
       "clear", "forget", "forget", "q_rule", "q_rule_eval", "q_rule_eval", "q_pair"]


def plan(tier):
    return {"cases": 3000 if tier == "quick" else 50000, "shards": 16, "case_timeout": 60, "shard_timeout": 3000,
            "min_nontrivial": 100,
            "min_counters": {"queries_checked": 5000, "instances_reclaimed": 1000,
                             "clears": 100, "reevaluations": 500, "bulk_dropped": 2000, "rule_pairs_compared": 300,
                             "rule_pairs_with_answers": 100, "pair_queries_checked": 300, "stored_queries_with_the_variable_behind_a_nested_query": 100,
                             "clones": 300 if tier == "quick" else 5000,
                             "queries_with_instances_created_meanwhile": 300 if tier == "quick" else 5000}}


def setup(ctx):
    from models import ontomodel
    ctx["om"] = ontomodel


def gen(rng, tier, ctx):
    n = rng.randint(10, 60)
    steps = []
    p_clear = rng.choice([0.0, 0.0, 0.03, 0.06])
    for _ in range(n):
        op = rng.choice(OPS)
        if op == "clear" and rng.random() > p_clear * 10:
            op = "create"
        if op == "create":
            steps.append(["create", rng.choice(["Person", "Employee", "Manager", "Org", "Dept", "Chief", "Volunteer", "WorkingStudent", "VOrg", "VOrg", "VPerson",
                                                "SeasonalA", "SeasonalB", "Row", "Row", "Lenient", "Visitor"])])
        elif op == "clone":
            # "however they were created": a copy, a deep copy, an unpickled instance (every protocol)
            steps.append(["clone", rng.randrange(1000), rng.choice(["copy", "deepcopy"] + [f"pickle{p}" for p in range(6)])])
        elif op in ("drop",):
            steps.append(["drop", rng.randrange(1000)])
        elif op == "relate":
            steps.append(["relate", rng.choice(["works_for", "member_of", "members", "sub_org_of"]), rng.randrange(1000), rng.randrange(1000)])
        elif op in ("q_new", "q_build") and rng.random() < 0.06:
            steps.append([op, "Badged"])        # a class whose instances are those of a class registered with it (ABC.register)
        elif op in ("q_new", "q_build", "q_build_attr"):
            steps.append([op, rng.choice(["Person", "Employee", "Manager", "Org", "Dept", "Chief", "Volunteer", "WorkingStudent", "VOrg", "VPerson",
                                          "SeasonalA", "Row", "Row", "Lenient", "Visitor"])])
        elif op == "q_during":
            # instances created while the query is being evaluated: of the queried class and of its subclasses, in any order
            t = rng.choice(["Person", "Person", "Org", "Employee", "Visitor"])
            below = {"Person": ["Person", "Employee", "Manager", "Volunteer"], "Org": ["Org", "Dept"], "Employee": ["Employee", "Manager"],
                     "Visitor": ["Visitor", "Delegate", "Convener"]}[t]
            steps.append([op, t, rng.randint(0, 3), [rng.choice(below) for _ in range(rng.randint(1, 4))]])
        elif op == "q_pair":
            t = rng.choice(["Person", "Org", "Employee", "Dept"])
            steps.append([op, t, t if rng.random() < 0.7 else rng.choice(["Person", "Org", "Employee", "Dept", "Volunteer"])])
        elif op == "q_rule":
            steps.append([op, rng.choice(["Person", "Org", "Employee", "Dept"]), rng.choice(["Person", "Org", "Employee", "Dept", "Volunteer"])])
        elif op == "q_rule_eval":
            steps.append([op, rng.randrange(1000)])
        elif op == "q_eval":
            steps.append(["q_eval", rng.randrange(1000)])
        else:
            steps.append([op])
    if rng.random() < 0.25:
        # a whole world is created and dropped at once (many instances die between two evaluations), new instances
        # are created before the next query sees the graph
        classes = ["Person", "Employee", "Manager", "Org", "Dept", "Volunteer"]
        at = rng.randrange(len(steps) + 1)
        bulk = [["create_many", rng.choice(classes), rng.choice([8, 20, 33, 40, 70])] for _ in range(rng.randint(1, 2))]
        bulk += [["q_new", rng.choice(classes)]] * rng.choice([0, 1])
        bulk += [["drop_many", rng.choice([0.5, 0.9, 1.0])], ["gc"]]
        bulk += [["create", rng.choice(classes)] for _ in range(rng.randint(1, 12))]
        bulk += [["q_new", rng.choice(["Person", "Org"])]]
        steps[at:at] = bulk
    steps.append(["gc"])
    steps.append(["q_new", "Person"])
    steps.append(["q_new", "Org"])
    return {"steps": steps}


def witnesses():
    return {"diamond-subclass-listed-twice": {"steps": [["create", "WorkingStudent"], ["create", "Employee"], ["q_new", "Person"],
                                                        ["q_new", "Volunteer"]]},
            "late-branch-variable-keeps-first-domain": {"steps": [
        ["create", "Person"], ["create", "Org"], ["q_rule", "Person", "Org"], ["q_rule_eval", 0], ["create", "Org"], ["q_rule_eval", 0]]},
            "instances-of-a-registered-subclass-left-out": {"steps": [["create", "Row"], ["create", "Row"], ["q_new", "Badged"]]},
            "instances-created-meanwhile-seen-by-class-position": {"steps": [
        ["create", "Org"], ["create", "Dept"], ["q_during", "Org", 1, ["Org", "Dept"]]]},
            "instance-unpickled-with-an-old-protocol-not-registered": {"steps": [
        ["create", "Row"], ["clone", 0, "pickle0"], ["clone", 0, "pickle1"], ["clone", 0, "copy"], ["q_new", "Row"]]},
            "instances-merged-by-an-attribute-called-_id_": {"steps": [
        ["create", "Row"], ["create", "Row"], ["create", "Lenient"], ["create", "Lenient"], ["q_new", "Row"], ["q_new", "Lenient"],
        ["q_build_attr", "Row"]]},
            "domainless-query-reevaluation-stale": {"steps": [
        ["create", "Person"], ["q_build", "Person"], ["q_eval", 0], ["create", "Person"], ["q_eval", 0]]}}


def run(spec, ctx):
    from krrood.entity_query_language.entity import entity, let
    from krrood.entity_query_language.quantify_entity import an
    from krrood.entity_query_language.symbol_graph import SymbolGraph
    from vlib import holders
    om = ctx["om"]
    C = ctx["counters"]
    holders.clear_known_holders()
    SymbolGraph().clear()
    sg = SymbolGraph()
    strong = {}            # name -> object (harness references)
    census = {}            # name -> weakref
    pre_clear = set()      # names created before the last clear
    seq = 0
    queries = []           # [query, type name, evaluated_before, census names at first evaluation]
    attr_queries = []      # [query selecting let(T, None).name, type name]
    rule_pairs = []        # [rule written in one go, the same rule extended after a first evaluation, type names]
    problems = []
    known = None
    state = {"dead_seen": 0, "reclaimed_before_query": False}
    shape = []

    def alive(tname=None):
        out = {}
        for n, r in census.items():
            o = r()
            if o is not None and (tname is None or isinstance(o, om.ALL_CLASSES[tname])):
                out[n] = o
        return out

    def check_query(q, tname, label, reeval, first_names):
        nonlocal known
        gc.collect()
        try:
            res = list(q.evaluate())
        except Exception as e:
            problems.append(f"{label}: evaluate raised {type(e).__name__}: {e}")
            return
        C["queries_checked"] += 1
        n_dead = sum(1 for r in census.values() if r() is None)
        if n_dead > state["dead_seen"]:
            C["instances_reclaimed"] += n_dead - state["dead_seen"]
            state["dead_seen"] = n_dead
            state["reclaimed_before_query"] = True
        exp = alive(tname)
        exp_ids = {id(o): n for n, o in exp.items()}
        got_ids = Counter(id(o) for o in res)
        dups = [exp_ids.get(i, "?") for i, c in got_ids.items() if c > 1]
        if dups:
            problems.append(f"{label}: instances returned more than once: {dups[:4]}")
        required = {i for i, n in exp_ids.items() if n not in pre_clear}
        allowed = set(exp_ids)
        # an object that is not in the census at all (not created by the harness) or dead
        foreign = [i for i in got_ids if i not in allowed]
        missing = [exp_ids[i] for i in required if i not in got_ids]
        if foreign:
            problems.append(f"{label}: {len(foreign)} returned objects are not live instances of {tname} created by the harness")
        if missing:
            msg = f"{label}: live instances missing from let({tname}, None): {sorted(missing)[:5]}"
            if reeval and all(m not in first_names for m in missing) and not foreign and not dups:
                known = known or "domainless-query-reevaluation-stale"
                problems.append("[known] " + msg)
            else:
                known = "__unexplained__"
                problems.append(msg)
        elif foreign or dups:
            known = "__unexplained__"
        invariant(label)

    def invariant(label):
        try:
            _invariant(label)
        except Exception as e:     # the registry's internals are organised differently: nothing to observe
            C["invariant_skipped_internals_differ:" + type(e).__name__] += 1

    def _invariant(label):
        g = SymbolGraph()
        try:
            nodes = g._instance_graph.nodes()
            per_class = g._class_to_wrapped_instances
            index = g._instance_index
        except AttributeError:
            C["invariant_skipped_no_internals"] += 1
            return
        C["invariant_checks"] += 1
        live = {id(o) for n, o in alive().items() if n not in pre_clear}
        node_ids = {id(w.instance) for w in nodes if w.instance is not None}
        dead_nodes = sum(1 for w in nodes if w.instance is None)
        cls_ids = {id(w.instance) for lst in per_class.values() for w in lst if w.instance is not None}
        if dead_nodes:
            C["dead_nodes_seen_after_query"] += dead_nodes     # C20's business (bookkeeping), not a C13 failure
        # observations about the registry's internal indexes (evidence only: another implementation may organise
        # them differently; the census above is what decides the property)
        if not live <= node_ids:
            C["obs:live_instances_without_graph_node"] += len(live - node_ids)
        if node_ids != cls_ids:
            C["obs:class_lists_and_graph_nodes_disagree"] += len(node_ids ^ cls_ids)
        idx_live = {k for k, w in index.items() if w.instance is not None and id(w.instance) == k}
        if not live <= idx_live:
            C["obs:live_instances_missing_from_id_index"] += len(live - idx_live)

    for step in spec["steps"]:
        op = step[0]
        if op == "create":
            seq += 1
            name = f"{step[1]}{seq}"
            if step[1] == "Chief":
                persons = [o for n, o in strong.items() if isinstance(o, om.Person)]
                if not persons:
                    continue
                obj = om.Chief(persons[seq % len(persons)])
            elif step[1] in ("VOrg", "VPerson"):
                obj = om.ALL_CLASSES[step[1]](f"twin{seq % 2}")      # value-equal, distinct instances
            else:
                obj = om.ALL_CLASSES[step[1]](name)
            strong[name] = obj
            census[name] = weakref.ref(obj)
            shape.append("c")
        elif op == "clone":
            # instances of classes without managed fields (a copy of a related instance is C14's / C16's business)
            plain = [n for n, o in sorted(strong.items()) if type(o) in (om.Row, om.Visitor) and n not in pre_clear]
            if not plain:
                continue
            import copy
            import pickle
            src = strong[plain[step[1] % len(plain)]]
            seq += 1
            name = f"{type(src).__name__}{seq}"
            if step[2] == "copy":
                obj = copy.copy(src)
            elif step[2] == "deepcopy":
                obj = copy.deepcopy(src)
            else:
                obj = pickle.loads(pickle.dumps(src, protocol=int(step[2][-1])))
            strong[name] = obj
            census[name] = weakref.ref(obj)
            C["clones:" + step[2]] += 1
            C["clones"] += 1
            del src
            shape.append("k")
        elif op == "create_many":
            for _ in range(step[2]):
                seq += 1
                name = f"{step[1]}{seq}"
                obj = om.ALL_CLASSES[step[1]](name)
                strong[name] = obj
                census[name] = weakref.ref(obj)
            del obj
            C["bulk_created"] += step[2]
            shape.append("C%d" % step[2])
        elif op == "drop_many":
            names = sorted(strong)
            victims = names[:int(len(names) * step[1])] if step[1] < 1.0 else names
            for name in victims:
                del strong[name]
            C["bulk_dropped"] += len(victims)
            shape.append("D")
        elif op == "drop":
            if strong:
                name = sorted(strong)[step[1] % len(strong)]
                del strong[name]
                shape.append("d")
        elif op == "gc":
            gc.collect()
            shape.append("g")
        elif op == "relate":
            kind, i, j = step[1], step[2], step[3]
            persons = [o for n, o in sorted(strong.items()) if isinstance(o, om.Person) and n not in pre_clear]
            orgs = [o for n, o in sorted(strong.items()) if isinstance(o, om.Org) and n not in pre_clear]
            try:
                if kind == "works_for" and persons and orgs and persons[i % len(persons)].works_for is None:
                    persons[i % len(persons)].works_for = orgs[j % len(orgs)]
                elif kind == "member_of" and persons and orgs:
                    persons[i % len(persons)].member_of.append(orgs[j % len(orgs)])
                elif kind == "members" and persons and orgs:
                    orgs[i % len(orgs)].members.add(persons[j % len(persons)])
                elif kind == "sub_org_of" and len(orgs) > 1:
                    orgs[i % len(orgs)].sub_org_of.append(orgs[j % len(orgs)])
                C["relations_asserted"] += 1
            except Exception as e:
                C["relate_raised:" + type(e).__name__] += 1     # C14's business
            shape.append("r")
        elif op == "q_new":
            T = om.ALL_CLASSES[step[1]]
            check_query(an(entity(let(T, None))), step[1], f"fresh query over {step[1]}", False, set())
            shape.append("q" + step[1][0])
        elif op == "q_during":
            # "the instances that currently exist": whatever moment of the evaluation "currently" is, it is ONE moment -
            # the answer is what existed before plus the instances created up to some point of the evaluation (a prefix
            # of the creation sequence: none of them for a snapshot, all of them for a live view)
            T = om.ALL_CLASSES[step[1]]
            gc.collect()
            before = alive(step[1])
            it = iter(an(entity(let(T, None))).evaluate())
            got = []
            try:
                for _ in range(step[2]):
                    got.append(next(it))
            except StopIteration:
                pass
            created = []
            for cn in step[3]:
                seq += 1
                name = f"{cn}{seq}"
                obj = om.ALL_CLASSES[cn](name)
                strong[name] = obj
                census[name] = weakref.ref(obj)
                created.append(obj)
            del obj
            try:
                got.extend(it)
            except Exception as e:
                problems.append(f"query over {step[1]} with instances created meanwhile: {type(e).__name__}: {e}")
                known = "__unexplained__"
                continue
            C["queries_checked"] += 1
            C["queries_with_instances_created_meanwhile"] += 1
            got_ids = Counter(id(o) for o in got)
            required = {id(o) for n, o in before.items() if n not in pre_clear}
            allowed_before = {id(o) for o in before.values()}
            new_ids = [id(o) for o in created]
            seen_new = [i in got_ids for i in new_ids]
            is_prefix = all(seen_new[:sum(seen_new)])
            C["meanwhile:" + ("none" if not any(seen_new) else "all" if all(seen_new) else "some")] += 1
            if any(c > 1 for c in got_ids.values()) or not required <= set(got_ids) or set(got_ids) - allowed_before - set(new_ids) or not is_prefix:
                problems.append(f"query over {step[1]}, {step[2]} results taken, then {step[3]} created: the answer holds "
                                f"{len(got)} instances ({len(set(got_ids))} distinct) for {len(before)} existing ones and sees the new ones as {seen_new} "
                                f"- not what existed at any one moment of the evaluation")
                known = "__unexplained__"
            del got, created, it, before
            shape.append("m" + step[1][0])
        elif op == "q_pair":
            # two domain-less variables in one query (mostly of the same type): each ranges over every live instance
            from krrood.entity_query_language.entity import set_of
            T1, T2 = om.ALL_CLASSES[step[1]], om.ALL_CLASSES[step[2]]
            a, b = let(T1, None), let(T2, None)
            gc.collect()
            try:
                got = Counter((id(r[a]), id(r[b])) for r in an(set_of([a, b])).evaluate())
            except Exception as e:
                problems.append(f"pair query over {step[1]} x {step[2]}: evaluate raised {type(e).__name__}: {e}")
                known = "__unexplained__"
                continue
            C["queries_checked"] += 1
            C["pair_queries_checked"] += 1
            l1, l2 = alive(step[1]), alive(step[2])
            required = Counter((id(x), id(y)) for n, x in l1.items() for m_, y in l2.items() if n not in pre_clear and m_ not in pre_clear)
            allowed = Counter((id(x), id(y)) for x in l1.values() for y in l2.values())
            if (required - got) or (got - allowed):
                problems.append(f"pair query over {step[1]} x {step[2]}: {sum(got.values())} pairs ({len(got)} distinct) for "
                                f"{len(l1)} x {len(l2)} live instances")
                known = "__unexplained__"
            shape.append("P")
        elif op == "q_build":
            T = om.ALL_CLASSES[step[1]]
            queries.append([an(entity(let(T, None))), step[1], False, set()])
            shape.append("b" + step[1][0])
        elif op == "q_build_attr":
            # the domain-less variable is reachable only through the selected attribute
            if step[1] == "Chief":
                continue            # a role has no name field
            T = om.ALL_CLASSES[step[1]]
            if len(shape) % 2 == 0:
                # ... of a nested query: two levels away from the query that is evaluated
                attr_queries.append([an(entity(an(entity(let(T, None).name)))), step[1]])
                C["stored_queries_with_the_variable_behind_a_nested_query"] += 1
            else:
                attr_queries.append([an(entity(let(T, None).name)), step[1]])
            shape.append("a" + step[1][0])
        elif op == "q_eval" and attr_queries and step[1] % 3 == 0:
            q, tname = attr_queries[step[1] % len(attr_queries)]
            gc.collect()
            try:
                names = Counter(q.evaluate())
            except Exception as e:
                problems.append(f"attribute query over {tname}: evaluate raised {type(e).__name__}: {e}")
                known = "__unexplained__"
                continue
            C["queries_checked"] += 1
            C["attribute_queries_checked"] += 1
            live = alive(tname)
            required = Counter(o.name for n, o in live.items() if n not in pre_clear)
            allowed = Counter(o.name for n, o in live.items())
            if (required - names) or (names - allowed):
                problems.append(f"attribute query over {tname}: names {dict(names)} vs live instances {dict(required)}")
                known = "__unexplained__"
            shape.append("A")
        elif op == "q_eval":
            if queries:
                ent = queries[step[1] % len(queries)]
                if ent[2]:
                    C["reevaluations"] += 1
                first_names = ent[3] if ent[2] else set()
                now = set(alive(ent[1]))
                check_query(ent[0], ent[1], f"{'re-' if ent[2] else ''}evaluation of a stored query over {ent[1]}",
                            ent[2], first_names)
                if not ent[2]:
                    ent[2], ent[3] = True, now
                shape.append("e")
        elif op == "q_rule":
            # a rule query whose second branch (over another domain-less variable) is written after the base rule has been
            # evaluated once - the ripple-down workflow - next to the same rule written in one go
            from krrood.entity_query_language.entity import inference
            from krrood.entity_query_language.conclusion import Add
            from krrood.entity_query_language.rule import alternative
            from vlib import eqlmodel
            T1, T2 = om.ALL_CLASSES[step[1]], om.ALL_CLASSES[step[2]]

            def build_rule(evaluate_before_extending):
                a, b = let(T1, None), let(T2, None)
                v = inference(eqlmodel.V)()
                q = an(entity(v, a.name == "<nobody>"))
                if evaluate_before_extending:
                    list(q.evaluate())
                with q:
                    Add(v, inference(eqlmodel.V)(tag="base", p=a))
                    with alternative(b.name != "<nobody>"):
                        Add(v, inference(eqlmodel.V)(tag="alt", p=b))
                return q
            try:
                rule_pairs.append([build_rule(False), build_rule(True), step[1], step[2]])
            except Exception as e:
                problems.append(f"rule over {step[1]} / {step[2]}: building raised {type(e).__name__}: {e}")
                known = "__unexplained__"
            shape.append("R")
        elif op == "q_rule_eval":
            if rule_pairs:
                reference, extended_later, t1, t2 = rule_pairs[step[1] % len(rule_pairs)]
                gc.collect()
                try:
                    want = Counter(id(r.p) for r in reference.evaluate())
                    got = Counter(id(r.p) for r in extended_later.evaluate())
                except Exception as e:
                    problems.append(f"rule over {t1} / {t2}: evaluate raised {type(e).__name__}: {e}")
                    known = "__unexplained__"
                    continue
                C["rule_pairs_compared"] += 1
                if want:
                    C["rule_pairs_with_answers"] += 1
                if set(want) != set(got):
                    names_of = {id(o): n for n, o in strong.items()}
                    problems.append(f"rule over {t1} / {t2} whose second branch was written after a first evaluation ranges over "
                                    f"{sorted(names_of.get(i, '?') for i in got)}, the same rule written in one go over "
                                    f"{sorted(names_of.get(i, '?') for i in want)}")
                    known = "__unexplained__"
                shape.append("V")
        elif op == "forget":
            rule_pairs.clear()
            # the program drops its query objects and results: the harness also empties krrood's known
            # process-wide query registries (C20's finding), otherwise nothing is ever reclaimed
            queries.clear()
            attr_queries.clear()
            holders.clear_known_holders()
            shape.append("f")
        elif op == "clear":
            SymbolGraph().clear()
            SymbolGraph()
            pre_clear |= set(census)
            # queries built before the clear stay: evaluated afterwards they range over the new graph's instances
            C["clears"] += 1
            C["queries_kept_across_clear"] += len(queries)
            state["reclaimed_before_query"] = True
            shape.append("X")
    strong.clear()
    if problems:
        unexplained = [p for p in problems if not p.startswith("[known]")]
        key = known if (known and known != "__unexplained__" and not unexplained) else None
        return {"status": "fail", "kind": "census-mismatch", "key": key, "detail": "; ".join((unexplained or problems)[:3])}
    return {"status": "ok", "nontrivial": state["reclaimed_before_query"], "shape": "".join(shape),
            "obs": {"steps": len(spec["steps"]), "created": seq}}
