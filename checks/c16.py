"""C16 - every way of writing a descriptor-managed field keeps the data and infers alike.

Reference-model monitor: a random sequence of write operations is applied to a descriptor-managed
list field (Person.member_of) or set field (Org.members) of the real model and to a plain Python
list / set; after every operation the field must contain exactly what Python semantics dictate
(order and multiplicity for lists) and every element that ever became part of the field must be
recorded in the symbol graph with the inferences of the reference closure (C15's oracle).
"""
from __future__ import annotations

from vlib import onto_closure as OC

ID = "C16"
LEVEL = "exploration"
RULE = ("random sequences (1-8) of {assign new collection, assign the field to itself, +=, |=, append, extend, insert, "
        "item assignment, slice assignment, add, update (one or several arguments), extend by itself, += / |= on the container "
        "under another name, a fresh individual related to the owner from the other side (the inference lands in the field and survives later assignments), an assignment that fails part way (contents afterwards not promised, later writes and inferences are); a second instance whose field is first written (constructor, dataclasses.replace, assignment) with the managed container of the first; falsy and iterable elements / owners; the iterable arguments given as list / tuple / generator / iterator / "
        "map / reversed} on a list-valued and a set-valued managed field starting from "
        "random contents (given at construction or assigned), under several PYTHONHASHSEEDs.  Non-trivial = the "
        "sequence contains at least two different operation kinds and the field ends non-empty; distinct = the "
        "sequence of operation kinds x field kind x start form")
ASSUMPTIONS = ["inferred elements enter the written field only through the inverse-write operation (and the transitive chains of the tlist family)",
               "the order among the inferred elements an assignment keeps is not compared",
               "relations are monotone: an element that left the field keeps its graph relations (not compared as a defect)"]
ANCHORS = ["PropertyDescriptor.__set__", "PropertyDescriptor._ensure_monitored_type", "MonitoredList.append",
           "MonitoredList.extend", "MonitoredList.insert", "MonitoredList.__setitem__", "MonitoredSet.add",
           "MonitoredSet.update", "MonitoredContainer._on_add"]

LIST_OPS = ["assign_new", "assign_self", "iadd", "append", "extend", "insert", "setitem", "setslice", "extend_self", "iadd_alias",
            "setitem_rejected", "inverse_write", "assign_rejected", "setslice_extended"]
SET_OPS = ["assign_new", "assign_self", "ior", "add", "update", "update_multi", "ior_alias", "inverse_write", "assign_rejected",
           "sym_diff_update", "ixor_alias", "add_rejected"]
# the argument of extend / += / slice assignment / update may be any iterable, also a one-shot one
ARG_FORMS = ["list", "list", "tuple", "gen", "iter", "map", "reversed"]


def as_argument(vals, form):
    if form == "tuple":
        return tuple(vals)
    if form == "gen":
        return (v for v in vals)
    if form == "iter":
        return iter(list(vals))
    if form == "map":
        return map(lambda v: v, list(vals))
    if form == "reversed":
        return reversed(list(vals)[::-1])
    return list(vals)


def plan(tier):
    return {"cases": 4400 if tier == "quick" else 80000, "shards": 16, "case_timeout": 30, "shard_timeout": 3000,
            "hashseeds": [0, 1, 2, 3], "min_nontrivial": 100,
            "min_counters": {"operations_applied": 8000, "content_checks": 8000, "relation_checks": 2500,
                             "tlist_operations": 1000, "tlist_negative_positions": 100,
                             "inverse_writes": 500, "rejected_assignments": 300, "extended_slice_assignments": 300,
                             "extended_slice_assignments_of_no_position": 50, "symmetric_difference_writes": 300, "rejected_set_additions": 100,
                             "optional_managed_list_cases": 100, "none_assigned_to_an_optional_managed_list": 100}}


def setup(ctx):
    from models import ontomodel
    ctx["om"] = ontomodel


TLIST_OPS = ["assign_new", "assign_self", "iadd", "append", "extend", "insert", "setitem", "setslice"]


def gen_tlist(rng):
    """a list field managed by a TRANSITIVE property (Org.part_of): recording a written element may append inferred
    elements to the very list that is being written; positions may be negative"""
    n_other = rng.randint(3, 6)
    chains = [[i, j] for i in range(n_other) for j in range(i + 1, n_other) if rng.random() < 0.3]   # e_i part_of e_j
    start = [rng.randrange(n_other) for _ in range(rng.randint(0, 3))]
    ops = []
    for _ in range(rng.randint(1, 6)):
        ops.append([rng.choice(TLIST_OPS), [rng.randrange(n_other) for _ in range(rng.randint(0, 3))],
                    rng.randint(-4, 6), rng.choice(ARG_FORMS)])
    return {"kind": "tlist", "n_other": n_other, "chains": chains, "start": start,
            "start_form": rng.choice(["ctor", "assign", "append"]), "ops": ops}


def gen(rng, tier, ctx):
    if rng.random() < 0.25:
        return gen_tlist(rng)
    kind = rng.choice(["list", "set"])
    n_other = rng.randint(2, 5)
    start = [rng.randrange(n_other) for _ in range(rng.randint(0, 3))]
    if kind == "set":
        start = list(dict.fromkeys(start))
    ops = []
    for _ in range(rng.randint(1, 8)):
        op = rng.choice(LIST_OPS if kind == "list" else SET_OPS)
        vals = [rng.randrange(n_other) for _ in range(rng.randint(0, 3))]
        ops.append([op, vals, rng.randrange(8), rng.choice(ARG_FORMS)])
    # a second owner whose field is first written with the managed container of the first owner, before operation #at
    second = {"at": rng.randrange(len(ops) + 1), "form": rng.choice(["ctor", "replace", "assign"])} if rng.random() < 0.3 else None
    if kind == "list" and rng.random() < 0.15:
        # a managed list that may be missing (Optional[List[...]] = None): None is "no elements"
        # (its descriptor has no inverse and infers nothing: the write forms themselves are what is observed)
        ops = [(["assign_none", [], 0, "list"] if rng.random() < 0.2 or o[0] in ("inverse_write", "assign_rejected", "setitem_rejected") else o)
               for o in ops]
        return {"kind": kind, "n_other": n_other, "start": start, "start_form": rng.choice(["ctor", "assign", "append", "default", "ctor_none"]),
                "ops": ops, "second_owner": None, "twins": False, "odd": False, "odd_cls": "Bag", "owner_cls": "Keeper"}
    return {"kind": kind, "n_other": n_other, "start": start, "start_form": rng.choice(["ctor", "assign", "append"]), "ops": ops,
            "second_owner": second,
            "twins": rng.random() < 0.3, "odd": rng.random() < 0.2, "odd_cls": rng.choice(["Bag", "Crate"]),
            # the field is declared on Person / Org, the owner may be an instance of a subclass
            "owner_cls": rng.choice(["Person", "Employee", "Manager"] if kind == "list" else ["Org", "Dept", "Org"])}


def witnesses():
    return {
        "self-assignment-erases-field": {"kind": "list", "n_other": 3, "start": [0, 1], "start_form": "ctor", "ops": [["assign_self", [], 0]]},
        "augmented-assignment-erases-field": {"kind": "list", "n_other": 3, "start": [0], "start_form": "ctor", "ops": [["iadd", [1], 0]]},
        "assigned-list-order-and-duplicates-lost": {"kind": "list", "n_other": 4, "start": [], "start_form": "ctor", "ops": [["assign_new", [3, 0, 3, 1], 0]]},
        "equal-elements-collapsed-on-slice-assignment": {"kind": "list", "n_other": 4, "start": [1], "start_form": "ctor", "twins": True,
                                                         "ops": [["setslice", [0, 2], 0]]},
        "slice-assignment-of-one-shot-iterable": {"kind": "list", "n_other": 3, "start": [0], "start_form": "ctor", "ops": [["setslice", [1, 2], 1, "gen"]]},
        "inferred-values-before-and-among-the-written-ones": {"kind": "tlist", "n_other": 3, "chains": [[0, 1]], "start": [], "start_form": "ctor",
                                                              "ops": [["assign_new", [0, 1], 0, "list"], ["assign_new", [0, 2], 0, "list"]]},
        "negative-position-resolved-after-inference": {"kind": "tlist", "n_other": 3, "chains": [[1, 2]], "start": [0, 0], "start_form": "ctor",
                                                       "ops": [["setitem", [1], -1, "list"], ["insert", [1], -1, "list"]]},
        "first-assignment-adopts-foreign-container": {"kind": "list", "n_other": 3, "start": [0], "start_form": "ctor", "second_owner": {"at": 0, "form": "ctor"},
                                                      "ops": [["append", [1], 0, "list"], ["assign_new", [2], 0, "list"]]},
        "first-assignment-adopts-foreign-container-set": {"kind": "set", "n_other": 3, "start": [0], "start_form": "ctor", "second_owner": {"at": 0, "form": "replace"},
                                                          "ops": [["add", [1], 0, "list"]]},
        "first-assignment-unhashable-elements": {"kind": "list", "n_other": 3, "start": [0, 1], "start_form": "ctor", "odd": True, "odd_cls": "Crate",
                                                 "ops": [["append", [2], 0, "list"]]},
        "rejected-item-assignment-recorded": {"kind": "list", "n_other": 3, "start": [0], "start_form": "ctor",
                                              "ops": [["setitem_rejected", [1], 0, "list"], ["append", [2], 0, "list"], ["setitem_rejected", [1], 1, "list"]]},
        "none-for-an-optional-managed-collection": {"kind": "list", "n_other": 3, "start": [], "start_form": "default", "owner_cls": "Keeper",
                                                   "ops": [["append", [0], 0, "list"], ["assign_none", [], 0, "list"], ["extend", [1, 2], 0, "list"]]},
        "set-ior-erases-field": {"kind": "set", "n_other": 3, "start": [0], "start_form": "ctor", "ops": [["ior", [1], 0]]},
    }


def run_tlist(spec, ctx):
    from krrood.entity_query_language.symbol_graph import SymbolGraph
    om = ctx["om"]
    C = ctx["counters"]
    SymbolGraph().clear()
    SymbolGraph()
    others = [om.Org(f"e{i}") for i in range(spec["n_other"])]
    for i, j in spec["chains"]:
        others[i].part_of.append(others[j])
    start = [others[i] for i in spec["start"]]
    if spec["start_form"] == "ctor":
        owner = om.Org("w", part_of=list(start))
    else:
        owner = om.Org("w")
        if spec["start_form"] == "assign":
            owner.part_of = list(start)
    named = {o.name: o for o in others}
    named["w"] = owner
    name_of = {id(o): n for n, o in named.items()}
    nm = lambda xs: [name_of.get(id(x), repr(x)) for x in xs]
    # transitive ancestors of each element (declared chains): what recording an element may add to the field
    up = {i: set() for i in range(len(others))}
    changed = True
    direct = {}
    for i, j in spec["chains"]:
        direct.setdefault(i, set()).add(j)
    while changed:
        changed = False
        for i in up:
            new = set(direct.get(i, ()))
            for j in list(direct.get(i, ())) + list(up[i]):
                new |= up.get(j, set()) | direct.get(j, set())
            if not new <= up[i]:
                up[i] |= new
                changed = True
    idx_of = {id(o): i for i, o in enumerate(others)}
    ever = set(spec["start"])
    problems, kinds_seen = [], []

    def expected_inferred():
        out = set()
        for i in ever:
            out |= up[i]
        return {id(others[i]) for i in out}

    def check(label, model):
        C["content_checks"] += 1
        got = list(owner.part_of)
        # the field starts with exactly what Python semantics give for the written operation; what follows are the
        # elements inferred meanwhile, each of them once and only if it is not among the written ones
        allowed = expected_inferred()
        if len(got) < len(model) or any(x is not y for x, y in zip(got, model)):
            problems.append(f"after {label}: field holds {nm(got)}, Python semantics give {nm(model)} (followed by inferred elements)")
            return False
        leftover = got[len(model):]
        bad = [x for x in leftover if id(x) not in allowed]
        if bad:
            problems.append(f"after {label}: field holds {nm(got)}: {nm(bad)} were neither written ({nm(model)}) nor can be inferred")
            return False
        repeated = [x for i, x in enumerate(leftover) if any(x is y for y in model) or any(x is y for y in leftover[:i])]
        if repeated:
            problems.append(f"after {label}: field holds {nm(got)}: the inferred {nm(repeated)} repeat(s) an element the field holds already "
                            f"(written: {nm(model)})")
            return False
        # every element that became part of the field is recorded with the inferences an append would have drawn: what
        # those inferences add to this very field (the transitive ancestors) is there, whatever the write form was
        missing = allowed - {id(x) for x in got}
        # (only while nothing was overwritten: an item / slice assignment or a new collection replaces what stands at the
        # written positions, which may be an inferred element - Python semantics decide there)
        if missing and not any(k.rstrip("-") in ("setitem", "setslice", "assign_new", "assign_self") for k in kinds_seen):
            problems.append(f"after {label}: field holds {nm(got)}, the elements inferred from what was written "
                            f"({nm([o for o in others if id(o) in missing])}) are missing")
            return False
        return True

    if spec["start_form"] == "append":
        # one write operation per element: each is compared on its own
        ever.clear()
        for i in spec["start"]:
            before = list(owner.part_of)
            owner.part_of.append(others[i])
            ever.add(i)
            if not check("start(append)", before + [others[i]]):
                break
    else:
        check("start(" + spec["start_form"] + ")", list(start))
    for op, idxs, pos, form in spec["ops"]:
        if problems:
            break
        vals = [others[i] for i in idxs]
        before = list(owner.part_of)
        model = list(before)
        cont = owner.part_of
        kinds_seen.append(op + ("-" if pos < 0 and op in ("insert", "setitem", "setslice") else ""))
        C["argform:" + form] += 1
        try:
            if op == "assign_new":
                owner.part_of = list(vals)
                model = list(vals)
            elif op == "assign_self":
                owner.part_of = owner.part_of
                vals = []
            elif op == "iadd":
                tmp = owner.part_of
                tmp += as_argument(vals, form)
                owner.part_of = tmp
                model = before + vals
            elif op == "append":
                if not vals:
                    continue
                cont.append(vals[0])
                model.append(vals[0])
                vals = vals[:1]
            elif op == "extend":
                cont.extend(as_argument(vals, form))
                model.extend(vals)
            elif op == "insert":
                if not vals:
                    continue
                cont.insert(pos, vals[0])
                model.insert(pos, vals[0])
                vals = vals[:1]
            elif op == "setitem":
                if not vals or not before or not (-len(before) <= pos < len(before)):
                    continue
                cont[pos] = vals[0]
                model[pos] = vals[0]
                vals = vals[:1]
            elif op == "setslice":
                cont[pos:pos + 1 if pos != -1 else None] = as_argument(vals, form)
                model[pos:pos + 1 if pos != -1 else None] = vals
        except Exception as e:
            problems.append(f"{op} raised {type(e).__name__}: {e}"[:200])
            break
        C["operations_applied"] += 1
        C["tlist_operations"] += 1
        if pos < 0 and op in ("insert", "setitem", "setslice"):
            C["tlist_negative_positions"] += 1
        ever |= {idx_of[id(v)] for v in vals}
        check(f"{op}({pos})" if op in ("insert", "setitem", "setslice") else op, model)
    if not problems:
        C["relation_checks"] += 1
        facts = {("w", "part_of", f"e{i}") for i in ever} | {(f"e{i}", "part_of", f"e{j}") for i, j in spec["chains"]}
        exp = OC.closure(facts, {}, {})
        rel = set(OC.observe_graph(named, SymbolGraph()))
        if not exp <= rel:
            problems.append(f"graph lacks relations of elements written to the field: {sorted(exp - rel)[:5]} (ops {kinds_seen})")
        if rel - exp:
            problems.append(f"graph has relations nobody asserted: {sorted(rel - exp)[:5]}")
    shape = f"tlist|{spec['start_form']}|" + ",".join(kinds_seen)
    if problems:
        return {"status": "fail", "kind": "write-form", "key": None, "detail": "; ".join(problems[:3]) + " | " + shape}
    return {"status": "ok", "nontrivial": len(set(kinds_seen)) >= 2 and len(owner.part_of) > 0, "shape": shape,
            "obs": {"ops": kinds_seen, "final": len(owner.part_of)}}


def run(spec, ctx):
    if spec["kind"] == "tlist":
        return run_tlist(spec, ctx)
    from krrood.entity_query_language.symbol_graph import SymbolGraph
    om = ctx["om"]
    C = ctx["counters"]
    SymbolGraph().clear()
    SymbolGraph()
    kind = spec["kind"]
    named = {}
    twins = bool(spec.get("twins"))
    if kind == "list":
        # twins: value-equal but distinct instances (names repeat)
        odd = bool(spec.get("odd")) and not twins
        # odd: the elements are falsy (no members) and iterable organisations
        # ... or not hashable (a plain @dataclass with a generated __eq__)
        odd_cls = om.ODD_CLASSES[spec.get("odd_cls", "Bag")]
        C["odd_class:" + odd_cls.__name__] += odd
        others = [(om.VOrg(f"t{i % 2}") if twins else (odd_cls if odd else om.Org)(f"o{i}")) for i in range(spec["n_other"])]
        field, owner_name = "member_of", "p0"
        if spec.get("owner_cls") == "Keeper":
            field = "keeps"
            C["optional_managed_list_cases"] += 1
    else:
        others = [(om.VPerson(f"t{i % 2}") if twins else om.Person(f"q{i}")) for i in range(spec["n_other"])]
        field, owner_name = "members", "o0"
    for i, o in enumerate(others):
        named[f"e{i}" if twins else o.name] = o
    start = [others[i] for i in spec["start"]] if spec["start_form"] not in ("default", "ctor_none") else []
    model = list(start) if kind == "list" else set(start)
    ever = set(id(x) for x in model)
    mk = (lambda xs: list(xs)) if kind == "list" else (lambda xs: set(xs))
    odd = bool(spec.get("odd")) and not twins
    if odd:
        C["odd_cases"] += 1
    # odd + set: the owner itself is falsy while it has no members
    plain_owner = om.ALL_CLASSES.get(spec.get("owner_cls", "Person" if kind == "list" else "Org"))
    C["owner_class:" + plain_owner.__name__] += 1
    Owner = (om.VPerson if twins else plain_owner) if kind == "list" else (om.VOrg if twins else (om.Bag if odd else plain_owner))
    try:
        if spec["start_form"] == "ctor":
            owner = Owner(owner_name, **{field: mk(start)})
        elif spec["start_form"] == "ctor_none":
            owner = Owner(owner_name, **{field: None})
        else:
            owner = Owner(owner_name)
            if spec["start_form"] == "default":
                pass
            elif spec["start_form"] == "assign":
                setattr(owner, field, mk(start))
            else:
                for x in start:
                    (getattr(owner, field).append if kind == "list" else getattr(owner, field).add)(x)
    except Exception as e:
        return {"status": "fail", "kind": "write-form", "key": None,
                "detail": f"start({spec['start_form']}) with {type(others[0]).__name__} elements raised {type(e).__name__}: {e}"[:250]}
    named[owner_name] = owner
    name_of = {id(o): n for n, o in named.items()}
    problems = []
    key = None
    kinds_seen = []
    misfits = []
    inferred_into = []
    tail_free = [0]

    def with_inferred(new):
        # every assignment keeps what was inferred into the field: it is still derivable from the relations it came
        # from (it can only be missing after an assignment that failed part way)
        kept = [x for x in inferred_into if not any(x is v for v in new)]
        tail_free[0] = len(kept)
        return new + kept if kind == "list" else new | set(kept)

    def contents():
        v = getattr(owner, field)
        if v is None:
            return []          # a field that may be missing: None holds no elements
        return list(v) if kind == "list" else set(v)

    def check(label):
        nonlocal model
        got = contents()
        C["content_checks"] += 1
        if kind == "list":
            k, tail_free[0] = tail_free[0], 0
            if k >= 2 and len(got) == len(model):
                # the order among the inferred elements an assignment keeps is not promised
                n = len(model) - k
                if [id(x) for x in got[:n]] == [id(x) for x in model[:n]] and \
                        sorted(id(x) for x in got[n:]) == sorted(id(x) for x in model[n:]):
                    model = list(got)
            ok = [id(x) for x in got] == [id(x) for x in model]
        else:
            ok = {id(x) for x in got} == {id(x) for x in model}
        if not ok:
            problems.append(f"after {label}: field holds {[name_of.get(id(x), repr(x)) for x in got]}, Python semantics give "
                            f"{[name_of.get(id(x)) for x in (model if kind == 'list' else sorted(model, key=lambda o: o.name))]}")
        return ok

    check("start(" + spec["start_form"] + ")")
    if problems and spec["start_form"] in ("ctor", "assign") and kind == "list":
        key = "assigned-list-order-and-duplicates-lost"
    second_spec = spec.get("second_owner")
    second = None
    for op_number, op_spec in enumerate(list(spec["ops"]) + [None]):
        if second_spec and second_spec["at"] == op_number and not problems:
            # the first write of the field of another instance receives the managed container of the owner
            import dataclasses
            try:
                if second_spec["form"] == "ctor":
                    second = Owner("second", **{field: getattr(owner, field)})
                elif second_spec["form"] == "replace":
                    second = dataclasses.replace(owner, name="second")
                else:
                    second = Owner("second")
                    setattr(second, field, getattr(owner, field))
            except Exception as e:
                problems.append(f"second owner ({second_spec['form']}) raised {type(e).__name__}: {e}"[:200])
                break
            second_snapshot = [id(x) for x in model]
            C["second_owner:" + second_spec["form"]] += 1
            named["second"] = second
            name_of[id(second)] = "second"
            check("second owner written from the field (" + second_spec["form"] + ")")
        if op_spec is None:
            break
        op, idxs, pos = op_spec[:3]
        form = op_spec[3] if len(op_spec) > 3 else "list"
        vals = [others[i] for i in idxs]
        C["argform:" + form] += 1
        cont = getattr(owner, field)
        kinds_seen.append(op)
        pre_ok = not problems
        try:
            if op == "assign_new":
                setattr(owner, field, mk(vals))
                # what was inferred into the field stays: it is still derivable from the relations it came from
                model = with_inferred(mk(vals))
            elif op == "assign_self":
                setattr(owner, field, getattr(owner, field))
                model = with_inferred(model)
                vals = []
            elif op == "assign_none":
                setattr(owner, field, None)
                model = with_inferred(mk([]))
                vals = []
                C["none_assigned_to_an_optional_managed_list"] += 1
            elif op == "iadd":
                tmp = getattr(owner, field)
                tmp += as_argument(vals, form)
                setattr(owner, field, tmp)
                model = with_inferred(model + vals)
            elif op == "ior":
                tmp = getattr(owner, field)
                tmp |= set(vals)
                setattr(owner, field, tmp)
                model = with_inferred(model | set(vals))
            elif op == "append":
                if not vals:
                    continue
                cont.append(vals[0])
                model.append(vals[0])
                vals = vals[:1]
            elif op == "extend":
                cont.extend(as_argument(vals, form))
                model.extend(vals)
            elif op == "extend_self":
                from vlib import common
                try:
                    with common.SubWatchdog(3.0):
                        cont.extend(cont)
                except common.StepTimeout:
                    problems.append("extending the field by itself did not come back within 3 s (a list of "
                                    f"{len(model)} elements)")
                    break
                model.extend(list(model))
                vals = []
                C["self_extends"] += 1
            elif op == "iadd_alias":
                alias = getattr(owner, field)       # the container under another name: no assignment follows
                alias += as_argument(vals, form)
                model = model + vals
                C["alias_inplace_ops"] += 1
            elif op == "ior_alias":
                alias = getattr(owner, field)
                alias |= set(vals)
                model = model | set(vals)
                C["alias_inplace_ops"] += 1
            elif op in ("sym_diff_update", "ixor_alias"):
                # the values that are not in the set yet become part of it, the others leave it
                if op == "ixor_alias":
                    alias = getattr(owner, field)
                    alias ^= set(vals)
                else:
                    cont.symmetric_difference_update(as_argument(list(dict.fromkeys(vals)), form))
                model = model ^ set(vals)
                vals = [v for v in vals if v in model]
                C["symmetric_difference_writes"] += 1
            elif op == "add_rejected":
                # a value the set itself refuses (not hashable): nothing becomes part of the field, nothing is recorded
                if twins:
                    continue
                loose = om.Loose(f"l{op_number}")
                named[loose.name] = loose
                name_of[id(loose)] = loose.name
                C["rejected_set_additions"] += 1
                try:
                    cont.add(loose)
                    problems.append("a value that is not hashable was accepted by a set-valued field")
                    break
                except TypeError:
                    pass
                if any(y is owner for y in loose.member_of):
                    problems.append(f"the set refused {loose.name} (not hashable) but {loose.name}.member_of holds the owner: the refused write was recorded")
                    break
                vals = []
            elif op == "update_multi":
                cont.update(as_argument(vals[:1], form), vals[1:])
                model.update(vals)
                C["multi_argument_updates"] += 1
            elif op == "insert":
                if not vals:
                    continue
                cont.insert(pos, vals[0])
                model.insert(pos, vals[0])
                vals = vals[:1]
            elif op == "setitem":
                if not vals or not model:
                    continue
                cont[pos % len(model)] = vals[0]
                model[pos % len(model)] = vals[0]
                vals = vals[:1]
            elif op == "setslice":
                a = pos % (len(model) + 1)
                cont[a:a + 1] = as_argument(vals, form)
                model[a:a + 1] = vals
            elif op == "setslice_extended":
                # an extended slice (step other than 1) with bounds that may lie outside the list on either side
                import random as _random
                r_ = _random.Random(pos * 1000 + len(model) + len(idxs))
                bound = lambda: r_.choice([None, None, r_.randint(-9, 9)])
                sl = slice(bound(), bound(), r_.choice([-3, -2, -1, -1, 2, 3]))
                size = len(range(*sl.indices(len(model))))
                vals = [others[r_.randrange(len(others))] for _ in range(size)]
                cont[sl] = as_argument(vals, form)
                model[sl] = vals
                C["extended_slice_assignments"] += 1
                C["extended_slice_assignments_of_no_position"] += size == 0
            elif op == "setitem_rejected":
                # an item assignment that Python rejects: nothing becomes part of the field, nothing is recorded
                if not vals:
                    continue
                C["rejected_item_assignments"] += 1
                try:
                    if pos % 2 == 0 or len(model) < 2:
                        cont[len(model) + pos % 3] = vals[0]                 # IndexError
                    else:
                        cont[::2] = [vals[0]] * (len(model[::2]) + 1)        # ValueError: wrong size for an extended slice
                    problems.append(f"an item assignment that a list rejects was accepted (field of {len(model)} elements)")
                    break
                except (IndexError, ValueError):
                    pass
                vals = []
            elif op == "inverse_write":
                # a fresh individual is related to the owner from the other side: the inference lands in the field
                if twins:
                    continue
                fresh = (om.Org if kind == "list" else om.Person)(f"n{op_number}")
                named[fresh.name] = fresh
                name_of[id(fresh)] = fresh.name
                if kind == "list":
                    fresh.members.add(owner)
                    model.append(fresh)
                else:
                    fresh.member_of.append(owner)
                    model.add(fresh)
                vals = []
                inferred_into.append(fresh)
                C["inverse_writes"] += 1
            elif op == "assign_rejected":
                # an assignment that fails part way (its last element cannot be related): what the field holds
                # afterwards is not promised, only that nothing foreign is in it and that later writes work as ever
                if twins:
                    continue
                bad = 5 if kind == "list" else om.Org("misfit")
                try:
                    setattr(owner, field, list(vals) + [bad])
                    rejected = False
                except (TypeError, ValueError):
                    rejected = True
                C["rejected_assignments"] += rejected
                if not rejected:
                    break       # nothing promises that such a value is refused: the history ends here
                got = contents()
                allowed = {id(x) for x in model} | {id(x) for x in vals} | ({id(bad)} if not rejected else set())
                if not {id(x) for x in got} <= allowed:
                    problems.append(f"after a rejected assignment the field holds elements that were neither in it nor assigned")
                    break
                got = [x for x in got if x is not bad] if kind == "list" else {x for x in got if x is not bad}
                model = got
                vals = []
                misfits.append(bad)
            elif op == "add":
                if not vals:
                    continue
                cont.add(vals[0])
                model.add(vals[0])
                vals = vals[:1]
            elif op == "update":
                cont.update(as_argument(vals, form))
                model.update(vals)
        except Exception as e:
            problems.append(f"{op} raised {type(e).__name__}: {e}"[:200])
            break
        C["operations_applied"] += 1
        # what became part of the field according to Python semantics (a set keeps the element it already holds
        # when an equal one is added)
        ever |= {id(v) for v in model}
        ok = check(op)
        if not ok and pre_ok and key is None:
            key = {"assign_self": "self-assignment-erases-field", "iadd": "augmented-assignment-erases-field",
                   "ior": "augmented-assignment-erases-field",
                   "assign_new": "assigned-list-order-and-duplicates-lost" if kind == "list" else None,
                   "setslice": "slice-assignment-bypasses-monitoring"}.get(op)
        if not ok:
            break
    if second is not None and not problems:
        # whatever the second owner's field holds now has to be recorded for the second owner (and what it was given
        # has to be there)
        sg = SymbolGraph()
        have = {(id(r.source.instance), r.wrapped_field.public_name, id(r.target.instance)) for r in sg.relations()
                if r.source.instance is not None and r.target.instance is not None}
        held = list(getattr(second, field))
        C["second_owner_checks"] += 1
        for x in held:
            if (id(second), field, id(x)) not in have:
                problems.append(f"second.{field} holds {name_of.get(id(x), repr(x))} but the graph has no relation second.{field} -> it "
                                f"(first written from the owner's managed container: {second_spec['form']})")
                break
        if not set(second_snapshot) <= {id(x) for x in held}:
            problems.append(f"second.{field} lost elements it was given")
    # relations: every element that ever became part of the field is recorded with its inferences
    if not problems and twins:
        C["relation_checks"] += 1
        C["twin_cases"] += 1
        sg = SymbolGraph()
        have = {(id(r.source.instance), r.wrapped_field.public_name, id(r.target.instance)) for r in sg.relations()
                if r.source.instance is not None and r.target.instance is not None}
        inv = "members" if kind == "list" else "member_of"
        for i in sorted(ever):
            if (id(owner), field, i) not in have:
                problems.append(f"graph lacks the relation {owner_name}.{field} -> {name_of[i]} (an element equal to, but not identical with, another one)")
            if (i, inv, id(owner)) not in have:
                problems.append(f"graph lacks the inverse relation {name_of[i]}.{inv} -> {owner_name}")
        for x in model:
            if not any(y is owner for y in getattr(x, inv)):
                problems.append(f"{name_of[id(x)]}.{inv} lacks {owner_name}")
        if problems and any(k in ("iadd", "ior", "setslice") for k in kinds_seen):
            key = None
    elif not problems:
        C["relation_checks"] += 1
        facts = {(owner_name, field, name_of[i]) for i in ever}
        if second is not None:
            facts |= {("second", field, name_of[i]) for i in second_snapshot}
        exp = OC.closure(facts, {}, {})
        rel = set(OC.observe_graph(named, SymbolGraph()))
        if misfits:
            # the relation to the value a rejected assignment stumbled over is not looked at
            rel = {r for r in rel if "<foreign>" not in r}
        fields, _ = OC.observe_fields(om, named)
        if not exp <= rel:
            problems.append(f"graph lacks relations of elements written to the field: {sorted(exp - rel)[:5]} (ops {kinds_seen})")
            if any(k in ("iadd", "ior", "setslice") for k in kinds_seen):
                key = "write-path-bypasses-inference"
        if rel - exp:
            problems.append(f"graph has relations nobody asserted: {sorted(rel - exp)[:5]}")
            key = None
        # inverse fields of the current elements
        cur = {name_of[id(x)] for x in model}
        inv = "members" if kind == "list" else "member_of"
        for n in (cur if field != "keeps" else ()):         # (Keeps has no inverse)
            if (n, inv, owner_name) not in fields:
                problems.append(f"{n}.{inv} lacks {owner_name} although {n} is in {owner_name}.{field}")
                if any(k in ("iadd", "ior", "setslice") for k in kinds_seen):
                    key = "write-path-bypasses-inference"
    shape = f"{kind}|{spec['start_form']}|" + ",".join(kinds_seen)
    if problems:
        return {"status": "fail", "kind": "write-form", "key": key, "detail": "; ".join(problems[:3]) + " | " + shape}
    return {"status": "ok", "nontrivial": len(set(kinds_seen)) >= 2 and len(model) > 0, "shape": shape,
            "obs": {"ops": kinds_seen, "final": len(model)}}
