"""C12 - predicates and symbolic functions agree between concrete and symbolic calls.

Event-log monitor: harness-defined predicate bodies / function bodies append (parameter values) to a
call log.  Oracle over the log and the query result:
  (a) all-concrete call: runs immediately, plain result, exactly one log entry;
  (b) >=1 variable: returns a symbolic condition, log stays empty at construction;
  (c) evaluation: one log entry per candidate binding, each parameter holding the value of the
      argument written in that position; result rows = bindings for which the concrete call is true.
"""
from __future__ import annotations

import itertools

ID = "C12"
LEVEL = "exploration"
EXHAUSTIVE = True
RULE = ("complete enumeration of call shapes: {@symbolic_function plain function, @symbolic_function method, "
        "Predicate subclass} x arity 1..3 x number of trailing defaults x per parameter {variable positional, variable "
        "keyword, concrete positional, concrete keyword, omitted} (positional before keyword), each evaluated over "
        "random 2-3 element domains, then evaluated a second time after the bound objects changed, and once more as the "
        "second condition of a query that binds a further variable, once directly under not_ and once as the condition of for_all; "
        "five further signature families (*args, positional-only, keyword-only, **kwargs and all of them mixed) as function, as method "
        "of a plain object and as method written on a receiver variable (x.method(y)), "
        "each with 5-8 call shapes, where the oracle is the concrete call for every candidate binding; random repetitions with other worlds in the thorough tier.  Non-trivial = the call "
        "has at least one variable argument; distinct = the call shape")
ASSUMPTIONS = ["all generated functions / methods / predicate classes share one qualified name per kind (re-definitions "
               "with other signatures), so state keyed by name instead of by object is exposed",
               "distinct variables are used for distinct parameters (the same variable in two parameters is C01's "
               "predicate-same-var-twice finding)", "a candidate binding is a combination of values of all the variables bound when the predicate is reached"]
ANCHORS = ["merge_args_and_kwargs", "symbolic_function", "Predicate.__new__",
           "Variable._instantiate_using_child_vars_and_yield_results_", "_any_of_the_kwargs_is_a_variable"]

KINDS = ("fn", "method", "pred")
ARGK = ("vp", "vk", "cp", "ck", "om")


def plan(tier):
    return {"cases": 0 if tier == "quick" else 20000, "shards": 16, "case_timeout": 20, "shard_timeout": 1800,
            "min_nontrivial": 100,
            "min_counters": {"body_calls_checked": 2000, "concrete_calls": 100, "symbolic_constructions": 300,
                             "reevaluations_with_changed_truth": 100, "bystander_queries": 300,
                             "negated_queries_with_answers": 100, "signature_family_calls": 100, "receiver_variable_calls": 30,
                             "calls_selected_and_used_as_condition": 100}}


LOG = []


def _truth(vals):
    return sum(v.a for v in vals) % 2 == 0


def setup(ctx):
    from vlib import eqlmodel as m
    from krrood.entity_query_language.predicate import Predicate, symbolic_function
    from dataclasses import dataclass, field
    ctx["m"] = m
    D = [m.P(a=5, name="D0"), m.P(a=6, name="D1"), m.P(a=8, name="D2")]
    ctx["defaults"] = D
    made = {}
    import sys
    import types
    dyn = types.ModuleType("c12_dynamic")
    sys.modules["c12_dynamic"] = dyn
    ns = dyn.__dict__
    ns.update({"LOG": LOG, "_truth": _truth, "D": D, "symbolic_function": symbolic_function, "Predicate": Predicate,
               "dataclass": dataclass, "field": field})
    for arity in (1, 2, 3):
        for nd in range(0, arity + 1):
            params = []
            for i in range(arity):
                params.append(f"p{i}" + (f"=D[{i}]" if i >= arity - nd else ""))
            names = ", ".join(f"p{i}" for i in range(arity))
            tup = "(" + names + ("," if arity == 1 else "") + ")"
            src = f"""
@symbolic_function
def probe({', '.join(params)}):
    LOG.append({tup})
    return _truth({tup})

class Host:
    @symbolic_function
    def meth(self, {', '.join(params)}):
        LOG.append({tup})
        return _truth({tup})

@dataclass(eq=False)
class ProbePred(Predicate):
""" + "\n".join(f"    p{i}: object" + (f" = field(default_factory=lambda: D[{i}])" if i >= arity - nd else "")
                 for i in range(arity)) + f"""

    def __call__(self):
        LOG.append(({', '.join('self.p%d' % i for i in range(arity))}{',' if arity == 1 else ''}))
        return _truth(({', '.join('self.p%d' % i for i in range(arity))}{',' if arity == 1 else ''}))
"""
            exec(src, ns)
            # the same (module, qualified name) for every signature: re-definitions must not be confused
            made[("fn", arity, nd)] = ns["probe"]
            made[("method", arity, nd)] = ns["Host"]()
            made[("pred", arity, nd)] = ns["ProbePred"]
    ctx["made"] = made
    exec(SIG_SRC, ns)
    ctx["sig"] = {name: ns["sig_" + name] for name in SIGS}
    ctx["sig_host"] = ns["SigHost"]()


SIG_SRC = """
def _flat(*parts):
    out = []
    for part in parts:
        if isinstance(part, tuple):
            out.extend(part)
        elif isinstance(part, dict):
            out.extend(v for _, v in sorted(part.items()))
        else:
            out.append(part)
    return tuple(out)

@symbolic_function
def sig_star(p0, *rest):
    LOG.append(('star', p0, rest))
    return _truth(_flat(p0, rest))

@symbolic_function
def sig_posonly(p0, /, p1=D[1]):
    LOG.append(('posonly', p0, p1))
    return _truth(_flat(p0, p1))

@symbolic_function
def sig_kwonly(p0, *, p1=D[1]):
    LOG.append(('kwonly', p0, p1))
    return _truth(_flat(p0, p1))

@symbolic_function
def sig_kwargs(p0, **extra):
    LOG.append(('kwargs', p0, tuple(sorted(extra.items()))))
    return _truth(_flat(p0, extra))

@symbolic_function
def sig_mixed(p0, /, p1, *rest, k0=D[0], **extra):
    LOG.append(('mixed', p0, p1, rest, k0, tuple(sorted(extra.items()))))
    return _truth(_flat(p0, p1, rest, k0, extra))

class SigHost:
    @symbolic_function
    def sig_star(self, p0, *rest):
        LOG.append(('mstar', p0, rest))
        return _truth(_flat(p0, rest))

    @symbolic_function
    def sig_posonly(self, p0, /, p1=D[1]):
        LOG.append(('mposonly', p0, p1))
        return _truth(_flat(p0, p1))

    @symbolic_function
    def sig_kwonly(self, p0, *, p1=D[1]):
        LOG.append(('mkwonly', p0, p1))
        return _truth(_flat(p0, p1))

    @symbolic_function
    def sig_kwargs(self, p0, **extra):
        LOG.append(('mkwargs', p0, tuple(sorted(extra.items()))))
        return _truth(_flat(p0, extra))

    @symbolic_function
    def sig_mixed(self, p0, /, p1, *rest, k0=D[0], **extra):
        LOG.append(('mmixed', p0, p1, rest, k0, tuple(sorted(extra.items()))))
        return _truth(_flat(p0, p1, rest, k0, extra))
"""

# signature family -> call shapes (positional arguments, keyword arguments); "v" = a variable, "c" = a plain object
SIGS = {
    "star": [(["v"], {}), (["v", "c"], {}), (["c", "v"], {}), (["v", "v"], {}), (["c", "c", "v"], {}), (["v", "c", "c"], {}),
             (["v", "v", "v"], {}),
             # among the elements of *rest a variable is written before a plain value
             (["c", "v", "c"], {}), (["v", "v", "c"], {}), (["c", "v", "c", "v"], {}),
             # more than ten elements in *rest (their positions have two digits)
             (["v"] + ["c"] * 10 + ["v", "c"], {}), (["c", "c", "v"] + ["c"] * 9 + ["v"], {})],
    "posonly": [(["v"], {}), (["v", "c"], {}), (["c", "v"], {}), (["v"], {"p1": "c"}), (["c"], {"p1": "v"}), (["v"], {"p1": "v"})],
    "kwonly": [(["v"], {}), (["v"], {"p1": "c"}), (["c"], {"p1": "v"}), ([], {"p0": "v", "p1": "c"}), ([], {"p1": "v", "p0": "c"}),
               (["v"], {"p1": "v"})],
    "kwargs": [(["v"], {}), (["v"], {"k1": "c"}), (["c"], {"k1": "v"}), (["v"], {"k1": "v", "k2": "c"}), ([], {"k2": "v", "p0": "c"})],
    "mixed": [(["v", "c"], {}), (["c", "v"], {}), (["v", "c", "c"], {}), (["c", "c", "v"], {"k0": "c"}), (["v", "c", "c", "v"], {"zz": "c"}),
              (["c"], {"p1": "v"}), (["v"], {"p1": "c", "k0": "v"}), (["c", "c"], {"zz": "v"}),
              (["c", "c", "v", "c"], {}), (["v", "c", "v", "c", "c"], {"k0": "v"}),
              (["c", "v"] + ["c"] * 11 + ["v"], {"zz": "c"})],
}


def sig_shapes():
    for name, calls in SIGS.items():
        for method in (False, True, "receiver"):
            for n, (pos, kw) in enumerate(calls):
                yield {"sig": name, "method": method, "pos": list(pos), "kw": dict(kw), "n": n}
                if method == "receiver":
                    # written on a receiver variable with plain arguments only: receiver_variable.method(1, 2)
                    yield {"sig": name, "method": method, "pos": ["c"] * len(pos), "kw": {k: "c" for k in kw}, "n": 100 + n}


def shapes():
    for kind in KINDS:
        for arity in (1, 2, 3):
            for nd in range(0, arity + 1):
                for combo in itertools.product(ARGK, repeat=arity):
                    # omitted only where a default exists
                    if any(k == "om" and i < arity - nd for i, k in enumerate(combo)):
                        continue
                    # positional arguments must precede keyword ones and cannot follow an omitted one
                    seen_kw = False
                    ok = True
                    for k in combo:
                        if k in ("vk", "ck", "om"):
                            seen_kw = True
                        elif seen_kw:
                            ok = False
                    if not ok:
                        continue
                    yield {"kind": kind, "arity": arity, "nd": nd, "args": list(combo)}


def exhaustive(tier, ctx):
    for i, s in enumerate(shapes()):
        s = dict(s)
        s["wseed"] = i
        yield s
    # signatures beyond plain positional-or-keyword parameters
    for j, s in enumerate(sig_shapes()):
        for rep in range(2 if tier == "quick" else 6):
            yield dict(s, wseed=1000 * rep + j)
    for value in (1, "x", None):
        yield {"concrete_instance": True, "value": value, "wseed": 0}
    # call shapes that the concrete call rejects: the symbolic call has to reject them as well
    for kind in ("fn", "method"):
        for arity in (1, 2, 3):
            for bad in ("extra_positional", "keyword_repeats_positional", "unknown_keyword"):
                yield {"kind": kind, "arity": arity, "nd": 0, "invalid": bad, "wseed": arity}


def gen(rng, tier, ctx):
    all_shapes = ctx.setdefault("_shapes", list(shapes()))
    sigs = ctx.setdefault("_sig_shapes", list(sig_shapes()))
    s = dict(rng.choice(sigs if rng.random() < 0.3 else all_shapes))
    s["wseed"] = rng.randrange(10 ** 9)
    return s


def witnesses():
    return {
        "positional-args-shifted": {"kind": "fn", "arity": 2, "nd": 0, "args": ["vp", "cp"], "wseed": 1},
        "positional-args-shifted-method": {"kind": "method", "arity": 1, "nd": 0, "args": ["vp"], "wseed": 2},
        "variadic-and-positional-only-parameters": {"sig": "mixed", "method": False, "pos": ["v", "c", "c", "v"], "kw": {"zz": "c"}, "n": 4, "wseed": 3},
        "method-on-receiver-variable-never-runs": {"sig": "kwonly", "method": "receiver", "pos": ["v"], "kw": {"p1": "v"}, "n": 5, "wseed": 5},
        "variadic-and-positional-only-parameters-method": {"sig": "posonly", "method": True, "pos": ["c"], "kw": {"p1": "v"}, "n": 4, "wseed": 4},
    }


def run_invalid(spec, ctx):
    """one variable argument plus a call shape the function's signature rejects"""
    from krrood.entity_query_language.entity import let
    m = ctx["m"]
    C = ctx["counters"]
    target = ctx["made"][(spec["kind"], spec["arity"], 0)]
    call = target.meth if spec["kind"] == "method" else target
    x = let(m.P, [m.P(a=1, name="v")], name="x")
    consts = [m.P(a=2, name=f"c{i}") for i in range(spec["arity"] + 1)]
    pos = [x] + consts[:spec["arity"] - 1]
    kw = {}
    if spec["invalid"] == "extra_positional":
        pos = pos + [consts[-1]]
    elif spec["invalid"] == "keyword_repeats_positional":
        kw = {"p0": consts[-1]}
    else:
        kw = {"no_such_parameter": consts[-1]}
    LOG.clear()
    C["invalid_call_shapes"] += 1
    concrete_error = None
    try:
        call(*[c if c is not x else consts[0] for c in pos], **kw)
    except TypeError as e:
        concrete_error = e
    LOG.clear()
    try:
        res = call(*pos, **kw)
    except TypeError:
        return {"status": "ok", "nontrivial": True, "shape": f"invalid/{spec['kind']}/{spec['arity']}/{spec['invalid']}"}
    except Exception as e:
        return {"status": "fail", "kind": "invalid-call-shape", "key": None,
                "detail": f"{spec}: the symbolic call raised {type(e).__name__} where the concrete call raises TypeError"}
    return {"status": "fail", "kind": "invalid-call-shape", "key": None,
            "detail": f"{spec}: the concrete call raises {concrete_error!r}, the symbolic call was accepted and returned {type(res).__name__}"}


def run_sig(spec, ctx):
    """*args, positional-only, keyword-only and **kwargs parameters: the oracle is the concrete call itself (what it logs
    and returns for the values of a candidate binding)"""
    import random
    from krrood.entity_query_language.entity import let, set_of, not_
    from krrood.entity_query_language.quantify_entity import an
    from krrood.entity_query_language.symbolic import SymbolicExpression
    m = ctx["m"]
    C = ctx["counters"]
    rng = random.Random(spec["wseed"])
    receiver = spec["method"] == "receiver"
    call = getattr(ctx["sig_host"], "sig_" + spec["sig"]) if spec["method"] else ctx["sig"][spec["sig"]]
    shape = f"sig/{spec['sig']}/{spec['method'] if spec['method'] in (False, 'receiver') else 'method'}/{','.join(spec['pos'])}/" + \
            ",".join(f"{k}={v}" for k, v in spec["kw"].items())
    slots = [("pos", i, k) for i, k in enumerate(spec["pos"])] + [("kw", name, k) for name, k in spec["kw"].items()]
    doms, variables, consts = {}, {}, {}
    if receiver:
        # the method is written on a variable over its receivers: receiver_variable.method(arguments)
        doms[("recv", 0)] = [type(ctx["sig_host"])() for _ in range(2)]
        variables[("recv", 0)] = let(type(ctx["sig_host"]), list(doms[("recv", 0)]), name="receiver")
        slots = [("recv", 0, "v")] + slots
    for where, at, k in slots:
        if where == "recv":
            continue
        if k == "v":
            doms[(where, at)] = [m.P(a=rng.randint(0, 3), name=f"v{at}_{j}") for j in range(rng.randint(2, 3))]
            variables[(where, at)] = let(m.P, list(doms[(where, at)]), name=f"x{at}")
        else:
            consts[(where, at)] = m.P(a=rng.randint(0, 3), name=f"c{at}")
    var_slots = [(w, a) for w, a, k in slots if k == "v"]

    def arguments(binding, symbolic):
        pos = [(variables if symbolic else binding)[("pos", i)] if k == "v" else consts[("pos", i)] for i, k in enumerate(spec["pos"])]
        kw = {name: (variables if symbolic else binding)[("kw", name)] if k == "v" else consts[("kw", name)]
              for name, k in spec["kw"].items()}
        return pos, kw

    def ident(entry):
        def walk(v):
            if isinstance(v, tuple):
                return tuple(walk(i) for i in v)
            return v if isinstance(v, str) else id(v)
        return walk(entry)

    # the oracle: the concrete call for every candidate binding
    bindings = [dict(zip(var_slots, combo)) for combo in itertools.product(*[doms[s] for s in var_slots])]
    want_calls, want_true = [], []
    for b in bindings:
        LOG.clear()
        pos, kw = arguments(b, False)
        if receiver:
            call = getattr(b[("recv", 0)], "sig_" + spec["sig"])
        value = call(*pos, **kw)
        if isinstance(value, SymbolicExpression) or len(LOG) != 1:
            return {"status": "fail", "kind": "concrete-call", "key": None,
                    "detail": f"{shape}: the concrete call returned {type(value).__name__} and logged {len(LOG)} body runs"}
        C["concrete_calls"] += 1
        want_calls.append(ident(LOG[0]))
        if value:
            want_true.append(tuple(id(b[s]) for s in var_slots))
    LOG.clear()
    C["signature_family_calls"] += 1
    problems = []
    pos, kw = arguments(None, True)
    if receiver:
        call = getattr(variables[("recv", 0)], "sig_" + spec["sig"])
        C["receiver_variable_calls"] += 1
    try:
        res = call(*pos, **kw)
    except Exception as e:
        return {"status": "fail", "kind": "construction-exception:" + type(e).__name__, "key": None,
                "detail": f"{shape}: {type(e).__name__}: {e}"[:300]}
    C["symbolic_constructions"] += 1
    if LOG:
        problems.append(f"body ran {len(LOG)}x at construction time with {LOG[0]!r}")
    if not isinstance(res, SymbolicExpression):
        problems.append(f"call with a variable returned {type(res).__name__} {res!r}, not a condition")
    if problems:
        return {"status": "fail", "kind": "eager-or-non-condition", "key": None, "detail": shape + ": " + "; ".join(problems)}
    sel = [variables[s] for s in var_slots]
    for negated in (False, True):
        LOG.clear()
        try:
            cond = call(*pos, **kw)
            rows = [tuple(id(r[v]) for v in sel) for r in an(set_of(sel, not_(cond) if negated else cond)).evaluate()]
        except Exception as e:
            return {"status": "fail", "kind": "evaluation-exception:" + type(e).__name__, "key": None,
                    "detail": f"{shape}{' under not_' if negated else ''}: {type(e).__name__}: {e}"[:300]}
        C["body_calls_checked"] += len(LOG)
        if sorted(map(ident, LOG)) != sorted(want_calls):
            problems.append(f"{'under not_: ' if negated else ''}the body runs of the evaluation differ from the concrete calls of the "
                            f"candidate bindings: {len(LOG)} vs {len(want_calls)}; first {LOG[0] if LOG else None!r}")
        want_rows = sorted(set(tuple(id(b[s]) for s in var_slots) for b in bindings) - set(want_true)) if negated else sorted(want_true)
        if sorted(rows) != want_rows:
            problems.append(f"{'under not_: ' if negated else ''}rows {len(rows)} != {len(want_rows)} bindings for which the concrete "
                            f"call is {'false' if negated else 'true'}")
        if negated:
            C["negated_queries"] += 1
            if want_rows:
                C["negated_queries_with_answers"] += 1
    if len(var_slots) >= 2 and not problems:
        # the variable written LAST is bound by an earlier condition already when the call is reached: every parameter
        # still gets the value of the argument written in its position
        from krrood.entity_query_language.entity import and_
        last = variables[var_slots[-1]]
        LOG.clear()
        try:
            cond = call(*pos, **kw)
            rows = [tuple(id(r[v]) for v in sel) for r in an(set_of(sel, and_(last.a >= 0, cond))).evaluate()]
        except Exception as e:
            return {"status": "fail", "kind": "evaluation-exception:" + type(e).__name__, "key": None,
                    "detail": f"{shape} after an earlier condition bound the last variable: {type(e).__name__}: {e}"[:300]}
        C["calls_with_a_prebound_variable"] += 1
        C["body_calls_checked"] += len(LOG)
        if sorted(map(ident, LOG)) != sorted(want_calls):
            problems.append(f"with the last variable bound by an earlier condition the body runs differ from the concrete calls: "
                            f"first {LOG[0] if LOG else None!r}")
        if sorted(rows) != sorted(want_true):
            problems.append(f"with the last variable bound by an earlier condition: rows {len(rows)} != {len(want_true)}")
    plain_slots = [s_ for s_ in var_slots if s_[0] != "recv"]
    if not problems and plain_slots:
        # the call object stands in two positions of one query: it is a conjunct of the condition and its value is
        # selected as well
        LOG.clear()
        try:
            cond = call(*pos, **kw)
            from krrood.entity_query_language.entity import and_
            always = variables[plain_slots[-1]].a >= 0
            rows = [tuple(id(r[v]) for v in sel) + (bool(r[cond]),) for r in an(set_of(sel + [cond], and_(cond, always))).evaluate()]
        except Exception as e:
            return {"status": "fail", "kind": "evaluation-exception:" + type(e).__name__, "key": None,
                    "detail": f"{shape} selected and used as the condition: {type(e).__name__}: {e}"[:300]}
        C["calls_selected_and_used_as_condition"] += 1
        if sorted(rows) != sorted(t + (True,) for t in want_true):
            problems.append(f"the call selected AND used as the condition: {len(rows)} rows ({sum(1 for r in rows if not r[-1])} of them with "
                            f"a false value) != {len(want_true)} bindings for which the concrete call is true")
    if problems:
        return {"status": "fail", "kind": "symbolic-evaluation", "key": None, "detail": shape + ": " + "; ".join(problems)}
    return {"status": "ok", "nontrivial": True, "shape": shape, "obs": {"calls": len(want_calls), "rows": len(want_true)}}


def run_concrete_instance(spec, ctx):
    """a predicate called with plain values is an ordinary object: it can be copied and pickled, and it still gives the
    truth value of its call; a field named like the first parameter of __new__ can be given by keyword"""
    import copy
    import pickle
    from krrood.entity_query_language.predicate import HasType
    C = ctx["counters"]
    problems = []
    original = HasType(spec["value"], int)
    for how, clone in (("copy.copy", copy.copy), ("copy.deepcopy", copy.deepcopy), ("pickle", lambda o: pickle.loads(pickle.dumps(o)))):
        try:
            twin = clone(original)
            if type(twin) is not HasType or twin() != original():
                problems.append(f"{how} of a concrete predicate instance gives {twin!r}")
        except Exception as e:
            problems.append(f"{how} of a concrete predicate instance raised {type(e).__name__}: {e}"[:160])
        C["concrete_instances_cloned"] += 1
    if problems:
        return {"status": "fail", "kind": "concrete-instance", "key": None, "detail": "; ".join(problems[:3])}
    return {"status": "ok", "nontrivial": False, "shape": "concrete-instance"}


def run(spec, ctx):
    import random
    from krrood.entity_query_language.entity import let, set_of, entity, and_, not_, for_all
    from krrood.entity_query_language.quantify_entity import an
    from krrood.entity_query_language.symbolic import SymbolicExpression
    m = ctx["m"]
    C = ctx["counters"]
    if spec.get("invalid"):
        return run_invalid(spec, ctx)
    if spec.get("concrete_instance"):
        return run_concrete_instance(spec, ctx)
    if spec.get("sig"):
        return run_sig(spec, ctx)
    rng = random.Random(spec["wseed"])
    kind, arity, nd, args = spec["kind"], spec["arity"], spec["nd"], spec["args"]
    target = ctx["made"][(kind, arity, nd)]
    call = target.meth if kind == "method" else target
    D = ctx["defaults"]
    # world
    var_params = [i for i, k in enumerate(args) if k in ("vp", "vk")]
    doms, variables = {}, {}
    for i in var_params:
        doms[i] = [m.P(a=rng.randint(0, 3), name=f"v{i}_{j}") for j in range(rng.randint(2, 3))]
        variables[i] = let(m.P, list(doms[i]) if rng.random() < 0.5 else iter(list(doms[i])), name=f"x{i}")
    concrete = {i: m.P(a=rng.randint(0, 3), name=f"c{i}") for i, k in enumerate(args) if k in ("cp", "ck")}
    pos, kw = [], {}
    for i, k in enumerate(args):
        val = variables[i] if k in ("vp", "vk") else concrete.get(i)
        if k in ("vp", "cp"):
            pos.append(val)
        elif k in ("vk", "ck"):
            kw[f"p{i}"] = val

    def param_values(binding):
        out = []
        for i, k in enumerate(args):
            if k in ("vp", "vk"):
                out.append(binding[i])
            elif k in ("cp", "ck"):
                out.append(concrete[i])
            else:
                out.append(D[i])
        return tuple(out)

    shape = f"{kind}/{arity}/{nd}/{','.join(args)}"
    key_if_fail = None
    if kind in ("fn", "method") and any(k in ("vp", "cp") for k in args):
        key_if_fail = "positional-args-shifted"
    LOG.clear()
    problems = []
    try:
        res = call(*pos, **kw)
    except Exception as e:
        return {"status": "fail", "kind": "construction-exception:" + type(e).__name__, "key": key_if_fail,
                "detail": f"{shape}: {type(e).__name__}: {e}"[:300]}
    if not var_params:
        C["concrete_calls"] += 1
        want = param_values({})
        if kind == "pred":
            if isinstance(res, SymbolicExpression) or not isinstance(res, target):
                problems.append(f"concrete predicate construction returned {type(res).__name__}")
            else:
                got_fields = tuple(getattr(res, f"p{i}") for i in range(arity))
                if tuple(map(id, got_fields)) != tuple(map(id, want)):
                    problems.append(f"predicate fields {got_fields} != arguments {want}")
                LOG.clear()
                val = res()
                if val is not _truth(want):
                    problems.append(f"predicate() returned {val!r}, expected {_truth(want)!r}")
        else:
            if res is not _truth(want):
                problems.append(f"concrete call returned {res!r}, expected {_truth(want)!r}")
        if len(LOG) != 1 or tuple(map(id, LOG[0])) != tuple(map(id, want)):
            problems.append(f"body log {LOG!r} != one call with {want!r}")
        if problems:
            return {"status": "fail", "kind": "concrete-call", "key": key_if_fail, "detail": shape + ": " + "; ".join(problems)}
        return {"status": "ok", "nontrivial": False, "shape": shape}

    C["symbolic_constructions"] += 1
    if LOG:
        problems.append(f"body ran {len(LOG)}x at construction time with {LOG[0]!r}")
    if not isinstance(res, SymbolicExpression):
        problems.append(f"call with a variable returned {type(res).__name__} {res!r}, not a condition")
    if problems:
        return {"status": "fail", "kind": "eager-or-non-condition", "key": key_if_fail, "detail": shape + ": " + "; ".join(problems)}
    LOG.clear()
    sel = [variables[i] for i in var_params]
    query = an(set_of(sel, res))
    try:
        rows = [tuple(id(r[v]) for v in sel) for r in query.evaluate()]
    except Exception as e:
        return {"status": "fail", "kind": "evaluation-exception:" + type(e).__name__, "key": key_if_fail,
                "detail": f"{shape}: {type(e).__name__}: {e}"[:300]}
    bindings = [dict(zip(var_params, combo)) for combo in itertools.product(*[doms[i] for i in var_params])]
    want_calls = sorted(tuple(map(id, param_values(b))) for b in bindings)
    got_calls = sorted(tuple(map(id, c)) for c in LOG)
    C["body_calls_checked"] += len(got_calls)
    if got_calls != want_calls:
        extra = len(got_calls) - len(want_calls)
        problems.append(f"call log differs from the candidate bindings: {len(got_calls)} calls vs {len(want_calls)} bindings; "
                        f"first logged {LOG[0] if LOG else None!r}, expected like {param_values(bindings[0])!r}")
    want_rows = sorted(tuple(id(b[i]) for i in var_params) for b in bindings if _truth(param_values(b)))
    if sorted(rows) != want_rows:
        problems.append(f"result rows {len(rows)} != {len(want_rows)} bindings for which the concrete call is true")
    if problems:
        return {"status": "fail", "kind": "symbolic-evaluation", "key": key_if_fail, "detail": shape + ": " + "; ".join(problems)}
    # second evaluation of the same query object after the bound objects changed: the body runs again for every
    # candidate binding and the rows follow the new truth values
    for i in var_params:
        for j, o in enumerate(doms[i]):
            if (j + len(doms[i])) % 2 == 0 or len(doms[i]) == 1:
                o.a += 1
    LOG.clear()
    try:
        rows2 = [tuple(id(r[v]) for v in sel) for r in query.evaluate()]
    except Exception as e:
        return {"status": "fail", "kind": "re-evaluation-exception:" + type(e).__name__, "key": None,
                "detail": f"{shape}: {type(e).__name__}: {e}"[:300]}
    C["reevaluations"] += 1
    C["body_calls_checked"] += len(LOG)
    if sorted(tuple(map(id, c)) for c in LOG) != want_calls:
        problems.append(f"second evaluation: {len(LOG)} calls vs {len(want_calls)} candidate bindings")
    want_rows2 = sorted(tuple(id(b[i]) for i in var_params) for b in bindings if _truth(param_values(b)))
    if sorted(rows2) != want_rows2:
        problems.append(f"second evaluation after the objects changed: rows {len(rows2)} != {len(want_rows2)} bindings for which "
                        f"the concrete call is now true (first evaluation gave {len(rows)})")
    if want_rows2 != want_rows:
        C["reevaluations_with_changed_truth"] += 1
    # the predicate as second condition of a query that binds one more variable: one call per candidate binding of
    # all the variables bound so far
    zdom = [m.P(a=1, name="z0"), m.P(a=2, name="z1")]
    z = let(m.P, list(zdom), name="z")
    LOG.clear()
    try:
        res3 = call(*pos, **kw)
        rows3 = [tuple(id(r[v]) for v in [z] + sel) for r in an(set_of([z] + sel, and_(z.a >= 1, res3))).evaluate()]
    except Exception as e:
        return {"status": "fail", "kind": "bystander-exception:" + type(e).__name__, "key": None,
                "detail": f"{shape}: {type(e).__name__}: {e}"[:300]}
    C["bystander_queries"] += 1
    C["body_calls_checked"] += len(LOG)
    if sorted(tuple(map(id, c)) for c in LOG) != sorted(want_calls * 2):
        problems.append(f"with a second bound variable: {len(LOG)} calls vs {2 * len(want_calls)} candidate bindings")
    want_rows3 = sorted((id(zz),) + r for zz in zdom for r in want_rows2)
    if sorted(rows3) != want_rows3:
        problems.append(f"with a second bound variable: rows {len(rows3)} != {len(want_rows3)}")
    # the call directly under a negation: the complement of the bindings, still one call per candidate binding
    LOG.clear()
    try:
        res4 = call(*pos, **kw)
        rows4 = [tuple(id(r[v]) for v in sel) for r in an(set_of(sel, not_(res4))).evaluate()]
    except Exception as e:
        return {"status": "fail", "kind": "negation-exception:" + type(e).__name__, "key": None,
                "detail": f"{shape}: {type(e).__name__}: {e}"[:300]}
    C["negated_queries"] += 1
    C["body_calls_checked"] += len(LOG)
    if sorted(tuple(map(id, c)) for c in LOG) != want_calls:
        problems.append(f"under not_: {len(LOG)} calls vs {len(want_calls)} candidate bindings")
    want_rows4 = sorted(tuple(id(b[i]) for i in var_params) for b in bindings if not _truth(param_values(b)))
    if sorted(rows4) != want_rows4:
        problems.append(f"under not_: rows {len(rows4)} != {len(want_rows4)} bindings for which the concrete call is false")
    if want_rows4:
        C["negated_queries_with_answers"] += 1
    # the call as the condition of for_all over its first variable argument: the body has to be consulted for every
    # value of the universal variable (call counts are not compared: the operator may stop early)
    u = var_params[0]
    rest = var_params[1:]
    LOG.clear()
    try:
        res5 = call(*pos, **kw)
        if rest:
            sel5 = [variables[i] for i in rest]
            rows5 = [tuple(id(r[v]) for v in sel5) for r in an(set_of(sel5, for_all(variables[u], res5))).evaluate()]
        else:
            z5 = let(m.P, [m.P(a=1, name="zz")], name="z5")
            rows5 = [()] * len(list(an(entity(z5, for_all(variables[u], res5))).evaluate()))
    except Exception as e:
        return {"status": "fail", "kind": "forall-exception:" + type(e).__name__, "key": None,
                "detail": f"{shape}: {type(e).__name__}: {e}"[:300]}
    C["forall_queries"] += 1
    want_rows5 = sorted(tuple(id(o) for o in combo) for combo in itertools.product(*[doms[i] for i in rest])
                        if all(_truth(param_values({**dict(zip(rest, combo)), u: uv})) for uv in doms[u]))
    if sorted(rows5) != want_rows5:
        problems.append(f"under for_all over the first variable argument: rows {len(rows5)} != {len(want_rows5)}")
    if want_rows5 and len(doms[u]) > 1:
        C["forall_queries_with_answers"] += 1
    if problems:
        return {"status": "fail", "kind": "symbolic-evaluation-history", "key": None, "detail": shape + ": " + "; ".join(problems)}
    return {"status": "ok", "nontrivial": True, "shape": shape, "obs": {"calls": len(got_calls), "rows": len(rows)}}
