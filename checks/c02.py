"""C02 - no duplicated or dropped solutions in conjunctive / else-if queries.

Same engine as C01, restricted to the negation-normal conjunctive / else-if fragment, comparing
row MULTISETS: exactly one result per satisfying assignment of all the query's variables.
the(...) and an(..., quantification=...) are checked against the true count on fresh builds.
"""
from __future__ import annotations

from collections import Counter

from vlib import eql_engine as G
from vlib import eql_gen as GEN

ID = "C02"
LEVEL = "exploration"
RULE = ("random queries in the fragment {atoms (comparisons, membership, Predicate subclasses, HasType, symbolic functions), negated atoms, and_, or_ between sides over identical variable sets} "
        "with 1-4 variables (selected and non-selected), list / one-shot generator domains, value-equal distinct "
        "objects, ordering comparisons over partially ordered operands (NaN floats, frozensets), plain and negated; "
        "forced patterns: both sides of an or_ true for the same element, a variable bound by one comparator "
        "and re-used later, non-selected variables that multiply rows.  Non-trivial = some assignment satisfies both "
        "sides of an else-if, or the expected multiset contains a repeated row; distinct = skeleton x domain-size "
        "signature x selection")
ASSUMPTIONS = ["'one result per satisfying assignment of the query's variables' counts non-selected variables too",
               "empty domains are generated; with an empty domain no total assignment exists and no row is expected"]
ANCHORS = ["OR.evaluate_left", "ElseIf._evaluate__", "AND.evaluate_right", "Comparator._evaluate__",
           "ResultQuantifier._evaluate__", "The._evaluate__"]


def plan(tier):
    return {"cases": 20000 if tier == "quick" else 300000, "shards": 16, "case_timeout": 20, "shard_timeout": 3000,
            "min_nontrivial": 200 if tier == "quick" else 1500,
            "min_counters": {"rows_compared": 5000, "elseif_cases": 500, "both_sides_true": 100,
                             "the_checked": 1000, "exactly_checked": 1000, "an_after_the_checked": 1000, "correlated_nested_selections": 1000}}


def setup(ctx):
    from vlib import contracts, eqlmodel
    contracts.install_quantifier_contracts()
    ctx["m"] = eqlmodel


def recover(ctx):
    ctx["m"].reset_eql_process_state()


def gen_porder_atom(rng, names):
    """ordering comparison over operands that are only partially ordered (NaN floats, frozensets)"""
    v, w = rng.choice(names), rng.choice(names)
    op = rng.choice(["<", "<=", ">", ">="] * 2 + ["==", "!="])
    if rng.random() < 0.5:
        return ["cmp", op, ["attr", ["var", v], "f"],
                ["attr", ["var", w], "f"] if rng.random() < 0.6 else ["lit", rng.choice([0.0, 1.0, 2.5])]]
    return ["cmp", op, ["attr", ["var", v], "fs"], ["attr", ["var", w], "fs"]]


def gen_pred_atom(rng, names):
    """predicates / symbolic functions as atoms (the statement's fragment names them explicitly)"""
    v, w = rng.choice(names), rng.choice(names)
    k = rng.random()
    if k < 0.12:
        # a predicate that is given plain values only: a constant condition with the truth value of its call
        return ["pred", "IntGreater", [["lit", rng.randint(0, 2)], ["lit", rng.randint(0, 2)]]]
    if k < 0.35:
        return ["pred", "BothPositive", [["var", v], ["var", w]]]
    if k < 0.6:
        return ["pred", "AGreater", [["var", v], ["lit", rng.randint(0, 1)]]]
    if k < 0.8:
        return ["hastype", ["var", v], "Q"]
    return ["cmp", rng.choice(GEN.CMP), ["fn", "sum_ab", {"x": ["var", v], "y": ["var", w]}], ["lit", rng.randint(1, 4)]]


def gen_atom_nnf(rng, names, ctx):
    r = rng.random()
    if r < 0.12:
        a = gen_porder_atom(rng, names)
        return ["not", a] if rng.random() < 0.5 else a
    if r < 0.27:
        a = gen_pred_atom(rng, names)
        return ["not", a] if rng.random() < 0.25 else a
    a = GEN.gen_atom(rng, names, False, ctx)
    while a[0] == "truth":      # keep to comparisons / membership (atoms of the fragment)
        a = GEN.gen_atom(rng, names, False, ctx)
    if rng.random() < 0.25:
        return ["not", a]
    return a


def gen_conj(rng, names, ctx, must=None):
    """conjunction of 1-3 (negated) atoms mentioning every variable of `must`"""
    atoms = [gen_atom_nnf(rng, names, ctx) for _ in range(rng.randint(1, 3))]
    if must:
        have = set()
        for a in atoms:
            have |= G.cond_vars(a)
        for n in sorted(set(must) - have):
            atoms.append(gen_atom_nnf(rng, [n], ctx))
        rng.shuffle(atoms)
    c = atoms[0]
    for a in atoms[1:]:
        c = ["and", c, a]
    return c


def gen_fragment(rng, names, depth, ctx):
    if depth == 0 or rng.random() < 0.35:
        return gen_conj(rng, names, ctx)
    if rng.random() < 0.5:
        return ["and", gen_fragment(rng, names, depth - 1, ctx), gen_fragment(rng, names, depth - 1, ctx)]
    # or_ between sides over the same variable set
    left = gen_fragment(rng, names, depth - 1, ctx)
    vs = sorted(G.cond_vars(left))
    if not vs:
        return left         # a constant condition (a predicate over plain values): nothing to range the other side over
    right = gen_conj(rng, vs, ctx, must=vs)
    if G.cond_vars(right) != set(vs):
        return left
    if rng.random() < 0.3:
        # force overlap: right side is a weakening of an atom of the left side
        right = ["and", right, right] if False else right
    return ["or", left, right]


def gen(rng, tier, ctx):
    if rng.random() < 0.12:
        spec = GEN.gen_scalar_vars(rng, falsy=True)
        spec["family"] = "scalar"
        return spec
    world = G.gen_world(rng)
    nv = rng.choice([1, 2, 2, 3, 3, 4])
    names = ["x", "y", "z", "u"][:nv]
    vars_ = []
    for nm in names:
        size = rng.choice([0, 1, 2, 2, 3, 3]) if rng.random() < 0.1 else rng.choice([1, 2, 2, 3])
        dom = [rng.randrange(len(world)) for _ in range(size)]
        if rng.random() < 0.85:
            dom = list(dict.fromkeys(dom))      # else: the identical object may occur twice (it is one candidate value)
        vars_.append({"name": nm, "type": rng.choice(["P", "P", "P", "Q"]), "dom": dom, "kind": rng.choice(["list", "gen"])})
    gctx = {"ref_ok": GEN.ref_ok_map(world, vars_)}
    cond = gen_fragment(rng, names, rng.randint(0, 3), gctx)
    used = sorted(G.cond_vars(cond))
    sel = rng.sample(names, rng.randint(1, nv))
    mode = "entity" if len(sel) == 1 and rng.random() < 0.5 else "set_of"
    return {"world": world, "vars": vars_, "derived": [], "cond": cond,
            "select": [["var", n] for n in sel], "mode": mode, "family": "fragment", "share_terms": rng.random() < 0.3}


def witnesses():
    world = [{"cls": "P", "a": 1, "b": 1, "items": [], "kids": [], "ref": None, "d": {"k": 0}, "name": "o0", "f": "0.0", "fs": []},
             {"cls": "Q", "a": 2, "b": 0, "items": [], "kids": [], "ref": None, "d": {"k": 0}, "name": "o1", "f": "0.0", "fs": []},
             {"cls": "P", "a": 0, "b": 2, "items": [], "kids": [], "ref": None, "d": {"k": 0}, "name": "o2", "f": "0.0", "fs": []}]
    X = [{"name": "x", "type": "P", "dom": [0, 1, 2], "kind": "list"}]
    return {"or-of-predicates-evaluated-as-union": {
        "world": world, "vars": X, "derived": [],
        "cond": ["or", ["pred", "BothPositive", [["var", "x"], ["var", "x"]]], ["cmp", "==", ["attr", ["var", "x"], "a"], ["lit", 2]]],
        "select": [["var", "x"]], "mode": "entity", "family": "witness"}}


def both_sides_true(spec, m, objs):
    """does some total assignment satisfy both sides of some or_ node?"""
    ors = []

    def walk(c):
        if c[0] == "or":
            ors.append(c)
        if c[0] in ("and", "or"):
            walk(c[1])
            walk(c[2])
        elif c[0] == "not":
            walk(c[1])

    walk(spec["cond"])
    for o in ors:
        s2 = dict(spec, cond=["and", o[1], o[2]], select=[["var", n] for n in sorted(G.cond_vars(o))], mode="set_of")
        try:
            if G.oracle(s2, m, objs):
                return True
        except G.OracleError:
            pass
    return False


def correlated_nested_selection(m, objs, C):
    """a nested query that selects an attribute of a variable of the enclosing query: one row per satisfying
    assignment of the enclosing variables - the nested query must not make the enclosing query enumerate its variable
    a second time"""
    from krrood.entity_query_language.entity import entity, let, set_of
    from krrood.entity_query_language.quantify_entity import an
    xs, ys = list(objs[:3]), list(objs[-3:])
    x, y = let(m.P, xs, name="x"), let(m.P, ys, name="y")
    want = Counter((id(p), id(q)) for p in dict.fromkeys(xs) for q in dict.fromkeys(ys) if q.a == p.b and p.a >= 0)
    try:
        got = Counter((id(r[x]), id(r[y])) for r in an(set_of((x, y), y.a == an(entity(x.b)), x.a >= 0)).evaluate())
    except Exception as e:
        return [f"y.a == an(entity(x.b)) raised {type(e).__name__}: {e}"[:200]]
    C["correlated_nested_selections"] += 1
    if got != want:
        return [f"set_of((x, y), y.a == an(entity(x.b)), x.a >= 0): {sum(got.values())} rows ({len(got)} distinct) for {sum(want.values())} satisfying assignments"]
    return []


def run(spec, ctx):
    from krrood.entity_query_language.quantify_entity import an, the
    from krrood.entity_query_language.result_quantification_constraint import Exactly, AtMost, AtLeast
    import krrood.entity_query_language.failures as F
    m = ctx["m"]
    C = ctx["counters"]
    objs = G.make_world(spec, m)
    f = G.features(spec)
    if f["union"]:
        C["generator_union_skipped"] += 1
        return {"status": "skip"}
    try:
        exp = G.oracle(spec, m, objs)
    except G.OracleError:
        C["oracle_raises"] += 1
        return {"status": "skip"}
    try:
        got, err = G.evaluate_real(spec, m, objs)
    except Exception as e:
        got, err = [], e
        recover(ctx)
    problems = []
    if err is not None:
        problems.append(f"exception {type(err).__name__}: {err}"[:200])
    ce, cg = Counter(exp), Counter(got)
    if err is None and ce != cg:
        dup = {k: (cg[k], ce[k]) for k in cg if cg[k] > ce.get(k, 0)}
        drop = {k: (cg.get(k, 0), ce[k]) for k in ce if cg.get(k, 0) < ce[k]}
        problems.append(f"multiset differs: duplicated(got,exp)={list(dup.items())[:3]} dropped(got,exp)={list(drop.items())[:3]}")
    C["rows_compared"] += len(got)
    if f["elseif"]:
        C["elseif_cases"] += 1
    n = len(exp)
    # the(...) on a fresh build
    if not problems:
        b = G.build(spec, m, objs)
        try:
            r = the(b.desc).evaluate()
            outcome = "value"
        except F.NoSolutionFound:
            outcome = "NoSolutionFound"
        except F.MultipleSolutionFound:
            outcome = "MultipleSolutionFound"
        except Exception as e:
            outcome = "other:" + type(e).__name__
        want = "value" if n == 1 else ("NoSolutionFound" if n == 0 else "MultipleSolutionFound")
        C["the_checked"] += 1
        C["the:" + want] += 1
        if outcome != want:
            problems.append(f"the(): {outcome}, expected {want} for {n} satisfying assignments")
        else:
            # the() stops at the second solution: the an() over the same description still sees every assignment
            idmap = {id(o): i for i, o in enumerate(b.objs)}
            try:
                after = Counter(tuple(G.canon_val(v, idmap) for v in G.row_of(r2, b, spec)) for r2 in b.query.evaluate())
            except Exception as e:
                after = f"{type(e).__name__}: {e}"[:120]
                recover(ctx)
            C["an_after_the_checked"] += 1
            if after != ce:
                problems.append(f"an() over the description that the() ({outcome}) was evaluated on before: "
                                f"{sum(after.values()) if isinstance(after, Counter) else after} results for {n} satisfying assignments")
        # count constraints see the true number
        for cons, ok in ((Exactly(n), True), (AtMost(n), True), (AtLeast(n), True),
                         (AtLeast(n + 1), False)) + (((AtMost(n - 1), False),) if n > 0 else ()):
            b = G.build(spec, m, objs)
            try:
                k = sum(1 for _ in an(b.desc, quantification=cons).evaluate())
                res = "ok"
            except (F.LessThanExpectedNumberOfSolutions, F.GreaterThanExpectedNumberOfSolutions) as e:
                res = type(e).__name__
                k = None
            except Exception as e:
                res = "other:" + type(e).__name__
                k = None
            C["exactly_checked"] += 1
            if ok and (res != "ok" or k != n):
                problems.append(f"an(quantification={cons!r}) -> {res}/{k}, true count {n}")
            if not ok and res == "ok":
                problems.append(f"an(quantification={cons!r}) accepted although the true count is {n}")
    if not problems and len(objs) >= 2:
        problems.extend(correlated_nested_selection(m, objs, C))
    if problems:
        C["fail"] += 1
        key = None
        return {"status": "fail", "kind": "multiset", "key": key, "detail": "; ".join(problems) + " | " + G.skeleton(spec),
                "obs": {"expected": sorted(ce.items())[:8], "got": sorted(cg.items())[:8]}}
    bst = bool(f["elseif"]) and both_sides_true(spec, m, objs)
    if bst:
        C["both_sides_true"] += 1
    repeated = any(v > 1 for v in ce.values())
    if repeated:
        C["repeated_rows"] += 1
    return {"status": "ok", "nontrivial": bst or repeated, "shape": G.skeleton(spec),
            "obs": {"assignments": n, "distinct_rows": len(ce)}}
