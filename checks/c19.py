"""C19 - unresolvable JSON type tags fail with the documented serialisation errors only."""
from __future__ import annotations

import importlib
import json

ID = "C19"
LEVEL = "fault_enumeration"
EXHAUSTIVE = True
RULE = ("an explicit enumeration of tag values placed under the type-tag key (every JSON type, empty / dotted / "
        "relative / double-dotted strings, names of modules, functions, type variables, constants, non-serialisable "
        "classes, abstract classes, dotted paths into classes (nested classes, attributes and methods of classes), packages whose import raises ImportError / RuntimeError / SyntaxError / SystemExit / a BaseException of their own, a lazily importing package, an unhashable class, an object whose attribute access raises, a serialisable class whose _from_json is a plain function, a module whose "
        "__getattr__ fails with KeyError) run completely, plus random tags assembled from dots and "
        "identifier fragments; a tag that an independent resolver finds to be a deserialisable class is skipped.  "
        "Oracle: every one of four consecutive presentations of the document (module-level from_json and "
        "SubclassJSONSerializer.from_json, a valid document in between) raises a JSONSerializationError subclass - "
        "never another exception, never an object.  "
        "Non-trivial = the tag gets past the 'missing' test (truthy); distinct = the tag value")
ASSUMPTIONS = ["documents carry arbitrary extra payload keys besides the tag",
               "the error class is compared only where the problem is beyond doubt (no tag: MissingTypeError; a tag that is not a name: InvalidTypeFormatError)"]
ANCHORS = ["SubclassJSONSerializer.from_json", "from_json"]

FIXED_TAGS = [
    None, True, False, 0, 1, 5, -1, 1.5, 0.0, [], ["a.b"], [1, 2], {}, {"a": 1}, {"__json_type__": "uuid.UUID"},
    "", " ", ".", "..", "...", ".x", "x.", "x", "a..b", "a.b.", ".a.b", "..a.b", "a. b", "a.b c", "a\nb.c", "🙂.x", "x.🙂",
    "os", "os.path", "json.dumps", "json.decoder", "builtins.len", "builtins.int", "builtins.object", "builtins.None",
    "typing.AnyStr", "typing.List", "typing.Optional", "typing.TYPE_CHECKING", "os.sep", "os.EX_OK", "math.pi",
    "models.jsonmodel.TV", "models.jsonmodel.CONSTANT", "models.jsonmodel.a_function", "models.jsonmodel.NotSerializable",
    "models.jsonmodel.register", "models.jsonmodel.Missing", "models.jsonmodel", "models.badpkg.Thing", "models.badpkg",
    "models.nothere.Thing", "nothere.Thing", "nothere.sub.Thing", "krrood.adapters.json_serializer.JSON_TYPE_NAME",
    "krrood.adapters.json_serializer.to_json", "krrood.adapters.json_serializer.leaf_types",
    "krrood.adapters.json_serializer.JSONSerializationError", "krrood.adapters.json_serializer.JSONSerializableTypeRegistry",
    "krrood.adapters.json_serializer.SubclassJSONSerializer", "models.jsonmodel.NoFromJson", "models.jsonmodel.NoneFromJson",
    "models.jsonmodel.AbstractNode", "models.badpkg_runtime.Thing", "models.badpkg_runtime", "models.badpkg_syntax.Thing",
    "models.lazymod.Thing", "models.lazymod.anything", "six.moves.dbm_gnu",
    "krrood.adapters.nothere.X", "krrood..adapters.X", "dataclasses.dataclass", "dataclasses.MISSING", "enum.Enum",
    "abc.ABC", "decimal", "uuid", "uuid.uuid4", "uuid.NAMESPACE_DNS", "collections.abc", "collections.abc.Mapping",
    "sys.modules", "sys.path", "__main__.X", "__main__", "builtins.", ".builtins", "1.2", "1", "a.1", "a-b.c", "a/b.c",
    "models.jsonmodel.PlainUUID", "models.jsonmodel.Coin", "models.jsonmodel.ForgotClassMethod", "models.jsonmodel.PlainFunctionFromJson", "models.lazypkg.tool", "models.lazypkg.tool.Thing", "models.lazypkg.nothere", "models.badpkg_skip.Thing", "models.badpkg_skip.Outer.Inner",
    "models.jsonmodel.StaticWithClassParameter", "models.jsonmodel.Unhashable", "models.jsonmodel.SETTINGS",
    "models.badpkg_exit.Thing", "models.badpkg_exit", "models.badpkg_exit.Outer.Inner", "models.badpkg_runtime.Outer.Inner", "models.badpkg_exit.a.b.c",
    "models.jsonmodel.Outer", "models.jsonmodel.Outer.NestedNode", "models.jsonmodel.Outer.Missing", "models.jsonmodel.Outer.NestedNode.x",
    "models.jsonmodel.Node0.name", "models.jsonmodel.Node0._from_json", "json.decoder.JSONDecoder.decode", "json.decoder.JSONDecoder.decode.x",
    "os.path.join", "os.path.", "a\x00b.c", "os.\x00", "a" * 300 + ".b", "importlib.import_module", "types.ModuleType", "types.FunctionType", "functools.partial",
]
FRAGS = ["badpkg_exit", "badpkg_runtime", "lazypkg", "tool", "badpkg_skip", "Unhashable", "SETTINGS", "os", "path", "json", "krrood", "adapters", "json_serializer", "models", "jsonmodel", "badpkg", "x", "X",
         "uuid", "UUID", "typing", "List", "T", "", " ", "1", "builtins", "int", "dumps", "a_function", "TV",
         "NotSerializable", "sys", "decimal", "Decimal", "Node0", "nothere", "Outer", "NestedNode", "JSONDecoder", "decoder", "PlainUUID", "Coin"]


def plan(tier):
    return {"cases": 3000 if tier == "quick" else 100000, "shards": 8, "case_timeout": 20, "shard_timeout": 1200,
            "min_nontrivial": 80,
            "min_counters": {"raised_documented": 300, "enumerated_tags": 80, "identified_problems_checked": 100}}


def setup(ctx):
    from models import jsonmodel
    jsonmodel.register()


def exhaustive(tier, ctx):
    for i, t in enumerate(FIXED_TAGS):
        yield {"tag": t, "missing": False, "extra": i % 3, "enumerated": True}
    yield {"tag": None, "missing": True, "extra": 0, "enumerated": True}
    yield {"tag": None, "missing": True, "extra": 2, "enumerated": True}


def gen(rng, tier, ctx):
    n = rng.randint(1, 5)
    parts = [rng.choice(FRAGS) for _ in range(n)]
    tag = ".".join(parts)
    if rng.random() < 0.1:
        tag = "." * rng.randint(1, 2) + tag
    if rng.random() < 0.05:
        tag = tag + "."
    return {"tag": tag, "missing": False, "extra": rng.randint(0, 2)}


def witnesses():
    # regression witnesses for the mechanisms listed (known or fixed) in known-findings.txt
    return {
        "non-string-tag": {"tag": 5, "missing": False, "extra": 1},
        "empty-module-part": {"tag": ".x", "missing": False, "extra": 0},
        "relative-module-name": {"tag": "..a.b", "missing": False, "extra": 0},
        "non-class-target": {"tag": "json.dumps", "missing": False, "extra": 0},
        "import-error-module": {"tag": "models.badpkg.Thing", "missing": False, "extra": 0},
        "present-but-falsy-tag-reported-as-missing": {"tag": 0, "missing": False, "extra": 1},
        "module-that-exits-on-import": {"tag": "models.badpkg_exit.Thing", "missing": False, "extra": 0},
        "base-exception-while-importing-or-looking-up": {"tag": "models.lazypkg.tool", "missing": False, "extra": 0},
        "unhashable-or-uncooperative-target": {"tag": "models.jsonmodel.SETTINGS", "missing": False, "extra": 0},
        "static-from-json-that-cannot-take-the-document": {"tag": "models.jsonmodel.StaticWithClassParameter", "missing": False, "extra": 0},
        "module-that-exits-on-import-below-a-nested-name": {"tag": "models.badpkg_exit.Outer.Inner", "missing": False, "extra": 0},
        "from-json-is-a-plain-function-with-a-class-parameter": {"tag": "models.jsonmodel.ForgotClassMethod", "missing": False, "extra": 0},
        "serialisable-class-without-from-json": {"tag": "krrood.adapters.json_serializer.SubclassJSONSerializer", "missing": False, "extra": 1},
    }


def independent_valid(tag):
    """does the tag name a deserialisable class according to a resolver written independently?"""
    from krrood.adapters.json_serializer import JSONSerializableTypeRegistry, SubclassJSONSerializer
    if not isinstance(tag, str) or "." not in tag:
        return False
    mod, _, cls = tag.rpartition(".")
    if not mod or mod.startswith("."):
        return False
    import inspect
    try:
        m = importlib.import_module(mod)
    except BaseException:
        # the qualified name of a class defined inside other classes: module.Outer.Inner
        m = None
        parts = mod.split(".")
        for i in range(len(parts) - 1, 0, -1):
            try:
                found = importlib.import_module(".".join(parts[:i]))
            except BaseException:
                continue
            for name in parts[i:]:
                found = vars(found).get(name) if (inspect.ismodule(found) or isinstance(found, type)) else None
                if not isinstance(found, type):
                    found = None
                    break
            m = found
            break
        if m is None:
            return False
    try:
        obj = getattr(m, cls, None) if cls else None
    except KeyboardInterrupt:
        raise
    except BaseException:
        return False
    if not isinstance(obj, type) or inspect.isabstract(obj):
        return False
    if issubclass(obj, SubclassJSONSerializer):
        # deserialisable only when the class says how it is created from json
        raw = inspect.getattr_static(obj, "_from_json", None)
        if isinstance(raw, staticmethod):
            raw = raw.__func__
        if inspect.isfunction(raw):
            # a plain function in the class body is called on the class without an instance: the document is its first
            # argument.  It says how the class is created from json iff it can be called like that
            try:
                inspect.signature(raw).bind({})
                return True
            except TypeError:
                return False
        fj = vars(obj).get("_from_json", None) if "_from_json" in vars(obj) else getattr(obj, "_from_json", None)
        fj = getattr(fj, "__func__", fj)
        return callable(fj) and fj is not SubclassJSONSerializer._from_json.__func__
    # the harness's own record of what is registered (not the registry's answer: a registry that also answers for
    # sub-classes of a registered type would otherwise make such a tag look valid)
    from models import jsonmodel
    return obj in jsonmodel.REGISTERED_TYPES


def not_a_name(tag):
    """the tag is present but cannot be a qualified class name: not a string, empty, without a dot, or with an empty or
    relative module part"""
    if not isinstance(tag, str):
        return True
    mod, dot, cls = tag.rpartition(".")
    return not dot or not mod or mod.startswith(".")


def mechanism(tag, exc):
    """name of the escape mechanism (used for known-finding keys)"""
    if not isinstance(tag, str):
        return "non-string-tag"
    mod = tag.rpartition(".")[0]
    if isinstance(exc, ValueError) and mod == "":
        return "empty-module-part"
    if mod.startswith("."):
        return "relative-module-name"
    if isinstance(exc, ImportError):
        return "import-error-module"
    if mod.startswith("models.badpkg_") or mod == "models.lazymod" or mod.startswith("six."):
        return "module-fails-with-another-exception"
    if isinstance(exc, TypeError):
        return "non-class-target"
    if isinstance(exc, NotImplementedError):
        return "serialisable-class-without-from-json"
    return None


def run(spec, ctx):
    from krrood.adapters import json_serializer as js
    C = ctx["counters"]
    tag = spec["tag"]
    if independent_valid(tag):
        C["valid_tags_skipped"] += 1
        return {"status": "skip"}
    doc = {}
    if not spec["missing"]:
        doc[js.JSON_TYPE_NAME] = tag
    if spec["extra"] >= 1:
        doc["value"] = "123e4567-e89b-12d3-a456-426614174000"
    if spec["extra"] >= 2:
        doc["name"] = "n"
        doc["payload"] = None
        doc["friends"] = []
    doc = json.loads(json.dumps(doc))  # the document really is JSON
    if spec.get("enumerated"):
        C["enumerated_tags"] += 1
    # the same document is presented several times (a resolver that remembers tags must keep failing the same way),
    # through both entry points, with a valid document deserialised in between
    attempts = [("from_json", js.from_json), ("from_json", js.from_json),
                ("SubclassJSONSerializer.from_json", js.SubclassJSONSerializer.from_json), ("from_json", js.from_json)]
    errors = []
    for n, (ename, entry) in enumerate(attempts):
        try:
            res = entry(json.loads(json.dumps(doc)))
        except js.JSONSerializationError as e:
            C["raised_documented"] += 1
            C["err:" + type(e).__name__] += 1
            errors.append(type(e).__name__)
            # "identifies the problem", where the problem is beyond doubt: no tag at all / a tag that is not a name
            want = "MissingTypeError" if spec["missing"] else "InvalidTypeFormatError" if not_a_name(tag) else None
            if want:
                C["identified_problems_checked"] += 1
            if want and type(e).__name__ != want:
                return {"status": "fail", "kind": "wrong-error:" + type(e).__name__, "key": None,
                        "detail": f"tag={tag!r} (missing={spec['missing']}) attempt {n + 1} via {ename} raised {type(e).__name__}, "
                                  f"the problem is a {want}"[:300]}
        except KeyboardInterrupt:
            raise
        except BaseException as e:
            key = mechanism(tag, e)
            C["escaped:" + type(e).__name__] += 1
            return {"status": "fail", "kind": "undocumented-exception:" + type(e).__name__, "key": key,
                    "detail": f"tag={tag!r} attempt {n + 1} via {ename} raised {type(e).__name__}: {e}"[:300]}
        else:
            return {"status": "fail", "kind": "object-returned", "key": None,
                    "detail": f"tag={tag!r} attempt {n + 1} via {ename} returned {type(res).__name__} {res!r}"[:300]}
        if n == 0:
            ok = js.from_json({js.JSON_TYPE_NAME: "uuid.UUID", "value": "123e4567-e89b-12d3-a456-426614174000"})
            C["valid_documents_between_attempts"] += 1
            if type(ok).__name__ != "UUID":
                return {"status": "fail", "kind": "valid-document-broken", "key": None,
                        "detail": f"after tag={tag!r} a valid uuid document gave {ok!r}"}
    C["repeat_attempts"] += len(attempts) - 1
    return {"status": "ok", "nontrivial": bool(tag), "shape": json.dumps(tag, sort_keys=True),
            "obs": {"tag": tag, "errors": errors}}
