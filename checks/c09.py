"""C09 - result quantifiers enforce exactly the stated solution count.

Oracle: a sequential specification of (yielded prefix, exception class) for a query
with a controlled number n of solutions under each constraint.  The space
n x constraint x bounds x {entity,set_of} x {list,generator,domain-less} x {filtered,unfiltered}
is enumerated completely up to a bound; the thorough tier adds random larger n.
"""
from __future__ import annotations

import itertools

ID = "C09"
LEVEL = "exploration"
EXHAUSTIVE = True
RULE = ("every (n solutions, constraint, bounds in 0..n+2, entity|set_of, list|generator|domain-less domain, "
        "filtered|unfiltered|filtered by a disjunction over a second one-valued variable) combination up to n<=N is enumerated (N=6 quick, 10 thorough) plus random n<=60 in "
        "thorough; the() around a quantified inner query (inner solutions 0..3 x inner constraint x outer matches 0..2); a case is non-trivial when a constraint is present (an() without constraint is the trivial case); "
        "distinct = (n, constraint kind, bounds, selector, domain kind, filtered)")
ASSUMPTIONS = ["solutions are produced by a single-variable query whose satisfying elements are known by construction",
               "any exception at construction time counts as 'rejected' for negative/inverted bounds"]
ANCHORS = ["ResultQuantifier._evaluate__", "Exactly.assert_satisfaction", "AtMost.assert_satisfaction",
           "AtLeast.assert_satisfaction", "Range.assert_satisfaction", "The._evaluate__"]


def plan(tier):
    return {"cases": 0 if tier == "quick" else 6000, "shards": 16, "case_timeout": 10,
            "shard_timeout": 600, "min_nontrivial": 500,
            "min_counters": {"yield_events": 1000, "contract_evals": 1000, "construct_rejections": 10, "nested_cases": 100,
                             "falsy_solutions": 300, "union_conditions": 200, "nested_beside_a_universal_condition": 50}}


def setup(ctx):
    from vlib import contracts, eqlmodel
    contracts.install_quantifier_contracts()
    ctx["m"] = eqlmodel
    eqlmodel.fresh_symbol_graph()


def constraints_for(n, extra=2):
    out = [("none",), ("the",)]
    for k in range(0, n + extra + 1):
        out += [("atleast", k), ("atmost", k), ("exactly", k)]
    for lo in range(0, n + extra + 1):
        for hi in range(lo, n + extra + 1):
            out.append(("range", lo, hi))
    return out


def exhaustive(tier, ctx):
    N = 6 if tier == "quick" else 10
    for n in range(0, N + 1):
        for c in constraints_for(n):
            for sel in ("entity", "set_of", "match"):
                for dom in ("list", "gen", "domainless", "scalar"):
                    if sel == "match" and dom == "scalar":
                        continue    # a pattern needs a class with fields
                    for filt in (False, True, "union0", "union1"):
                        if dom == "scalar" and filt is not True:
                            continue        # the scalar form always carries a condition that binds the variable
                        if isinstance(filt, str) and (sel == "match" or dom not in ("list", "gen") or n > 4):
                            continue        # the disjunction over a second variable is written as an explicit query
                        yield {"n": n, "c": list(c), "sel": sel, "dom": dom, "filt": filt, "pad": 2 if filt else 0}
    # a quantified query nested inside the(): a violated inner constraint is reported as what it is
    for n_in in range(0, 4):
        for kind in ("atleast", "atmost", "exactly"):
            for k in range(0, 5):
                for m_out in (0, 1, 2):
                    yield {"nested": {"n_in": n_in, "c": [kind, k], "m_out": m_out}}
    # invalid constructions
    for k in (-1, -2, -7):
        for kind in ("atleast", "atmost", "exactly"):
            yield {"construct": [kind, k]}
    for lo in range(0, 5):
        for hi in range(-1, lo):
            yield {"construct": ["range", lo, hi]}


def gen(rng, tier, ctx):
    n = rng.randint(7, 60)
    kind = rng.choice(["atleast", "atmost", "exactly", "range", "the", "none"])
    around = lambda: max(0, n + rng.randint(-3, 3))
    if kind == "range":
        lo = around()
        hi = lo + rng.randint(0, 4)
        c = [kind, lo, hi]
    elif kind in ("the", "none"):
        c = [kind]
    else:
        c = [kind, around()]
    return {"n": n, "c": c, "sel": rng.choice(["entity", "set_of", "match"]), "dom": rng.choice(["list", "gen", "domainless"]),
            "filt": rng.random() < 0.5, "pad": rng.randint(0, 5)}


def witnesses():
    return {"union-yields-solution-twice": {"n": 1, "c": ["the"], "sel": "set_of", "dom": "list", "filt": "union1", "pad": 0}}


def expected(n, c):
    """-> (max_yield or None for 'all', exception class name or None)"""
    k = c[0]
    if k == "none":
        return n, n, None
    if k == "the":
        if n == 0:
            return 0, 0, "NoSolutionFound"
        if n > 1:
            return 0, 1, "MultipleSolutionFound"
        return 1, 1, None
    if k == "atleast":
        return (n, n, None) if n >= c[1] else (0, n, "LessThanExpectedNumberOfSolutions")
    if k == "atmost":
        return (n, n, None) if n <= c[1] else (0, c[1], "GreaterThanExpectedNumberOfSolutions")
    if k == "exactly":
        if n == c[1]:
            return n, n, None
        return (0, n, "LessThanExpectedNumberOfSolutions") if n < c[1] else (0, c[1], "GreaterThanExpectedNumberOfSolutions")
    if k == "range":
        if n < c[1]:
            return 0, n, "LessThanExpectedNumberOfSolutions"
        if n > c[2]:
            return 0, c[2], "GreaterThanExpectedNumberOfSolutions"
        return n, n, None
    raise ValueError(c)


def make_constraint(c):
    from krrood.entity_query_language.result_quantification_constraint import AtLeast, AtMost, Exactly, Range
    k = c[0]
    if k == "atleast":
        return AtLeast(c[1])
    if k == "atmost":
        return AtMost(c[1])
    if k == "exactly":
        return Exactly(c[1])
    if k == "range":
        return Range(AtLeast(c[1]), AtMost(c[2]))
    return None


def run_nested(ns, m, C):
    """the(entity(x, x.a == an(entity(y.a), quantification=c))): the inner query has n_in solutions (values 1..n_in),
    m_out outer elements carry the value 1"""
    from krrood.entity_query_language.entity import entity, let
    from krrood.entity_query_language.quantify_entity import an, the
    import krrood.entity_query_language.failures as F
    n_in, c, m_out = ns["n_in"], ns["c"], ns["m_out"]
    ys = [m.P(a=i + 1, name=f"y{i}") for i in range(n_in)]
    xs = [m.P(a=1, name=f"x{i}") for i in range(m_out)] + [m.P(a=99, name="other")]
    y = let(m.P, list(ys), name="y")
    x = let(m.P, list(xs), name="x")
    inner = an(entity(y.a), quantification=make_constraint(c))
    C["nested_cases"] += 1
    lo_y, hi_y, inner_exc = expected(n_in, c)
    matches = m_out if n_in >= 1 else 0
    if inner_exc is not None:
        want = inner_exc
    elif matches == 0:
        want = "NoSolutionFound"
    elif matches > 1:
        want = "MultipleSolutionFound"
    else:
        want = None
    try:
        got = the(entity(x, x.a == inner)).evaluate()
        raised = None
    except Exception as e:
        got, raised = None, e
    rname = type(raised).__name__ if raised is not None else None
    problems = []
    if rname != want:
        problems.append(f"the() around an inner {c} with {n_in} solutions and {matches} outer matches: expected {want}, got {rname}")
    elif raised is not None and inner_exc is not None and getattr(raised, "expression", None) is not inner:
        problems.append(f"the {rname} does not name the inner query as its expression")
    elif raised is None and got is not xs[0]:
        problems.append(f"the() returned {got!r} instead of the only match")
    C["exc:" + str(rname)] += 1
    if not problems:
        # the quantified inner query is selected and constrained by a universal condition that holds for all of its
        # solutions (the idiom of the repository's aggregation tests): its count is the count of its own solutions
        from krrood.entity_query_language.entity import for_all
        y2 = let(m.P, list(ys), name="y2")
        inner2 = an(entity(y2, y2.a >= 1), quantification=make_constraint(c))
        limits = [m.P(a=1000, name="l0"), m.P(a=2000, name="l1")]
        lim = let(m.P, limits, name="lim")
        try:
            got2 = [r.name for r in an(entity(inner2, for_all(lim, inner2.a <= lim.a))).evaluate()]
            raised2 = None
        except Exception as e:
            got2, raised2 = None, type(e).__name__
        C["nested_beside_a_universal_condition"] += 1
        # the results are yielded lazily: an upper bound raises once it is exceeded, a lower bound at the end
        if raised2 != inner_exc or (inner_exc is None and sorted(got2) != sorted(o.name for o in ys)):
            problems.append(f"an inner {c} with {n_in} solutions, selected and constrained by a for_all that holds for all of them: "
                            f"expected {inner_exc or sorted(o.name for o in ys)}, got {raised2 or got2}")
    if problems:
        return {"status": "fail", "kind": "nested-quantifier", "key": None, "detail": "; ".join(problems)}
    return {"status": "ok", "nontrivial": True, "shape": f"nested|{n_in}|{c}|{m_out}"}


def run(spec, ctx):
    from krrood.entity_query_language.entity import entity, set_of, let
    from krrood.entity_query_language.quantify_entity import an, the
    from vlib import contracts
    m = ctx["m"]
    C = ctx["counters"]
    if "construct" in spec:
        c = spec["construct"]
        try:
            if c[0] == "range":
                # build the parts separately so a negative part is rejected on its own
                from krrood.entity_query_language.result_quantification_constraint import AtLeast, AtMost, Range
                lo = AtLeast(c[1]) if c[1] >= 0 else None
                hi = AtMost(c[2]) if c[2] >= 0 else None
                if lo is None or hi is None:
                    make_constraint(c)
                else:
                    Range(lo, hi)
            else:
                make_constraint(c)
        except Exception as e:
            C["construct_rejections"] += 1
            C["reject:" + type(e).__name__] += 1
            return {"status": "ok", "nontrivial": True, "shape": "construct:" + repr(c)}
        return {"status": "fail", "kind": "invalid-constraint-accepted", "key": None,
                "detail": f"constructing {c} raised nothing"}

    if "nested" in spec:
        return run_nested(spec["nested"], m, C)
    n, c, pad = spec["n"], spec["c"], spec["pad"]
    filt = spec["filt"]
    # build domain: n solutions (a=1) interleaved with pad non-solutions (a=0) when filtered
    flags = [1] * n + ([0] * pad if filt else [])
    # deterministic interleave
    flags.sort(key=lambda f, _i=itertools.count(): (next(_i) * 7) % (len(flags) or 1))
    scalar = spec["dom"] == "scalar"
    if scalar:
        # solutions are plain values, the first ones falsy (0, "", (), 0.0 would equal 0): a solution is a solution
        # whatever its truth value; the condition binds the variable before it is selected
        pool = [0, "", (), "a", 1, 2.5, "b", (1,)] + list(range(2, 60))
        sols = pool[:n]
        vals = list(sols) + [-7] * pad
        vals.sort(key=lambda f, _i=itertools.count(): (next(_i) * 7) % (len(vals) or 1))
        x = let(object, list(vals), name="x")
        objs = vals
        conds = [x != -7]
        filt = True
    elif spec["dom"] == "domainless":
        m.fresh_symbol_graph()
        objs = [m.S0(a=f, name=f"s{i}") for i, f in enumerate(flags)]
        x = let(m.S0, None, name="x")
    elif spec["sel"] == "match":
        m.fresh_symbol_graph()           # a pattern needs a Symbol class (its fields come from the class diagram)
        objs = [m.S0(a=f, name=f"s{i}") for i, f in enumerate(flags)]
        x = None
    else:
        objs = [m.P(a=f, name=f"p{i}") for i, f in enumerate(flags)]
        x = let(m.P, (iter(list(objs)) if spec["dom"] == "gen" else list(objs)), name="x")
    if not scalar:
        sols = [o for o in objs if o.a == 1] if filt else list(objs)
        conds = [x.a == 1] if (filt and x is not None) else []
    if isinstance(spec["filt"], str):
        # x.a == 1 or z.a == 1 with z over ONE object: a solution is an x (with that z); where both sides hold it is
        # still one solution
        from krrood.entity_query_language.entity import or_
        z_obj = m.P(a=1 if spec["filt"] == "union1" else 0, name="z")
        z = let(m.P, [z_obj], name="z")
        conds = [or_(x.a == 1, z.a == 1)]
        if z_obj.a == 1:
            sols = list(objs)
        C["union_conditions"] += 1
    if spec["sel"] == "match":
        # the same description written as a pattern (entity_matching on the same variable)
        from krrood.entity_query_language.match import entity_matching
        C["pattern_descriptions"] += 1
        if spec["dom"] == "domainless":
            desc = entity_matching(m.S0, None)(**({"a": 1} if filt else {}))
        else:
            desc = entity_matching(m.S0, (iter(list(objs)) if spec["dom"] == "gen" else list(objs)))(**({"a": 1} if filt else {}))
    else:
        desc = entity(x, *conds) if spec["sel"] == "entity" else set_of([x], *conds)
    before = sum(contracts.EVALS.values())
    lo_y, hi_y, exc = expected(len(sols), c)
    got, raised = [], None
    try:
        if c[0] == "the":
            q = the(desc)
            r = q.evaluate()
            got = [r]
        else:
            q = an(desc, quantification=make_constraint(c))
            for r in q.evaluate():
                got.append(r)
                C["yield_events"] += 1
    except Exception as e:
        raised = e
    C["contract_evals"] += sum(contracts.EVALS.values()) - before
    vals = [g if spec["sel"] in ("entity", "match") else g[x] for g in got]
    rname = type(raised).__name__ if raised is not None else None
    problems = []
    if isinstance(raised, contracts.ContractBroken):
        problems.append("contract:" + str(raised))
    if exc is None:
        if raised is not None:
            problems.append(f"unexpected {rname}: {raised}")
        elif len(vals) != len(sols):
            problems.append(f"yielded {len(vals)} of {len(sols)}")
    else:
        if raised is None:
            problems.append(f"expected {exc}, none raised; yielded {len(vals)}")
        else:
            import krrood.entity_query_language.failures as F
            want = getattr(F, exc)
            if not isinstance(raised, want):
                problems.append(f"expected {exc}, got {rname}")
            # exact class for the(): a plain Less/Greater is not the documented error
            if c[0] == "the" and type(raised).__name__ != exc:
                problems.append(f"the(): expected exactly {exc}, got {rname}")
        if len(vals) > hi_y:
            problems.append(f"yielded {len(vals)} > allowed {hi_y}")
    ident = (lambda v: (type(v).__name__, repr(v))) if scalar else id
    ids = [ident(v) for v in vals]
    if len(set(ids)) != len(ids):
        problems.append("duplicate solution yielded")
    if not set(ids) <= {ident(s) for s in sols}:
        problems.append("yielded a non-solution")
    if exc is None and c[0] != "the" and set(ids) != {ident(s) for s in sols}:
        problems.append("not all solutions yielded")
    if exc is None and c[0] == "the" and ids != [ident(sols[0])]:
        problems.append(f"the() returned {vals!r}, the only solution is {sols[0]!r}")
    if scalar:
        C["scalar_cases"] += 1
        C["falsy_solutions"] += sum(1 for s_ in sols if not s_)
    C["exc:" + str(rname)] += 1
    C["cases:" + c[0]] += 1
    shape = f"{len(sols)}|{c}|{spec['sel']}|{spec['dom']}|{filt}"
    if problems:
        return {"status": "fail", "kind": "quantifier-spec", "key": None, "detail": "; ".join(problems),
                "obs": {"yielded": len(vals), "raised": rname, "expected_exc": exc}}
    return {"status": "ok", "nontrivial": c[0] != "none", "shape": shape,
            "obs": {"yielded": len(vals), "raised": rname}}


def parent_extra(tier):
    """thorough tier: the repository's own tests run once more with the harness contracts installed"""
    if tier != "thorough":
        return [], {}
    from vlib import pytest_contracts
    rep = pytest_contracts.run_repo_tests_under_contracts()
    if "error" in rep:
        raise RuntimeError(rep["error"][-200:])
    counters = {"repo_tests_under_contracts": rep.get("tests", 0)}
    for k, v in rep.get("contract_evaluations", {}).items():
        counters["repo_tests_contract_evals:" + k] = v
    fails = [{"idx": "repo-test:" + b["test"], "spec": {"repo_test": b["test"]}, "kind": "contract-in-repository-test",
              "key": None, "detail": b["what"][-400:]} for b in rep.get("broken", [])
             if ("ContractBroken" in b["what"])]
    return fails, counters
