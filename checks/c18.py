"""C18 - JSON serialisation round-trips polymorphic objects through real JSON text."""
from __future__ import annotations

import json
import math

ID = "C18"
LEVEL = "exploration"
RULE = ("recursive random values: None, bool, ints (incl. beyond 2**64), floats (+-0.0, 1e308, 5e-324, inf, nan), "
        "unicode strings (empty, quotes, control characters, U+2028, astral), UUIDs, a registered third-party type "
        "(decimal.Decimal, fractions.Fraction, a three-level plain-class chain Money > TaxedMoney > Tip registered base "
        "first, a sub-class registered before its base, a registered sub-class of uuid.UUID, a registered iterable type (collections.deque), registered types and a serialisable class that derive from builtins (named tuple, IntEnum, str)) and an iterable SubclassJSONSerializer sub-class, a 4-level SubclassJSONSerializer hierarchy with nested serialisable fields, a serialisable class defined inside another class, a serialisable class whose class statement is executed again between two round trips, lists nested "
        "to depth 5 and empty lists; oracle: from_json(json.loads(json.dumps(to_json(v)))) equals v (NaN-aware) with "
        "type(x) is type(y) at every position and every serialised object dict carries its fully qualified tag.  "
        "Non-trivial = value contains an object or a nested list; distinct = type-structure signature of the value")
ASSUMPTIONS = ["tuples / sets / dicts are not generated as values (the statement covers lists)",
               "strings are surrogate-free"]
ANCHORS = ["to_json", "from_json", "SubclassJSONSerializer.from_json", "SubclassJSONSerializer.to_json",
           "serialize_uuid", "deserialize_uuid"]


def plan(tier):
    return {"cases": 20000 if tier == "quick" else 500000, "shards": 16, "case_timeout": 10, "shard_timeout": 3000,
            "min_nontrivial": 300,
            "min_counters": {"objects_roundtripped": 5000, "tags_checked": 5000, "leaf:float": 1000, "leaf:uuid": 300,
                             "leaf:decimal": 300, "lists": 3000, "leaf:taxedmoney": 100, "leaf:entityid": 100,
                             "leaf:early": 100, "leaf:tip": 100, "leaf:deque": 100, "leaf:point": 100, "leaf:level": 100,
                             "leaf:name": 100, "redefined_class_roundtrips": 500}}


def setup(ctx):
    from models import jsonmodel
    jsonmodel.register()
    ctx["jm"] = jsonmodel


STRINGS = ["", "a", "ü", "\"q\"", "back\\slash", "\n\t\x00\x1f", "  ", "日本語", "😀", "__json_type__", "null",
           "1e5", " ", "a.b.c"]
FLOATS = [0.0, -0.0, 1.5, -2.25, 1e308, -1e308, 5e-324, 1e-7, float("inf"), float("-inf"), float("nan"), 0.1, 1e16]
INTS = [0, 1, -1, 2 ** 31, -2 ** 31, 2 ** 63, 2 ** 64 + 1, -(2 ** 70), 10 ** 30, 255]


def gen_value(rng, depth):
    r = rng.random()
    if depth <= 0 or r < 0.45:
        k = rng.choice(["none", "bool", "int", "float", "str", "uuid", "decimal", "reg"])
        if k == "reg":
            cls = rng.choice(["Money", "TaxedMoney", "Tip", "Early", "EntityId", "Fraction", "Deque", "Point", "Level", "Name", "Proxy"])
            if cls == "Proxy":
                return ["reg", cls, [[rng.choice(STRINGS), rng.randint(-3, 3)] for _ in range(rng.randint(0, 3))]]
            if cls == "Point":
                return ["reg", cls, rng.randint(-3, 3), rng.randint(-3, 3)]
            if cls == "Level":
                return ["reg", cls, rng.choice([1, 2])]
            if cls == "Name":
                return ["reg", cls, rng.choice(STRINGS)]
            if cls == "Deque":
                return ["reg", cls, [gen_value(rng, 0) for _ in range(rng.randint(0, 3))]]
            if cls == "EntityId":
                return ["reg", cls, "%032x" % rng.getrandbits(128)]
            if cls == "Fraction":
                return ["reg", cls, rng.randint(-50, 50), rng.randint(1, 9)]
            return ["reg", cls, rng.choice(["0", "1.50", "-3", "1e9"]), rng.choice(["EUR", "USD", "¥"]),
                    rng.choice(["0", "0.19"]), rng.choice(["", "thanks"])]
        if k == "none":
            return ["none"]
        if k == "bool":
            return ["bool", rng.random() < 0.5]
        if k == "int":
            return ["int", rng.choice(INTS) if rng.random() < 0.6 else rng.randint(-10 ** 20, 10 ** 20)]
        if k == "float":
            return ["float", repr(rng.choice(FLOATS) if rng.random() < 0.7 else rng.uniform(-1e6, 1e6))]
        if k == "str":
            s = rng.choice(STRINGS) if rng.random() < 0.7 else "".join(
                chr(rng.choice([rng.randint(32, 126), rng.randint(0xA0, 0x7FF), rng.randint(0x4E00, 0x4E80), rng.randint(0x1F600, 0x1F640)]))
                for _ in range(rng.randint(0, 6)))
            return ["str", s]
        if k == "uuid":
            return ["uuid", "%032x" % rng.getrandbits(128)]
        return ["decimal", rng.choice(["0", "1.50", "-3.14159", "1E+30", "NaN", "Infinity", "0.000000001"])]
    if r < 0.7:
        return ["list", [gen_value(rng, depth - 1) for _ in range(rng.choice([0, 0, 1, 2, 3, 4]))]]
    # 4 = IterNode (a Node1 that is iterable), 5 = StaticNode (static _from_json), 6 = a class defined inside another class
    level = rng.randint(0, 6)
    node = ["node", level, rng.choice(STRINGS), gen_value(rng, depth - 1),
            [gen_value(rng, depth - 2) for _ in range(rng.choice([0, 0, 1, 2]))]]
    if level in (2, 3):
        node.append(rng.randint(-5, 5))
    if level == 3:
        node.append(gen_value(rng, depth - 1))
    return node


def in_context(v):
    """every object of the value becomes a ContextNode (level 7): created from json with a keyword argument only"""
    if v[0] == "list":
        return ["list", [in_context(x) for x in v[1]]]
    if v[0] == "node":
        return ["node", 7, v[2], in_context(v[3]), [in_context(x) for x in v[4]]]
    if v[0] == "reg" and v[1] == "Deque":
        return ["reg", "Deque", [in_context(x) for x in v[2]]]
    return v


def gen(rng, tier, ctx):
    value = gen_value(rng, rng.randint(0, 5))
    if rng.random() < 0.2:
        # from_json(data, unit=...): the keyword arguments reach every object, also through lists, and every registered
        # deserializer accepts them
        return {"value": in_context(value), "redefine": False, "kwargs": {"unit": rng.choice(["m", "ctx", ""])}}
    return {"value": value, "redefine": rng.random() < 0.05}


def witnesses():
    return {
        "registered-type-with-a-tag-that-cannot-be-imported": {"value": ["list", [["reg", "Proxy", [["a", 1]]]]], "redefine": False},
        "keyword-arguments-of-from-json-lost-in-lists": {
            "value": ["list", [["node", 7, "n", ["uuid", "0" * 32], [["node", 7, "m", ["none"], []]]]]], "redefine": False,
            "kwargs": {"unit": "m"}},
        "nested-class-tag-not-qualified": {"value": ["list", [["node", 6, "n", ["none"], []]]]},
    }


def materialise(v, jm, unit=None):
    if unit is not None:
        # the objects of a value that is read back in a context were created in that context
        out = materialise(v, jm)
        stack = [out]
        while stack:
            x = stack.pop()
            if isinstance(x, jm.ContextNode):
                x.unit = unit
                stack.extend([x.payload, *x.friends])
            elif isinstance(x, (list, __import__("collections").deque)):
                stack.extend(x)
        return out
    import decimal
    import uuid
    k = v[0]
    if k == "none":
        return None
    if k in ("bool", "int", "str"):
        return v[1]
    if k == "float":
        return float(v[1])
    if k == "uuid":
        return uuid.UUID(v[1])
    if k == "decimal":
        return decimal.Decimal(v[1])
    if k == "reg":
        import fractions
        if v[1] == "EntityId":
            return jm.EntityId(v[2])
        if v[1] == "Fraction":
            return fractions.Fraction(v[2], v[3])
        if v[1] == "Deque":
            import collections
            return collections.deque(materialise(x, jm) for x in v[2])
        if v[1] == "Proxy":
            import types
            return types.MappingProxyType(dict(map(tuple, v[2])))
        if v[1] == "Point":
            return jm.Point(v[2], v[3])
        if v[1] == "Level":
            return jm.Level(v[2])
        if v[1] == "Name":
            return jm.Name(v[2])
        n = {"Money": 2, "Early": 2, "TaxedMoney": 3, "Tip": 4}[v[1]]
        return getattr(jm, v[1])(*v[2:2 + n])
    if k == "list":
        return [materialise(x, jm) for x in v[1]]
    cls = [jm.Node0, jm.Node1, jm.Node2, jm.Node3, jm.IterNode, jm.StaticNode, jm.Outer.NestedNode, jm.ContextNode][v[1]]
    kw = {"name": v[2], "payload": materialise(v[3], jm), "friends": [materialise(x, jm) for x in v[4]]}
    if v[1] in (2, 3):
        kw["level"] = v[5]
    if v[1] == 3:
        kw["extra"] = materialise(v[6], jm)
    return cls(**kw)


def signature(v):
    k = v[0]
    if k == "list":
        return "[" + ",".join(sorted({signature(x) for x in v[1]})) + "]"
    if k == "node":
        return f"N{v[1]}(" + signature(v[3]) + ";" + ",".join(sorted({signature(x) for x in v[4]})) + ")"
    if k == "reg":
        return "reg:" + v[1]
    return k


def same(a, b, path, problems, C):
    import dataclasses
    import decimal
    if type(a) is not type(b):
        problems.append(f"{path}: type {type(a).__name__} -> {type(b).__name__}")
        return
    if isinstance(a, float):
        C["leaf:float"] += 1
        if math.isnan(a):
            if not math.isnan(b):
                problems.append(f"{path}: nan -> {b!r}")
        elif a != b or math.copysign(1, a) != math.copysign(1, b):
            problems.append(f"{path}: {a!r} -> {b!r}")
        return
    if isinstance(a, decimal.Decimal):
        C["leaf:decimal"] += 1
        if str(a) != str(b):
            problems.append(f"{path}: {a!r} -> {b!r}")
        return
    import collections
    if isinstance(a, collections.deque):
        C["leaf:deque"] += 1
        a, b = list(a), list(b)
    if isinstance(a, list):
        C["lists"] += 1
        if len(a) != len(b):
            problems.append(f"{path}: list length {len(a)} -> {len(b)}")
            return
        for i, (x, y) in enumerate(zip(a, b)):
            same(x, y, f"{path}[{i}]", problems, C)
        return
    if dataclasses.is_dataclass(a):
        C["objects_roundtripped"] += 1
        for f in dataclasses.fields(a):
            same(getattr(a, f.name), getattr(b, f.name), f"{path}.{f.name}", problems, C)
        return
    C["leaf:" + type(a).__name__.lower()] += 1
    if a != b:
        problems.append(f"{path}: {a!r} -> {b!r}")


def jm_Money():
    from models import jsonmodel
    return jsonmodel.Money


def jm_builtin_derived():
    from models import jsonmodel
    return (jsonmodel.Point, jsonmodel.Level, jsonmodel.Name)


def check_tags(value, ser, path, problems, C):
    import collections
    import dataclasses
    import decimal
    import fractions
    import uuid
    if isinstance(value, list):
        if not isinstance(ser, list) or len(ser) != len(value):
            problems.append(f"{path}: list serialised as {type(ser).__name__}")
            return
        for i, (v, s) in enumerate(zip(value, ser)):
            check_tags(v, s, f"{path}[{i}]", problems, C)
    elif dataclasses.is_dataclass(value) or isinstance(value, (uuid.UUID, decimal.Decimal, fractions.Fraction, jm_Money(), collections.deque, __import__("types").MappingProxyType) + jm_builtin_derived()):
        C["tags_checked"] += 1
        want = type(value).__module__ + "." + type(value).__qualname__
        if not isinstance(ser, dict) or ser.get("__json_type__") != want:
            problems.append(f"{path}: tag {ser.get('__json_type__') if isinstance(ser, dict) else ser!r} != {want}")
            return
        if isinstance(value, collections.deque):
            check_tags(list(value), ser.get("items"), f"{path}.items", problems, C)
        if dataclasses.is_dataclass(value):
            for f in dataclasses.fields(value):
                if f.name in ser and f.name in ("payload", "friends", "extra"):
                    check_tags(getattr(value, f.name), ser[f.name], f"{path}.{f.name}", problems, C)


RELOADED_SOURCE = """
@dataclass
class Reloaded(Node1):
    pass
"""


def redefined_class(jm, payload, C):
    """The class statement of a serialisable class is executed again (module reload, notebook cell run twice) after
    objects of the first definition went through from_json: objects of the class the name refers to now come back as
    instances of exactly that class."""
    from krrood.adapters.json_serializer import from_json, to_json
    problems = []
    for generation in range(2):
        exec(RELOADED_SOURCE, jm.__dict__)
        cls = jm.Reloaded
        value = [cls(name=f"g{generation}", payload=payload), payload]
        back = from_json(json.loads(json.dumps(to_json(value))))
        C["redefined_class_roundtrips"] += 1
        if type(back[0]) is not cls:
            problems.append(f"$[0]: an instance of the {'re-' if generation else ''}defined class {cls.__module__}.{cls.__qualname__} "
                            f"came back as an instance of another class object of that name (generation {generation})")
        else:
            same(value, back, "$", problems, C)
    return problems


def run(spec, ctx):
    from krrood.adapters.json_serializer import from_json, to_json
    jm = ctx["jm"]
    C = ctx["counters"]
    kwargs = spec.get("kwargs") or {}
    v = materialise(spec["value"], jm, unit=kwargs.get("unit"))
    problems = []
    try:
        ser = to_json(v)
        check_tags(v, ser, "$", problems, C)
        text = json.dumps(ser)
        back = from_json(json.loads(text), **kwargs)
        C["read_back_with_keyword_arguments"] += bool(kwargs)
    except Exception as e:
        return {"status": "fail", "kind": "exception:" + type(e).__name__, "key": None, "detail": f"{type(e).__name__}: {e}"[:300]}
    same(v, back, "$", problems, C)
    if spec.get("redefine") and not problems:
        problems.extend(redefined_class(jm, v, C))
    if problems:
        return {"status": "fail", "kind": "roundtrip", "key": None, "detail": "; ".join(problems[:5])}
    sig = signature(spec["value"])
    return {"status": "ok", "nontrivial": ("N" in sig or "[" in sig), "shape": sig, "obs": {"json_len": len(text)}}
