"""C04 - object -> DAO -> object round trip preserves structure, types and aliasing.

Each case is a freshly generated mapped model (its interface is generated from the current tree in
a subprocess) plus many random object graphs; from_dao(to_dao(g)) must be isomorphic to g under a
bisimulation that builds a bijection between object identities (same concrete class, type-exact
NaN-aware scalars, collections element-wise in order, aliasing preserved, distinct stays distinct).
The harness-owned model models/ormmodel.py adds alternative mappings, a custom TypeDecorator and
alternatively mapped parents / collection elements.
"""
from __future__ import annotations

import json
import os
import shutil
import tempfile

from vlib import modelgen
from checks import c06

ID = "C04"
LEVEL = "exploration"
RULE = ("random mapped models (C06's generator, every root class carries a uid) x random object graphs of 1-25 objects: "
        "references drawn from a small pool (sharing), back references, cycles and self loops, None for optional "
        "fields, empty collections, subclass instances in base-typed fields, the same object twice in a list, Type[...] "
        "values, extreme scalars (nan, inf, -0.0, 2**31-1, unicode); each graph is converted once alone and once as two "
        "roots sharing one ToDAOState / FromDAOState; every third graph also starts a stream of five graphs that are dropped right "
        "after their conversion with one shared ToDAOState (each DAO must still restore its own graph); plus the hand-written model with alternative mappings (one of them "
        "inherited by a child and a grandchild, storing fields under other names, under the same name in another encoding and a "
        "collection in another order), a frozen dataclass with references, sets of builtins and a "
        "custom column type.  Non-trivial = the graph has an aliased node; distinct = (objects, shared nodes, classes) "
        "signature of the graph")
ASSUMPTIONS = ["underscore fields and fields an alternative mapping drops are excluded from the comparison",
               "values are generated type-correct (no int in a float field)"]
ANCHORS = ["DataAccessObject.to_dao", "DataAccessObject.from_dao", "FromDAOState.apply_circular_fixes",
           "DataAccessObject._extract_collection_relationship", "DataAccessObject._extract_single_relationship",
           "AlternativeMapping.to_dao", "DataAccessObject.to_dao_if_subclass_of_alternative_mapping"]
MODE = "c04"
GRAPHS = {"quick": 150, "thorough": 1200}


def plan(tier):
    return {"cases": 36 if tier == "quick" else 160, "shards": 16, "case_timeout": 900, "shard_timeout": 6000,
            "dev_shard": False, "min_nontrivial": 20,
            "min_counters": {"graphs": 3000, "objects": 8000, "shared_nodes": 2000, "c04_objects_compared": 8000,
                             "c04_shared_state_pairs": 1500, "c04_stream_graphs": 2000, "handwritten_model_graphs": 100}}


def setup(ctx):
    ctx["workroot"] = tempfile.mkdtemp(prefix="verif-c04-")


def finish(ctx):
    shutil.rmtree(ctx["workroot"], ignore_errors=True)
    return []


def gen(rng, tier, ctx):
    if rng.random() < 0.2:
        return {"handwritten": True, "seed": rng.randrange(10 ** 9), "n": GRAPHS[tier] // 2}
    modname = f"rm_{rng.randrange(10 ** 9)}"
    src, spec = modelgen.gen_model(rng, modname, "rt")
    return {"spec": spec, "seed": rng.randrange(10 ** 9), "n": GRAPHS[tier]}


def run(case, ctx, mode=None):
    mode = mode or MODE
    C = ctx["counters"]
    workdir = tempfile.mkdtemp(prefix="m-", dir=ctx["workroot"])
    try:
        if case.get("handwritten"):
            from models import ormmodel_spec
            spec = ormmodel_spec.SPEC
            modname = "models.ormmodel"
            order = [c["name"] for c in spec["classes"]]
        else:
            spec = case["spec"]
            modname = spec["module"]
            order = spec["order"]
            with open(os.path.join(workdir, modname + ".py"), "w") as fh:
                fh.write(modelgen.render(spec))
        opts = os.path.join(workdir, "opts.json")
        out = c06.run_driver(workdir, modname, order, 0, mode="rt",
                             extra=(case["seed"], case["n"], json.dumps({"spec": spec, "mode": mode, "handwritten": bool(case.get("handwritten"))})))
        if out.get("stage") != "done":
            kinds = {f["kind"] for c in spec["classes"] for f in c["fields"]}
            return {"status": "fail", "kind": "pipeline:" + str(out.get("stage")), "key": None,
                    "detail": f"stage={out.get('stage')} {out.get('error')} {out.get('trace', '')[-400:]}"[:900]}
        rt = out["rt"]
        for k, v in rt["counters"].items():
            C[k] += v
        if case.get("handwritten"):
            C["handwritten_model_graphs"] += rt["cases"]
        fails = [f for f in rt["failures"] if f["check"] == mode.upper()]
        if fails:
            f0 = fails[0]
            key = classify(mode, f0, fails)
            return {"status": "fail", "kind": mode + "-roundtrip", "key": key, "evaluations": rt["cases"],
                    "detail": f"{len(fails)}/{rt['cases']} graphs differ; graph #{f0['i']} ({f0['shape']}): " + "; ".join(f0["problems"])[:700],
                    "obs": {"model": [(c["name"], c["parent"], [(f["name"], f["kind"], f["target"]) for f in c["fields"]]) for c in spec["classes"]]}}
        return {"status": "ok", "evaluations": rt["cases"], "shapes": rt["shapes"], "nontrivial": False,
                "obs": {"graphs": rt["cases"], "counters": rt["counters"]}}
    finally:
        shutil.rmtree(workdir, ignore_errors=True)


def classify(mode, f0, fails):
    if mode == "c05" and all(f.get("only_hierarchy_reference_lost") for f in fails):
        return "hierarchy-reference-mapped-one-to-many"
    if all(f.get("only_alt_mapped_cycle") for f in fails):
        return "alt-mapped-object-in-cycle-left-as-mapping"
    if all(f.get("only_deep_chain_recursion") for f in fails):
        return "deep-reference-chain-recursion-limit"
    return None


def witnesses():
    from checks import c05
    return {"alt-mapped-object-in-cycle-left-as-mapping": {"handwritten": True, "seed": 1, "n": 120},
            "init-false-fields-not-restored": {"seed": 3, "n": 30, "spec": c05.NO_INIT_SPEC},
            "deep-reference-chain-recursion-limit": {"seed": 5, "n": 3, "spec": c05.CHAIN_SPEC}}
