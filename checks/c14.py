"""C14 - asserting a relation has the same effect whatever objects lived and died before.

Differential history monitor.  The same assertion sequence over freshly created instances is run
(A) on a freshly cleared symbol graph and (B) after a garbage-producing prefix (instances created,
related, dropped, collected and swept so that graph node indices and object ids are recycled).
The resulting relation sets and field values (by object name) must be equal.  Additionally the
relation index is audited after every sweep: every indexed (field, source, target) must be an
existing edge between live nodes.
"""
from __future__ import annotations

import gc

ID = "C14"
LEVEL = "exploration"
RULE = ("random prefixes (1-3 rounds of creating 1-20 instances of the ontology classes, relating them through every "
        "write form, dropping all of them, gc, and a sweep either at once, only after the new instances exist, between "
        "the assertions, by a query, or never) followed by 1-10 assertions (single-valued assignment, container "
        "assignment, append / add) on freshly created instances created in a random order; each case runs the suffix "
        "with and without the prefix.  Non-trivial = the prefix related and reclaimed at least one pair and the suffix "
        "asserts at least one relation; the compared state is graph relations + field values + what domain-less queries "
        "report for each live instance; distinct = (prefix round sizes, creation order of the suffix objects, suffix "
        "operation kinds)")
ASSUMPTIONS = ["run A (no prefix) on a cleared graph in the same process stands for 'a fresh graph'",
               "the relation-index audit reads SymbolGraph internals; when they are absent it is skipped and counted"]
ANCHORS = ["SymbolGraph.add_relation", "SymbolGraph.relation_exists", "SymbolGraph.remove_node",
           "PropertyDescriptorRelation.add_to_graph", "SymbolGraph.remove_dead_instances"]


def plan(tier):
    return {"cases": 1500 if tier == "quick" else 30000, "shards": 16, "case_timeout": 60, "shard_timeout": 3000,
            "min_nontrivial": 100,
            "min_counters": {"suffix_assertions": 3000, "prefix_instances_reclaimed": 5000,
                             "relations_compared": 5000, "suffix:stamp_append": 100 if tier == "quick" else 2000,
                             "dead_copies_of_live_instances": 150 if tier == "quick" else 3000,
                             "idreuse_named_instances_on_a_dead_id": 40 if tier == "quick" else 800}}


def setup(ctx):
    from models import ontomodel
    ctx["om"] = ontomodel


KINDS = ["works_for", "head_of", "member_of_append", "members_add", "sub_org_append", "part_of_append",
         "has_part_append", "member_of_assign", "members_assign", "stamp_append"]


def gen_survivor(rng):
    """a live source keeps relating to targets that die (only the target dies), then relates to a new instance
    that gets the dead target's node index"""
    survivors = [["org", rng.choice(["Org", "Dept"]), f"s{i}"] for i in range(rng.randint(1, 2))]
    if rng.random() < 0.6:
        survivors.append(["person", rng.choice(["Person", "Employee"]), "sp0"])
    gk = ["sub_org_of", "part_of", "works_for", "member_of", "head_of", "head_of", "person_works_for", "members_add",
          "dead_sub_org_source", "dead_sub_org_source"]
    rounds = [[rng.choice(gk) for _ in range(rng.randint(1, 4))] for _ in range(rng.randint(1, 3))]
    fk = ["sub_org_of", "part_of", "works_for", "member_of", "new_works_for", "new_head_of", "new_members_add", "new_member_of"]
    final = [[rng.choice(fk), rng.randrange(10), rng.randrange(10)] for _ in range(rng.randint(1, 5))]
    return {"mode": "survivor", "survivors": survivors, "rounds": rounds, "final": final, "new_orgs": rng.randint(1, 3),
            "sweep": rng.choice(["sweep", "sweep", "nosweep", "nogc"])}


def gen_idreuse(rng):
    """new instances that are given the ids of dead, unswept ones; the sweep comes when they exist already"""
    k = rng.randint(2, 4)
    return {"mode": "idreuse", "garbage": rng.randint(10, 60), "k": k,
            "suffix": [[rng.choice(["part_of", "part_of", "sub_org_of", "members_none"]), rng.randrange(k), rng.randrange(k)] for _ in range(rng.randint(1, 5))],
            "sweep": rng.choice(["late", "late", "query", "mid"])}


def gen(rng, tier, ctx):
    if rng.random() < 0.2:
        return gen_idreuse(rng)
    if rng.random() < 0.3:
        return gen_survivor(rng)
    rounds = [rng.randint(1, 20) for _ in range(rng.randint(1, 3))]
    prefix = []
    for n in rounds:
        objs = [rng.choice(["Person", "Employee", "Manager", "Org", "Dept", "Chief", "Folder", "Stamp"]) for _ in range(n)]
        rels = [[rng.choice(KINDS), rng.randrange(100), rng.randrange(100)] for _ in range(rng.randint(0, n))]
        prefix.append({"create": objs, "relate": rels})
    names = []
    for i in range(rng.randint(1, 3)):
        names.append(["person", rng.choice(["Person", "Employee", "Manager"]), f"p{i}"])
    for i in range(rng.randint(1, 3)):
        names.append(["org", rng.choice(["Org", "Dept"]), f"o{i}"])
    for i in range(rng.randint(0, 2)):
        names.append(["chief", "Chief", f"c{i}"])
    if rng.random() < 0.4:
        # instances of a predicate: the graph wraps them only when a relation needs them
        names.append(["folder", "Folder", "f0"])
        for i in range(rng.randint(1, 3)):
            names.append(["stamp", "Stamp", f"t{i}"])
    rng.shuffle(names)
    # a chief needs its person first
    suffix = [[rng.choice(KINDS), rng.randrange(100), rng.randrange(100), rng.randrange(100)] for _ in range(rng.randint(1, 10))]
    if rng.random() < 0.5:
        # mirror: rustworkx hands freed node indices back last-in-first-out, so creating the same classes in reverse
        # order and asserting the same relations puts new instances on the node indices of dead related pairs
        last = prefix[-1]
        names, cnt = [], {"person": 0, "org": 0, "chief": 0, "folder": 0, "stamp": 0}
        for cn in reversed(last["create"]):
            kind = {"Chief": "chief", "Org": "org", "Dept": "org", "Folder": "folder", "Stamp": "stamp"}.get(cn, "person")
            names.append([kind, cn, f"{'t' if kind == 'stamp' else kind[0]}{cnt[kind]}"])
            cnt[kind] += 1
        if not any(n[0] == "person" for n in names):
            names.append(["person", "Person", "p0"])
        if not any(n[0] == "org" for n in names):
            names.append(["org", "Org", "o0"])
        suffix = [[k, i, j, i + j] for k, i, j in last["relate"]][:12] or suffix
    dead_copies = []
    if rng.random() < 0.35:
        # part of the history: shallow copies of the instances that are related later lived, were read and died
        dead_copies = [[rng.choice(["org", "person"]), rng.randrange(10), rng.random() < 0.8] for _ in range(rng.randint(1, 3))]
        # and the first assertions are made on those instances
        suffix = [["members_assign" if kind == "org" else "member_of_assign", i, rng.randrange(100), rng.randrange(100)]
                  for kind, i, _ in dead_copies if rng.random() < 0.8] + suffix
    return {"prefix": prefix, "objects": names, "suffix": suffix, "dead_copies": dead_copies, "sweep": rng.choice(["sweep", "sweep", "sweep", "nosweep", "late", "late", "mid", "query"])}


def witnesses():
    return {"dead-node-leaves-index-entries": {
        "prefix": [{"create": ["Org", "Person"], "relate": [["works_for", 0, 0]]}],
        "objects": [["person", "Person", "p0"], ["org", "Org", "o0"]],
        "suffix": [["works_for", 0, 0, 0]], "sweep": "sweep"},
        "unregistered-instance-gets-the-node-of-a-dead-one": {
            "prefix": [{"create": ["Org", "Org", "Org"], "relate": []}],
            "objects": [["folder", "Folder", "f0"], ["stamp", "Stamp", "t0"], ["stamp", "Stamp", "t1"], ["stamp", "Stamp", "t2"]],
            "suffix": [["stamp_append", 0, 0, 0], ["stamp_append", 0, 1, 0], ["stamp_append", 0, 2, 0]], "dead_copies": [], "sweep": "nosweep"},
        "assignment-after-a-dead-shallow-copy": {
            "prefix": [{"create": ["Org", "Person"], "relate": [["works_for", 0, 0]]}],
            "objects": [["person", "Person", "p0"], ["org", "Org", "o0"]],
            "suffix": [["members_assign", 0, 0, 0]], "dead_copies": [["org", 0, True]], "sweep": "sweep"}}


def _raw_len(obj, field_name):
    """the length of a managed field without a read access through the descriptor (which is an operation of its own:
    it binds the container to the instance it is read from)"""
    return len(vars(obj).get(getattr(type(obj), field_name).private_attr_name) or ())


def apply_op(om, kind, persons, orgs, chiefs, i, j, k, used_single, folders=(), stamps=()):
    """returns True if an assertion was made"""
    if kind == "stamp_append":
        if not (folders and stamps):
            return False
        folders[i % len(folders)].stamps.append(stamps[j % len(stamps)])
        return True
    if kind == "works_for" and persons and orgs:
        p = persons[i % len(persons)]
        if id(p) in used_single:
            return False
        used_single.add(id(p))
        p.works_for = orgs[j % len(orgs)]
    elif kind == "head_of" and chiefs and orgs:
        c = chiefs[i % len(chiefs)]
        if id(c) in used_single:
            return False
        used_single.add(id(c))
        c.head_of = orgs[j % len(orgs)]
    elif kind == "member_of_append" and persons and orgs:
        persons[i % len(persons)].member_of.append(orgs[j % len(orgs)])
    elif kind == "members_add" and persons and orgs:
        orgs[i % len(orgs)].members.add((persons + chiefs)[j % len(persons + chiefs)])
    elif kind == "sub_org_append" and orgs:
        orgs[i % len(orgs)].sub_org_of.append(orgs[j % len(orgs)])
    elif kind == "part_of_append" and orgs:
        orgs[i % len(orgs)].part_of.append(orgs[j % len(orgs)])
    elif kind == "has_part_append" and orgs:
        orgs[i % len(orgs)].has_part.append(orgs[j % len(orgs)])
    elif kind == "member_of_assign" and persons and orgs:
        p = persons[i % len(persons)]
        if _raw_len(p, "member_of") or ("mo", id(p)) in used_single:
            return False
        used_single.add(("mo", id(p)))
        p.member_of = [orgs[j % len(orgs)], orgs[k % len(orgs)]] if j % len(orgs) != k % len(orgs) else [orgs[j % len(orgs)]]
    elif kind == "members_assign" and persons and orgs:
        o = orgs[i % len(orgs)]
        if _raw_len(o, "members") or ("ms", id(o)) in used_single:
            return False
        used_single.add(("ms", id(o)))
        o.members = {persons[j % len(persons)], persons[k % len(persons)]}
    else:
        return False
    return True


def observe(om, named, sg):
    name_of = {id(o): n for n, o in named.items()}
    rel = set()
    for r in sg.relations():
        s, t = r.source.instance, r.target.instance
        if s is None or t is None:
            continue        # an edge of garbage that has not been swept yet: not attached to any live instance
        rel.add((name_of.get(id(s), "<foreign>"), r.wrapped_field.public_name, name_of.get(id(t), "<foreign>")))
    fields = set()
    for n, o in named.items():
        if isinstance(o, om.Org):
            for f in ("members", "sub_org_of", "part_of", "has_part", "wholly_owned_by"):
                for x in getattr(o, f):
                    x = x() if callable(x) and not isinstance(x, om.Symbol) else x
                    fields.add((n, f, name_of.get(id(x), "<foreign>")))
        elif isinstance(o, om.Person):
            if o.works_for is not None:
                fields.add((n, "works_for", name_of.get(id(o.works_for), "<foreign>")))
            for x in o.member_of:
                x = x() if callable(x) and not isinstance(x, om.Symbol) else x
                fields.add((n, "member_of", name_of.get(id(x), "<foreign>")))
        elif isinstance(o, om.Chief):
            if o.head_of is not None:
                fields.add((n, "head_of", name_of.get(id(o.head_of), "<foreign>")))
        elif isinstance(o, om.Folder):
            for x in o.stamps:
                fields.add((n, "stamps", name_of.get(id(x), "<foreign>")))
    return rel, fields


def census(om, named, C):
    """what a domain-less query sees of the named (live) instances: (class, name, how often)"""
    from krrood.entity_query_language.entity import entity, let
    from krrood.entity_query_language.quantify_entity import an
    from vlib import holders
    name_of = {id(o): n for n, o in named.items()}
    out = set()
    for T in (om.Org, om.Person, om.Chief):
        seen = {}
        for n in [name_of.get(id(r)) for r in an(entity(let(T, None))).evaluate()]:
            if n is not None:
                seen[n] = seen.get(n, 0) + 1
        for n, k in seen.items():
            out.add((T.__name__, n, k))
        C["census_queries"] += 1
    holders.clear_known_holders()      # evaluated queries keep what they ranged over alive
    return out


def audit_index(sg, C, problems, label):
    try:
        _audit_index(sg, C, problems, label)
    except Exception as e:      # the index is organised differently: nothing to observe
        C["index_audit_skipped_internals_differ:" + type(e).__name__] += 1


def _audit_index(sg, C, problems, label):
    try:
        idx = sg._relation_index
        g = sg._instance_graph
    except AttributeError:
        C["index_audit_skipped_no_internals"] += 1
        return
    C["index_audits"] += 1
    stale = 0
    for wf, pairs in idx.items():
        for (s, t) in pairs:
            ok = g.has_node(s) and g.has_node(t) and g[s].instance is not None and g[t].instance is not None and g.has_edge(s, t)
            if not ok:
                stale += 1
    if stale:
        # an observation, not a verdict: an implementation may legitimately keep stale entries and validate them on
        # lookup; what the property forbids is their *effect*, which the differential below decides
        C["stale_relation_index_entries_seen"] += stale


def _prefix_round(om, rnd, C):
    objs = []
    for cn in rnd["create"]:
        if cn == "Chief":
            ps = [o for o in objs if isinstance(o, om.Person)]
            if not ps:
                continue
            objs.append(om.Chief(ps[-1]))
        else:
            objs.append(om.ALL_CLASSES[cn](f"g{len(objs)}"))
    persons = [o for o in objs if isinstance(o, om.Person)]
    orgs = [o for o in objs if isinstance(o, om.Org)]
    chiefs = [o for o in objs if isinstance(o, om.Chief)]
    folders = [o for o in objs if isinstance(o, om.Folder)]
    stamps = [o for o in objs if isinstance(o, om.Stamp)]
    used = set()
    related = 0
    for kind, i, j in rnd["relate"]:
        try:
            if apply_op(om, kind, persons, orgs, chiefs, i, j, i + j, used, folders, stamps):
                related += 1
        except Exception as e:
            C["prefix_op_raised:" + type(e).__name__] += 1
    return len(objs), related


def _copy_read_drop(om, obj, read, C):
    """a shallow copy is an instance of its own (it shares the containers of the managed fields until they are assigned);
    it dies with this call"""
    import copy
    clone = copy.copy(obj)
    if read:
        for f in (("members", "sub_org_of", "part_of") if isinstance(obj, om.Org) else ("member_of",)):
            len(getattr(clone, f))
    C["dead_copies_of_live_instances"] += 1


def run_suffix(spec, om, with_prefix, C, problems):
    from krrood.entity_query_language.symbol_graph import SymbolGraph
    SymbolGraph().clear()
    sg = SymbolGraph()
    reclaimed = 0
    related = 0
    if with_prefix:
        for rnd in spec["prefix"]:
            n_objs, n_rel = _prefix_round(om, rnd, C)      # all locals of the round die with the call
            reclaimed += n_objs
            related += n_rel
            gc.collect()
            if spec["sweep"] == "sweep":
                SymbolGraph().remove_dead_instances()
                audit_index(SymbolGraph(), C, problems, "after sweeping the prefix garbage")
        C["prefix_instances_reclaimed"] += reclaimed
        C["prefix_relations"] += related
    named = {}
    pending_chiefs = []
    for kind, cls, name in spec["objects"]:
        if kind == "chief":
            ps = [o for o in named.values() if isinstance(o, om.Person)]
            if not ps:
                pending_chiefs.append(name)
                continue
            named[name] = om.Chief(ps[len(named) % len(ps)])
        else:
            named[name] = om.ALL_CLASSES[cls](name)
    for name in pending_chiefs:
        ps = [o for o in named.values() if isinstance(o, om.Person)]
        named[name] = om.Chief(ps[0])
    persons = [o for n, o in sorted(named.items()) if isinstance(o, om.Person)]
    orgs = [o for n, o in sorted(named.items()) if isinstance(o, om.Org)]
    chiefs = [o for n, o in sorted(named.items()) if isinstance(o, om.Chief)]
    folders = [o for n, o in sorted(named.items()) if isinstance(o, om.Folder)]
    stamps = [o for n, o in sorted(named.items()) if isinstance(o, om.Stamp)]
    used = set()
    n_assert = 0
    errors = []
    if with_prefix:
        for kind, i, read in spec.get("dead_copies", ()):
            pool = orgs if kind == "org" else persons
            if pool:
                _copy_read_drop(om, pool[i % len(pool)], read, C)
        if spec.get("dead_copies"):
            gc.collect()
            if spec["sweep"] == "sweep":
                SymbolGraph().remove_dead_instances()
    # the garbage of the prefix may also be swept only now: the new instances already exist and may have been given
    # the ids / node indices of dead ones ("late": before the assertions, "mid": between them, "query": by a query)
    if spec["sweep"] == "late":
        SymbolGraph().remove_dead_instances()
        C["late_sweeps"] += 1
    elif spec["sweep"] == "query":
        census(om, named, C)
        C["late_sweeps"] += 1
    for n, (kind, i, j, k) in enumerate(spec["suffix"]):
        if spec["sweep"] == "mid" and n == (len(spec["suffix"]) + 1) // 2:
            SymbolGraph().remove_dead_instances()
            C["mid_sweeps"] += 1
        try:
            if apply_op(om, kind, persons, orgs, chiefs, i, j, k, used, folders, stamps):
                n_assert += 1
                C["suffix:" + kind] += 1
        except Exception as e:
            errors.append(f"{kind}: {type(e).__name__}: {e}"[:160])
    rel, fields = observe(om, named, SymbolGraph())
    fields |= {("census",) + t for t in census(om, named, C)}
    if with_prefix and spec["sweep"] == "sweep":
        audit_index(SymbolGraph(), C, problems, "after the suffix")
    return rel, fields, errors, n_assert, (reclaimed, related)


def _garbage_round(om, named, kinds, C):
    """every local (the garbage targets) dies with the call"""
    orgs = [o for n, o in sorted(named.items()) if isinstance(o, om.Org)]
    persons = [o for n, o in sorted(named.items()) if isinstance(o, om.Person)]
    for i, kind in enumerate(kinds):
        g = om.Org(f"g{i}")
        if kind in ("sub_org_of", "part_of") and orgs:
            s_ = orgs[i % len(orgs)]
            getattr(s_, kind).append(g)
            setattr(s_, kind, [])              # only the target is released
            C["survivor_relations_to_garbage"] += 1
        elif kind == "works_for" and persons:
            persons[0].works_for = g
            persons[0].works_for = None
            C["survivor_relations_to_garbage"] += 1
        elif kind == "member_of" and persons:
            persons[0].member_of.append(g)
            persons[0].member_of = []
            C["survivor_relations_to_garbage"] += 1
        elif kind == "dead_sub_org_source" and orgs:
            # the garbage is the SOURCE of a transitive relation to a survivor (nothing refers back to it: it dies when
            # this function returns, its node and edge stay until the next sweep)
            g.sub_org_of.append(orgs[i % len(orgs)])
            C["survivor_relations_to_garbage"] += 1
            C["dead_sources_of_transitive_edges"] += 1
        elif kind in ("head_of", "person_works_for", "members_add") and orgs:
            # the garbage is the SOURCE (a role / a person) related to a surviving organisation; the inverse relation
            # holds it strongly in org.members until it is taken out again
            s_ = orgs[i % len(orgs)]
            gp = om.Person(f"gp{i}")
            if kind == "head_of":
                gc_ = om.Chief(gp)
                gc_.head_of = s_
            elif kind == "person_works_for":
                gp.works_for = s_
            else:
                s_.members.add(gp)
            s_.members = set()
            C["survivor_relations_to_garbage"] += 1
            C["garbage_sources_of_survivors"] += 1


def run_survivor(spec, om, with_history, C, problems):
    from krrood.entity_query_language.symbol_graph import SymbolGraph
    SymbolGraph().clear()
    SymbolGraph()
    named = {}
    history_errors = []
    for kind, cls, name in spec["survivors"]:
        named[name] = om.ALL_CLASSES[cls](name)
    if with_history:
        for kinds in spec["rounds"]:
            try:
                _garbage_round(om, named, kinds, C)
            except Exception as e:          # a legal assertion on live instances raised because of what died before
                history_errors.append(f"assertion during the history: {type(e).__name__}: {e}"[:160])
            if spec.get("sweep", "sweep") != "nogc":
                gc.collect()
            if spec.get("sweep", "sweep") == "sweep":
                SymbolGraph().remove_dead_instances()
                audit_index(SymbolGraph(), C, problems, "after sweeping dead targets")
            else:
                C["survivor_rounds_without_sweep"] += 1
    for i in range(spec["new_orgs"]):
        named[f"n{i}"] = om.Org(f"n{i}")
    orgs = [o for n, o in sorted(named.items()) if isinstance(o, om.Org) and n.startswith("s")]
    news = [o for n, o in sorted(named.items()) if n.startswith("n")]
    persons = [o for n, o in sorted(named.items()) if isinstance(o, om.Person)]
    errors, n_assert = list(history_errors), 0
    for kind, i, j in spec["final"]:
        try:
            if kind in ("sub_org_of", "part_of") and orgs:
                getattr(orgs[i % len(orgs)], kind).append(news[j % len(news)])
                n_assert += 1
            elif kind == "works_for" and persons:
                persons[0].works_for = news[j % len(news)]
                n_assert += 1
            elif kind == "member_of" and persons:
                persons[0].member_of.append(news[j % len(news)])
                n_assert += 1
            elif kind in ("new_works_for", "new_head_of", "new_members_add", "new_member_of") and orgs:
                # a new person / role (which may sit on a freed node index) is related to a surviving organisation
                np_ = named.setdefault(f"np{j % 3}", None) or om.Person(f"np{j % 3}")
                named[f"np{j % 3}"] = np_
                s_ = orgs[i % len(orgs)]
                if kind == "new_works_for":
                    if np_.works_for is None:
                        np_.works_for = s_
                        n_assert += 1
                elif kind == "new_head_of":
                    key_ = f"nc{j % 3}"
                    if key_ not in named:
                        named[key_] = om.Chief(np_)
                        named[key_].head_of = s_
                        n_assert += 1
                elif kind == "new_members_add":
                    s_.members.add(np_)
                    n_assert += 1
                else:
                    np_.member_of.append(s_)
                    n_assert += 1
        except Exception as e:
            errors.append(f"{kind}: {type(e).__name__}: {e}"[:160])
    rel, fields = observe(om, named, SymbolGraph())
    return rel, fields, errors, n_assert


def _idreuse_garbage(om, n):
    """n related organisations that die with this call; their ids"""
    orgs = [om.Org(f"g{i}") for i in range(n)]
    for a, b in zip(orgs, orgs[1:]):
        a.part_of.append(b)
    return {id(o) for o in orgs}


def run_idreuse(spec, om, with_history, C):
    from krrood.entity_query_language.symbol_graph import SymbolGraph
    SymbolGraph().clear()
    SymbolGraph()
    dead_ids = set()
    if with_history:
        dead_ids = _idreuse_garbage(om, spec["garbage"])
        gc.collect()                       # dead, but not swept: their nodes and index entries are still there
    candidates = [om.Org(f"c{i}") for i in range(spec["k"] if not with_history else spec["k"] + 40)]
    # the named instances: first the ones that were given the id of a dead instance
    candidates.sort(key=lambda o: id(o) not in dead_ids)
    chosen = candidates[:spec["k"]]
    C["idreuse_named_instances_on_a_dead_id"] += sum(id(o) in dead_ids for o in chosen)
    named = {}
    for i, o in enumerate(chosen):
        o.name = f"o{i}"
        named[f"o{i}"] = o
    del candidates, chosen, o
    gc.collect()
    orgs = [named[f"o{i}"] for i in range(spec["k"])]
    errors, n_assert = [], 0
    if with_history and spec["sweep"] == "late":
        SymbolGraph().remove_dead_instances()
    elif with_history and spec["sweep"] == "query":
        census(om, named, C)
    for n, (kind, i, j) in enumerate(spec["suffix"]):
        if with_history and spec["sweep"] == "mid" and n == (len(spec["suffix"]) + 1) // 2:
            SymbolGraph().remove_dead_instances()
        try:
            if kind == "members_none":
                len(orgs[i].members)
            else:
                getattr(orgs[i], kind).append(orgs[j])
                n_assert += 1
        except Exception as e:
            errors.append(f"{kind}: {type(e).__name__}: {e}"[:160])
    rel, fields = observe(om, named, SymbolGraph())
    fields |= {("census",) + t for t in census(om, named, C)}
    return rel, fields, errors, n_assert


def run(spec, ctx):
    om = ctx["om"]
    C = ctx["counters"]
    problems = []
    if spec.get("mode") == "idreuse":
        relA, fieldsA, errA, nA = run_idreuse(spec, om, False, C)
        relB, fieldsB, errB, nB = run_idreuse(spec, om, True, C)
        C["suffix_assertions"] += nA
        C["relations_compared"] += len(relA)
        C["idreuse_cases"] += 1
        relB = {t for t in relB if "<foreign>" not in t}
        fieldsB = {t for t in fieldsB if "<foreign>" not in t}
        if errA != errB:
            problems.append(f"assertions raise differently: fresh {errA[:2]} vs after-history {errB[:2]}")
        if relA != relB:
            problems.append(f"graph relations differ: only on fresh graph {sorted(relA - relB)[:4]}, only after history {sorted(relB - relA)[:4]}")
        if fieldsA != fieldsB:
            problems.append(f"field values differ: only on fresh graph {sorted(fieldsA - fieldsB)[:4]}, only after history {sorted(fieldsB - fieldsA)[:4]}")
        if problems:
            return {"status": "fail", "kind": "history-dependent", "key": "dead-node-leaves-index-entries", "detail": "; ".join(problems[:3])}
        return {"status": "ok", "nontrivial": nA > 0, "shape": f"idreuse|{spec['garbage']}|{spec['k']}|{[x[0] for x in spec['suffix']]}|{spec['sweep']}",
                "obs": {"relations": len(relA)}}
    if spec.get("mode") == "survivor":
        relA, fieldsA, errA, nA = run_survivor(spec, om, False, C, problems)
        relB, fieldsB, errB, nB = run_survivor(spec, om, True, C, problems)
        C["suffix_assertions"] += nA
        C["relations_compared"] += len(relA)
        C["survivor_cases"] += 1
        # relations / field entries that point to (swept or unswept) garbage are not part of the comparison
        relB = {t for t in relB if "<foreign>" not in t}
        fieldsB = {t for t in fieldsB if "<foreign>" not in t}
        if errA != errB:
            problems.append(f"assertions raise differently: fresh {errA[:2]} vs after-history {errB[:2]}")
        if relA != relB:
            problems.append(f"graph relations differ: only on fresh graph {sorted(relA - relB)[:4]}, only after history {sorted(relB - relA)[:4]}")
        if fieldsA != fieldsB:
            problems.append(f"field values differ: only on fresh graph {sorted(fieldsA - fieldsB)[:4]}, only after history {sorted(fieldsB - fieldsA)[:4]}")
        if problems:
            return {"status": "fail", "kind": "history-dependent", "key": "dead-node-leaves-index-entries", "detail": "; ".join(problems[:3])}
        return {"status": "ok", "nontrivial": nA > 0, "shape": f"survivor|{spec['rounds']}|{[f[0] for f in spec['final']]}|{[s[1] for s in spec['survivors']]}",
                "obs": {"relations": len(relA)}}
    relA, fieldsA, errA, nA, _ = run_suffix(spec, om, False, C, problems)
    relB, fieldsB, errB, nB, (reclaimed, related) = run_suffix(spec, om, True, C, problems)
    C["suffix_assertions"] += nA
    C["relations_compared"] += len(relA)
    if errA != errB:
        problems.append(f"assertions raise differently: fresh {errA[:2]} vs after-history {errB[:2]}")
    if relA != relB:
        problems.append(f"graph relations differ: only on fresh graph {sorted(relA - relB)[:4]}, only after history {sorted(relB - relA)[:4]}")
    if fieldsA != fieldsB:
        problems.append(f"field values differ: only on fresh graph {sorted(fieldsA - fieldsB)[:4]}, only after history {sorted(fieldsB - fieldsA)[:4]}")
    shape = f"{[len(r['create']) for r in spec['prefix']]}|{[o[1][0] for o in spec['objects']]}|{[s[0] for s in spec['suffix']]}|{spec['sweep']}"
    if problems:
        return {"status": "fail", "kind": "history-dependent", "key": "dead-node-leaves-index-entries",
                "detail": "; ".join(problems[:3])}
    return {"status": "ok", "nontrivial": related > 0 and nA > 0, "shape": shape,
            "obs": {"relations": len(relA), "prefix_reclaimed": reclaimed, "prefix_related": related}}
