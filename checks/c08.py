"""C08 - rule trees follow except-if / else-if / also-if semantics.

Reference-model monitor: random rule trees are written through the real with-block API
(refinement / alternative / next_rule, any nesting) and evaluated; the set of inferred instances
(branch tag, identities of the binding's values) is compared with a ripple-down-rules interpreter
applied to every element of the domain product.
"""
from __future__ import annotations

import itertools
import json
from collections import Counter

from vlib import eql_engine as G
from vlib import eql_gen as GEN

ID = "C08"
LEVEL = "exploration"
EXHAUSTIVE = True
RULE = ("random rule trees (depth<=3, <=4 children per rule, children drawn from refinement / alternative / next_rule "
        "in any written order, refinement-of-refinement, alternatives inside refinement and alternative blocks) over "
        "1-2 variables whose base rule mentions every variable, conclusions tagged by branch and built from all or only "
        "some of the variables, or absent (a branch that only suppresses); a fifth of the cases are deep chains (refinement of a refinement of a refinement with "
        "alternatives / next_rules written inside the deeper blocks) over two variables; branch conditions may be a "
        "Predicate / HasType on their own; an eighth of the cases range over x and e = flatten(x.items) with conclusions "
        "built from both; a tenth have quantified conditions (exists / for_all over further variables) as branch conditions; a third of the "
        "plain cases are grown the ripple-down way (base rule, evaluate, then the branches - all at once or with an evaluation "
        "after each); thorough adds every tree "
        "shape with <=4 branches over a one-variable 8-element domain.  Non-trivial = at least two different branches "
        "fire for some bindings and at least one binding fires nothing; distinct = tree shape (kinds and nesting) x "
        "condition skeletons")
ASSUMPTIONS = ["a refinement chain is the refinement followed by the alternatives written inside its block",
               "several refinements of one rule are tried in the order written",
               "an alternative / next_rule written inside an alternative's or next_rule's block continues the enclosing "
               "chain in writing order; a next_rule fires whatever fired before it in that chain",
               "instances are compared as sets of (branch tag, binding identities)"]
ANCHORS = ["refinement", "alternative_or_next", "ExceptIf._evaluate__", "Alternative._evaluate__", "Next._evaluate__",
           "ConclusionSelector.update_conclusion", "QueryObjectDescriptor.evaluate_conclusions_and_update_bindings"]


def plan(tier):
    return {"cases": 8000 if tier == "quick" else 80000, "shards": 16, "case_timeout": 30, "shard_timeout": 3000,
            "min_nontrivial": 100,
            "min_counters": {"instances_compared": 5000, "kind:ref": 300, "kind:alt": 300, "kind:next": 300,
                             "bindings_interpreted": 5000, "worlds_with_equal_but_distinct_objects": 500, "tag_selections": 300, "trees_inside_an_enclosing_query": 150}}


def setup(ctx):
    from vlib import eqlmodel
    ctx["m"] = eqlmodel


def recover(ctx):
    ctx["m"].reset_eql_process_state()


def gen_pred_atom(rng, names):
    v, w = rng.choice(names), rng.choice(names)
    k = rng.random()
    if k < 0.4:
        return ["pred", "BothPositive", [["var", v], ["var", w]]]
    if k < 0.7:
        return ["pred", "AGreater", [["var", v], ["lit", rng.randint(0, 1)]]]
    return ["hastype", ["var", v], "Q"]


def gen_rule(rng, names, depth, counter, gctx, kinds):
    r = {"id": f"r{next(counter)}", "cond": GEN.gen_atom(rng, names, False, gctx), "children": []}
    while r["cond"][0] in ("truth",):
        r["cond"] = GEN.gen_atom(rng, names, False, gctx)
    if rng.random() < 0.15:
        r["cond"] = gen_pred_atom(rng, names)      # a Predicate / HasType as the whole condition of a branch
    if depth > 0:
        for _ in range(rng.choice([0, 1, 1, 2, 2, 3, 4])):
            r["children"].append([rng.choice(kinds), gen_rule(rng, names, depth - 1, counter, gctx, kinds)])
    return r


def _simple_atom(rng, names, both=False):
    def one(v):
        return ["cmp", rng.choice(["<", "<=", ">", ">=", "==", "!="]), ["attr", ["var", v], rng.choice("ab")], ["lit", rng.randint(0, 2)]]
    if both and len(names) > 1:
        return ["and", one(names[0]), one(names[1])]
    return one(rng.choice(names))


def gen_chain(rng, names, depth, counter):
    """a refinement of a refinement of ... with alternatives / next_rules written inside the deeper blocks; every
    next_rule condition mentions all the variables (so nothing is unbound when it fires on its own) and alternatives
    precede next_rules in a block (the listed alternative-after-next finding is kept out)"""
    r = {"id": f"r{next(counter)}", "cond": _simple_atom(rng, names), "children": []}
    if depth > 0:
        kids = [["ref", gen_chain(rng, names, depth - 1, counter)]]
        if rng.random() < 0.3:
            kids.append(["ref", gen_chain(rng, names, 0, counter)])
        for _ in range(rng.choice([0, 1, 1, 2])):
            kids.append(["alt", {"id": f"r{next(counter)}", "cond": _simple_atom(rng, names), "children": []}])
        for _ in range(rng.choice([0, 1, 1, 2])):
            kids.append(["next", {"id": f"r{next(counter)}", "cond": _simple_atom(rng, names, both=True), "children": []}])
        r["children"] = kids
    return r


def gen_flat(rng):
    """one variable x and e = flatten(x.items): the base binds both, conclusions are built from x and e"""
    world = G.gen_world(rng, n=rng.randint(2, 6))
    for o in world:
        o["items"] = [rng.randint(0, 3) for _ in range(rng.choice([0, 1, 2, 2, 3]))]
    vars_ = GEN.gen_vars(rng, world, 1, allow_empty=False)
    vars_[0]["type"] = "P"
    vars_[0]["kind"] = rng.choice(["list", "gen"])
    counter = itertools.count()

    def atom():
        if rng.random() < 0.5:
            return ["cmp", rng.choice(GEN.CMP), ["var", "e"], ["lit", rng.randint(0, 3)]]
        return ["cmp", rng.choice(GEN.CMP), ["attr", ["var", "x"], rng.choice("ab")], ["lit", rng.randint(0, 2)]]

    def rule(depth):
        r = {"id": f"r{next(counter)}", "cond": atom(), "children": [], "concl": rng.choice(["xe", "xe", "x"])}
        if r["concl"] == "xe" and rng.random() < 0.4:
            r["derived_argument"] = True    # the conclusion takes an attribute of the flattened value, not the value itself
        if depth > 0:
            for _ in range(rng.choice([0, 1, 1, 2])):
                r["children"].append([rng.choice(["ref", "alt", "alt"]), rule(depth - 1)])
        return r

    root = rule(rng.randint(0, 2))
    root["cond"] = ["and", ["cmp", ">=", ["var", "e"], ["lit", 0]], root["cond"]]     # binds x and e
    root["concl"] = "xe"
    return {"world": world, "vars": vars_, "derived": [{"name": "e", "kind": "flat", "of": ["attr", ["var", "x"], "items"]}],
            "rule": root, "profile": "flat"}


def gen_quant(rng):
    """branches whose conditions are quantified conditions (exists / for_all over a further variable u) about the bound
    rule variable: an alternative has to see the bindings such a condition rejects"""
    world = G.gen_world(rng, n=rng.randint(3, 6))
    vars_ = GEN.gen_vars(rng, world, 1, allow_empty=False)
    vars_[0]["type"] = "P"
    vars_[0]["kind"] = rng.choice(["list", "gen"])
    qvars = []
    counter = itertools.count()

    def cond():
        if rng.random() < 0.65:
            # a variable of its own for every quantifier (an exists leaves its witness in the bindings: C01's listed
            # finding exists-leaves-its-variable-bound)
            u = f"u{len(qvars)}"
            qvars.append({"name": u, "type": "P", "dom": [rng.randrange(len(world)) for _ in range(rng.choice([1, 2, 2, 3]))], "kind": "list"})
            inner = ["cmp", rng.choice(GEN.CMP), ["attr", ["var", "x"], rng.choice("ab")], ["attr", ["var", u], rng.choice("ab")]]
            return [rng.choice(["exists", "forall"]), u, inner]
        return ["cmp", rng.choice(GEN.CMP), ["attr", ["var", "x"], rng.choice("ab")], ["lit", rng.randint(0, 2)]]

    def rule(depth):
        r = {"id": f"r{next(counter)}", "cond": cond(), "children": []}
        if depth > 0:
            for _ in range(rng.choice([1, 1, 2, 3])):
                r["children"].append([rng.choice(["ref", "alt", "alt"]), rule(depth - 1)])
        return r

    root = rule(rng.randint(1, 2))
    # the base first binds x, then (mostly) asks a quantified condition about it
    root["cond"] = ["and", ["cmp", ">=", ["attr", ["var", "x"], "a"], ["lit", 0]], root["cond"]]
    return {"world": world, "vars": vars_, "qvars": qvars, "rule": root, "profile": "quant"}


def gen(rng, tier, ctx):
    case = gen_case(rng, tier, ctx)
    if rng.random() < 0.2 and "world" in case:
        G.with_equal_but_distinct_objects(case["world"])
        case["equal_objects"] = True
    if rng.random() < 0.12:
        case["select_tag"] = True
    elif rng.random() < 0.15:
        case["outer"] = True
    return case


def gen_case(rng, tier, ctx):
    if rng.random() < 0.12:
        return gen_flat(rng)
    if rng.random() < 0.1:
        return gen_quant(rng)
    if rng.random() < 0.2:
        world = G.gen_world(rng, n=rng.randint(4, 7))
        vars_ = GEN.gen_vars(rng, world, 2, allow_empty=False)
        for v in vars_:
            v["type"] = "P"
            v["kind"] = rng.choice(["list", "gen"])
        names = [v["name"] for v in vars_]
        rule = gen_chain(rng, names, rng.randint(2, 3), itertools.count())
        rule["cond"] = ["and", ["cmp", rng.choice([">=", "<=", "!="]), ["attr", ["var", "x"], rng.choice("ab")], ["attr", ["var", "y"], rng.choice("ab")]],
                        rule["cond"]]
        narrow = rng.random() < 0.5

        def mark(r, root=False):
            r["concl"] = "xy" if root else ("x" if narrow else rng.choice(["xy", "x", "x"]))
            for _, ch in r["children"]:
                mark(ch)
        mark(rule, True)
        return {"world": world, "vars": vars_, "rule": rule, "profile": "chain"}
    world = G.gen_world(rng, n=rng.randint(2, 6))
    nv = rng.choice([1, 1, 2])
    vars_ = GEN.gen_vars(rng, world, nv, allow_empty=False)
    for v in vars_:
        v["type"] = "P"
        v["kind"] = rng.choice(["list", "gen"])
    names = [v["name"] for v in vars_]
    gctx = {"ref_ok": GEN.ref_ok_map(world, vars_)}
    kinds = rng.choice([["ref", "alt", "next"], ["ref", "alt", "alt"], ["ref", "alt", "alt", "next"], ["alt"], ["ref"],
                        ["ref", "next"]])
    rule = gen_rule(rng, names, rng.randint(0, 3), itertools.count(), gctx, kinds)
    if nv == 2:
        join = ["cmp", rng.choice(GEN.CMP), ["attr", ["var", "x"], rng.choice("ab")], ["attr", ["var", "y"], rng.choice("ab")]]
        if rng.random() < 0.1:
            # the listed finding: the base conjunction can short-circuit before the second variable is bound
            rule["cond"] = ["and", rule["cond"], join]
        else:
            rule["cond"] = ["and", join, rule["cond"]]      # the comparison binds both variables first
        # conclusions that use different sets of variables
        narrow = rng.random() < 0.3        # every conclusion uses fewer variables than the conditions bind

        def mark(r):
            r["concl"] = "x" if narrow else rng.choice(["xy", "xy", "x"])
            for _, ch in r["children"]:
                mark(ch)
        mark(rule)
    if rng.random() < 0.25:
        # some branches (often the base, or a refinement that is refined again) carry no conclusion of their own
        def strip(r, depth):
            if rng.random() < (0.5 if depth == 0 or r["children"] else 0.15):
                r["concl"] = "none"
            for _, ch in r["children"]:
                strip(ch, depth + 1)
        strip(rule, 0)
    return {"world": world, "vars": vars_, "rule": rule, "grow": rng.choice([False, False, False, False, "at_once", "stepwise"])}


def all_shapes(max_branches):
    """all trees with <= max_branches nodes where children are (kind, subtree)"""

    def trees(n):
        # trees with exactly n nodes
        if n == 1:
            yield []
            return
        # distribute n-1 nodes over an ordered list of children
        def forests(k):
            if k == 0:
                yield []
                return
            for first in range(1, k + 1):
                for t in trees(first):
                    for kind in ("ref", "alt", "next"):
                        for rest in forests(k - first):
                            yield [[kind, t]] + rest

        yield from forests(n - 1)

    for n in range(1, max_branches + 1):
        yield from trees(n)


def exhaustive(tier, ctx):
    if tier != "thorough":
        return
    world = [{"cls": "P", "a": a, "b": b, "items": [c], "kids": [], "ref": None, "d": {"k": 0}, "name": f"o{a}{b}{c}"}
             for a in (0, 1) for b in (0, 1) for c in (0, 1)]
    conds = [["cmp", "==", ["attr", ["var", "x"], "a"], ["lit", 1]], ["cmp", "==", ["attr", ["var", "x"], "b"], ["lit", 1]],
             ["contains", ["attr", ["var", "x"], "items"], ["lit", 1]], ["cmp", "==", ["attr", ["var", "x"], "a"], ["lit", 0]]]
    for shape in all_shapes(4):
        counter = itertools.count()

        def mk(children, depth):
            i = next(counter)
            return {"id": f"r{i}", "cond": conds[i % len(conds)] if i else ["cmp", ">=", ["attr", ["var", "x"], "a"], ["lit", 0]],
                    "children": [[k, mk(ch, depth + 1)] for k, ch in children]}

        yield {"world": world, "vars": [{"name": "x", "type": "P", "dom": list(range(8)), "kind": "list"}],
               "rule": mk(shape, 0)}


# ------------------------------------------------------------------ reference interpreter
def normalize(rule):
    """alternative / next_rule branches written inside the block of an alternative / next_rule branch continue the
    enclosing chain in writing order (they are not a private chain of that branch); refinements stay with the branch
    whose block they are written in.  A refinement's block starts a chain of its own."""
    out = {"id": rule["id"], "cond": rule["cond"], "children": []}

    def hoist(kind, ch):
        n = normalize(ch)
        own = [(k, c) for k, c in n["children"] if k == "ref"]
        rest = [(k, c) for k, c in n["children"] if k != "ref"]
        n["children"] = own
        return [(kind, n)] + rest          # `rest` is already flattened by the recursive normalize

    for kind, ch in rule["children"]:
        if kind == "ref":
            out["children"].append(("ref", normalize(ch)))
        else:
            out["children"].extend(hoist(kind, ch))
    return out


def interpret(rule, holds):
    """-> (fired, set of branch ids) for one binding; holds(rule)->bool"""
    rule = normalize(rule)

    def chain(r):
        if not holds(r):
            return False, set()
        for kind, ch in r["children"]:
            if kind == "ref":
                f, c = full(ch)
                if f:
                    return True, c
        return True, {r["id"]}

    def full(r):
        fired, out = chain(r)
        out = set(out)
        for kind, ch in r["children"]:
            if kind == "alt":
                if not fired:
                    f, c = full(ch)
                    if f:
                        fired = True
                        out |= c
            elif kind == "next":
                f, c = full(ch)
                out |= c
                fired = fired or f
        return fired, out

    return full(rule)


def tree_features(rule):
    f = Counter()

    def walk(r, parent_kind, depth):
        kinds = [k for k, _ in r["children"]]
        f["max_alts"] = max(f["max_alts"], kinds.count("alt"))
        if kinds.count("ref") > 1:
            f["multi_ref"] += 1
        seen_other = False
        seen_next = False
        for k, ch in r["children"]:
            f["kind:" + k] += 1
            if k == "next":
                seen_next = True
            if k == "alt" and seen_next:
                f["alt_after_next"] += 1
            if k == "ref":
                if seen_other:
                    f["ref_after_alt_or_next"] += 1
                if parent_kind == "ref":
                    f["ref_of_ref"] += 1
                if parent_kind in ("alt", "next"):
                    f["ref_inside_alt_or_next_block"] += 1
            else:
                seen_other = True
                if parent_kind in ("alt", "next"):
                    f["alt_or_next_inside_alt_or_next_block"] += 1
            walk(ch, k, depth + 1)
        f["depth"] = max(f["depth"], depth)

    walk(rule, None, 0)
    return f


def cond_skeleton(rule):
    def sk(c):
        if c[0] in ("and", "not"):
            return c[0] + "(" + ",".join(sk(x) for x in c[1:]) + ")"
        if c[0] in ("exists", "forall"):
            return c[0] + "(" + sk(c[2]) + ")"
        return c[0] + ":" + "".join(sorted(G.cond_vars(c)))
    return sk(rule["cond"]) + "[" + ",".join(cond_skeleton(ch) for _, ch in rule["children"]) + "]"


def _alt_after_next(rule):
    seen_next = False
    for k, ch in rule["children"]:
        if k == "next":
            seen_next = True
        if k == "alt" and seen_next:
            return 1
        if _alt_after_next(ch):
            return 1
    return 0


def shape_of(rule):
    return "(" + ",".join(k + shape_of(ch) for k, ch in rule["children"]) + ")"


def build_and_run(spec, m, objs):
    from krrood.entity_query_language.entity import let, entity, inference
    from krrood.entity_query_language.quantify_entity import an
    from krrood.entity_query_language.conclusion import Add
    from krrood.entity_query_language.rule import refinement, alternative, next_rule
    bspec = {"world": spec["world"], "vars": spec["vars"] + spec.get("qvars", []), "derived": spec.get("derived", []), "cond": None,
             "select": [["var", spec["vars"][0]["name"]]], "mode": "entity"}
    b = G.build(bspec, m, objs)
    V = b.V
    names = [v["name"] for v in spec["vars"]]
    from krrood.entity_query_language import entity as E
    from krrood.entity_query_language import symbolic as S

    def bc(c):
        k = c[0]
        bt = lambda t: (V[t[1]] if t[0] == "var" else getattr(bt(t[1]), t[2]) if t[0] == "attr" else t[1])
        if k == "cmp":
            return S.Comparator(bt(c[2]), bt(c[3]), G.OPS[c[1]])
        if k == "in":
            return E.in_(bt(c[1]), bt(c[2]))
        if k == "contains":
            return E.contains(bt(c[1]), bt(c[2]))
        if k == "and":
            return E.and_(bc(c[1]), bc(c[2]))
        if k == "not":
            return E.not_(bc(c[1]))
        if k == "exists":
            return E.exists(V[c[1]], bc(c[2]))
        if k == "forall":
            return E.for_all(V[c[1]], bc(c[2]))
        if k == "pred":
            return getattr(m, c[1])(*[bt(t) for t in c[2]])
        if k == "hastype":
            from krrood.entity_query_language.predicate import HasType
            return HasType(bt(c[1]), getattr(m, c[2]))
        raise ValueError(c)

    v = inference(m.V)()
    # the selection may be an attribute of the inferred variable: the tags of the concluded instances
    q = an(entity(v.tag if spec.get("select_tag") else v, bc(spec["rule"]["cond"])))

    def conclude(r):
        if r.get("concl") == "none":
            return          # a branch without a conclusion of its own: it only suppresses / passes through
        kw = {"tag": r["id"], "p": V[names[0]]}
        if len(names) > 1 and r.get("concl", "xy") == "xy":
            kw["q"] = V[names[1]]
        if r.get("concl") == "xe":
            kw["q"] = V["e"].real if r.get("derived_argument") else V["e"]
        Add(v, inference(m.V)(**kw))

    def write(r):
        conclude(r)
        for kind, ch in r["children"]:
            ctxm = {"ref": refinement, "alt": alternative, "next": next_rule}[kind](bc(ch["cond"]))
            with ctxm:
                write(ch)

    if spec.get("grow"):
        # the ripple-down workflow: write the base rule, look at its results, write a branch, look again, ...
        root = spec["rule"]
        with q:
            conclude(root)
        list(q.evaluate())
        if spec["grow"] == "at_once":
            # all the branches are written in one go after the first look
            with q:
                for kind, ch in root["children"]:
                    with {"ref": refinement, "alt": alternative, "next": next_rule}[kind](bc(ch["cond"])):
                        write(ch)
            return list(q.evaluate())
        for kind, ch in root["children"]:
            with q:
                ctxm = {"ref": refinement, "alt": alternative, "next": next_rule}[kind](bc(ch["cond"]))
                with ctxm:
                    write(ch)
            list(q.evaluate())
        return list(q.evaluate())
    with q:
        write(spec["rule"])
    if spec.get("outer_now"):
        # the rule tree stands inside an enclosing query: it is evaluated once for every value of z
        from krrood.entity_query_language.entity import set_of
        z = let(int, [1, 2], name="z")
        rows = list(an(set_of([z, q], z >= 1, q.tag != "<no such tag>")).evaluate())
        return [[r[q] for r in rows if r[z] == k] for k in (1, 2)]
    return list(q.evaluate())


def run(spec, ctx):
    m = ctx["m"]
    C = ctx["counters"]
    objs = G.make_world(spec, m)
    C["worlds_with_equal_but_distinct_objects"] += bool(spec.get("equal_objects"))
    idmap = {id(o): i for i, o in enumerate(objs)}
    names = [v["name"] for v in spec["vars"]]
    feats = tree_features(spec["rule"])
    feats["nvars"] = len(names)
    feats["alt_after_next_flat"] = _alt_after_next(normalize(spec["rule"]))
    bc_ = spec["rule"]["cond"]
    feats["base_short_circuits"] = int(len(names) == 2 and bc_[0] == "and" and len(G.cond_vars(bc_[1])) < 2)

    def next_binds_one(r):
        return any((k == "next" and len(G.cond_vars(ch["cond"])) < 2) or next_binds_one(ch) for k, ch in r["children"])

    # a next_rule is evaluated a second time on its own (nothing bound): if its conditions do not mention every
    # variable its conclusion uses, the conclusion is built while a variable is still unbound
    if len(names) == 2 and next_binds_one(spec["rule"]):
        feats["base_short_circuits"] = 1
    for k in ("kind:ref", "kind:alt", "kind:next"):
        C[k] += feats[k]
    # expected
    doms = [[objs[i] for i in v["dom"]] for v in spec["vars"]]
    ospec = {"world": spec["world"], "vars": spec["vars"], "derived": []}
    exp = set()
    fired_sets = Counter()
    concl_of = {}

    def collect(r):
        concl_of[r["id"]] = r.get("concl", "xy")
        for _, ch in r["children"]:
            collect(ch)

    collect(spec["rule"])
    flat = spec.get("profile") == "flat"
    if flat:
        # bindings are (x, one element of x.items); a condition is decided by the first-order oracle over that binding
        C["flat_cases"] += 1
        ospec = {"world": spec["world"], "vars": spec["vars"], "derived": spec["derived"]}
        for xo in doms[0]:
            for ev in xo.items:
                def holds(r, xo=xo, ev=ev):
                    s = dict(ospec, cond=["and", r["cond"], ["cmp", "==", ["var", "e"], ["lit", ev]]], select=[["var", "x"]],
                             mode="set_of", vars=[dict(spec["vars"][0], dom=[idmap[id(xo)]], kind="list")])
                    return bool(G.oracle(s, m, objs))

                fired, ids = interpret(spec["rule"], holds)
                C["bindings_interpreted"] += 1
                fired_sets[frozenset(ids)] += 1
                for rid in ids:
                    exp.add((rid, idmap[id(xo)], ev if concl_of.get(rid) == "xe" else None))
    for combo in (itertools.product(*doms) if not flat else ()):
        A = dict(zip(names, combo))

        def holds(r, A=A):
            s = dict(ospec, cond=r["cond"], select=[["var", n] for n in names], mode="set_of",
                     vars=[dict(v, dom=[idmap[id(A[v["name"]])]], kind="list") for v in spec["vars"]] + spec.get("qvars", []))
            return bool(G.oracle(s, m, objs))

        fired, ids = interpret(spec["rule"], holds)
        C["bindings_interpreted"] += 1
        fired_sets[frozenset(ids)] += 1
        for rid in ids:
            if concl_of.get(rid, "xy") == "none":
                continue
            if len(names) > 1 and concl_of.get(rid, "xy") == "x":
                exp.add((rid, idmap[id(combo[0])], None))
            else:
                exp.add((rid,) + tuple(idmap[id(o)] for o in combo))
    try:
        res = build_and_run(spec, m, objs)
    except Exception as e:
        recover(ctx)
        return {"status": "fail", "kind": "exception:" + type(e).__name__, "key": classify(feats, None),
                "detail": f"{type(e).__name__}: {e}"[:300] + " | " + shape_of(spec["rule"])}
    if spec.get("select_tag"):
        C["tag_selections"] += 1
        want = {k[0] for k in exp}
        odd = [repr(r)[:40] for r in res if not isinstance(r, str)]
        if set(map(str, res)) == want and not odd:
            return {"status": "ok", "nontrivial": bool(spec["rule"]["children"]) and len(want) >= 1,
                    "shape": "tag|" + shape_of(spec["rule"]) + "|" + str(len(names)), "obs": {"tags": len(res)}}
        key = classify(feats, (bool(set(map(str, res)) - want), bool(want - set(map(str, res)))))
        C["fail:" + (key or "UNEXPLAINED")] += 1
        return {"status": "fail", "kind": "tag-selection", "key": key,
                "detail": f"entity(v.tag, ...) gives tags {sorted(set(map(str, res)))[:6]} (non-strings {odd[:2]}), the instances the tree "
                          f"concludes have tags {sorted(want)[:6]} | tree={shape_of(spec['rule'])}"}
    def keys_of(instances):
        out, bad = set(), []
        for r in instances:
            if not isinstance(r, m.V):
                bad.append(repr(r))
                continue
            if flat:
                key = (r.tag, idmap.get(id(r.p), "?"), r.q)
            else:
                key = (r.tag, idmap.get(id(r.p), "?")) + (((idmap.get(id(r.q), "?") if r.q is not None else None),) if len(names) > 1 else ())
            out.add(key)
        return out, bad

    got, bad_inst = keys_of(res)
    C["instances_compared"] += len(got)
    if got == exp and not bad_inst and spec.get("outer") and not spec.get("grow") and not flat:
        # the same tree inside an enclosing query over two values: the same instances for each of them
        try:
            halves = build_and_run(dict(spec, outer_now=True), m, G.make_world(spec, m))
        except Exception as e:
            recover(ctx)
            return {"status": "fail", "kind": "exception:" + type(e).__name__, "key": classify(feats, None),
                    "detail": f"inside an enclosing query: {type(e).__name__}: {e}"[:300] + " | " + shape_of(spec["rule"])}
        C["trees_inside_an_enclosing_query"] += 1
        objs2 = None
        for k, half in enumerate(halves):
            # (another world of the same spec: compare by the position of the objects)
            tags = sorted((r.tag, r.p.name) + ((r.q.name if r.q is not None else None,) if len(names) > 1 else ()) for r in half if isinstance(r, m.V))
            want = sorted((key[0], objs[key[1]].name) + ((objs[key[2]].name if key[2] is not None else None,) if len(names) > 1 else ()) for key in exp)
            if sorted(set(tags)) != want:
                C["fail:UNEXPLAINED"] += 1
                return {"status": "fail", "kind": "inside-an-enclosing-query", "key": classify(feats, (bool(set(tags) - set(want)), bool(set(want) - set(tags)))),
                        "detail": f"for value {k + 1} of the enclosing variable the tree gives {len(set(tags))} instances, alone it gives {len(want)} | tree={shape_of(spec['rule'])}"}
    if got == exp and not bad_inst:
        distinct_fired = {k for k in fired_sets if k}
        nontrivial = len(fired_sets) >= 2 and len(distinct_fired) >= 1 and bool(spec["rule"]["children"])
        return {"status": "ok", "nontrivial": nontrivial,
                "shape": shape_of(spec["rule"]) + "|" + str(len(names)) + "|" + cond_skeleton(spec["rule"]),
                "obs": {"instances": len(got), "duplicates": len(res) - len(got)}}
    extra, missing = sorted(got - exp), sorted(exp - got)
    key = classify(feats, (bool(extra), bool(missing)))
    C["fail:" + (key or "UNEXPLAINED")] += 1
    return {"status": "fail", "kind": ("extra" if extra else "") + ("missing" if missing else "") + ("non-instance" if bad_inst else ""),
            "key": key, "detail": f"extra={extra[:4]} missing={missing[:4]} | tree={shape_of(spec['rule'])}",
            "obs": {"tree": shape_of(spec["rule"])}}


def classify(feats, direction):
    """listed findings (see known-findings.txt); direction = (extra, missing) or None for an exception"""
    if feats["alt_after_next_flat"]:
        return "alternative-after-next-rule"
    if feats["nvars"] == 2 and feats["base_short_circuits"] and direction == (False, True):
        return "conclusion-unbound-variable-first-only"
    return None


def _rule(i, a, children=()):
    return {"id": f"r{i}", "cond": ["cmp", "==", ["attr", ["var", "x"], a[0]], ["lit", a[1]]], "children": list(children)}


def witnesses():
    world = [{"cls": "P", "a": a, "b": b, "items": [c], "kids": [], "ref": None, "d": {"k": 0}, "name": f"o{a}{b}{c}"}
             for a in (0, 1) for b in (0, 1) for c in (0, 1, 2)]
    X = [{"name": "x", "type": "P", "dom": list(range(len(world))), "kind": "list"}]
    base = ["cmp", ">=", ["attr", ["var", "x"], "a"], ["lit", 0]]
    c_items = lambda k: ["contains", ["attr", ["var", "x"], "items"], ["lit", k]]
    w = {}
    # three alternatives in one chain
    w["third-alternative-replaces-second"] = {"world": world, "vars": X, "rule": {
        "id": "r0", "cond": ["cmp", "==", ["attr", ["var", "x"], "a"], ["lit", 5]], "children": [
            ["alt", {"id": "r1", "cond": c_items(0), "children": []}],
            ["alt", {"id": "r2", "cond": c_items(1), "children": []}],
            ["alt", {"id": "r3", "cond": c_items(2), "children": []}]]}}
    w["refinement-of-refinement-ignored"] = {"world": world, "vars": X, "rule": {
        "id": "r0", "cond": base, "children": [
            ["ref", {"id": "r1", "cond": ["cmp", "==", ["attr", ["var", "x"], "a"], ["lit", 1]], "children": [
                ["ref", {"id": "r2", "cond": ["cmp", "==", ["attr", ["var", "x"], "b"], ["lit", 1]], "children": []}]]}]]}}
    w["second-refinement-ignored"] = {"world": world, "vars": X, "rule": {
        "id": "r0", "cond": base, "children": [
            ["ref", {"id": "r1", "cond": ["cmp", "==", ["attr", ["var", "x"], "a"], ["lit", 1]], "children": []}],
            ["ref", {"id": "r2", "cond": ["cmp", "==", ["attr", ["var", "x"], "b"], ["lit", 1]], "children": []}]]}}
    w["refinement-after-alternative-ignored"] = {"world": world, "vars": X, "rule": {
        "id": "r0", "cond": ["cmp", "==", ["attr", ["var", "x"], "a"], ["lit", 1]], "children": [
            ["alt", {"id": "r1", "cond": c_items(0), "children": []}],
            ["ref", {"id": "r2", "cond": ["cmp", "==", ["attr", ["var", "x"], "b"], ["lit", 1]], "children": []}]]}}
    w["next-rule-same-variables-suppressed"] = {"world": world, "vars": X, "rule": {
        "id": "r0", "cond": base, "children": [
            ["next", {"id": "r1", "cond": ["cmp", "==", ["attr", ["var", "x"], "a"], ["lit", 1]], "children": []}]]}}
    w["alternative-after-next-rule"] = {"world": world, "vars": X, "rule": {
        "id": "r0", "cond": ["cmp", "==", ["attr", ["var", "x"], "a"], ["lit", 1]], "children": [
            ["next", {"id": "r1", "cond": ["cmp", "==", ["attr", ["var", "x"], "b"], ["lit", 5]], "children": []}],
            ["alt", {"id": "r2", "cond": base, "children": []}]]}}
    Y = {"name": "y", "type": "P", "dom": [0, 1, 2], "kind": "list"}
    w["conclusion-unbound-variable-first-only"] = {"world": world, "vars": X + [Y], "rule": {
        "id": "r0", "cond": ["and", ["cmp", "<", ["attr", ["var", "x"], "a"], ["lit", 0]],
                             ["cmp", "==", ["attr", ["var", "x"], "b"], ["attr", ["var", "y"], "a"]]], "children": [
            ["alt", {"id": "r1", "cond": base, "children": []}]]}}
    # two refinements of one rule over two variables whose conclusions use only the first variable: the inner
    # selector remembered a conclusion that the outer refinement then overrode
    w["overridden-conclusion-remembered"] = json.loads('{"world": [{"cls": "Q", "a": 0, "b": 0, "items": [2, 2], "kids": [1, 4], "ref": 1, "d": {"k": 0}, "name": "o0", "f": "0.0", "fs": [1, 2]}, {"cls": "P", "a": 2, "b": 2, "items": [], "kids": [2], "ref": 1, "d": {"k": 2}, "name": "o1", "f": "0.0", "fs": []}, {"cls": "Q", "a": 1, "b": 1, "items": [1], "kids": [0, 0], "ref": null, "d": {"k": 2}, "name": "o2", "f": "0.0", "fs": [0, 1, 2]}, {"cls": "P", "a": 2, "b": 1, "items": [], "kids": [], "ref": 0, "d": {"k": 2}, "name": "o3", "f": "0.0", "fs": [0, 2]}, {"cls": "P", "a": 2, "b": 0, "items": [1], "kids": [], "ref": 1, "d": {"k": 0}, "name": "o4", "f": "0.0", "fs": [2]}], "vars": [{"name": "x", "type": "P", "dom": [3, 1, 2], "kind": "list"}, {"name": "y", "type": "P", "dom": [4, 1], "kind": "gen"}], "rule": {"id": "r0", "cond": ["and", ["cmp", "!=", ["attr", ["var", "x"], "b"], ["attr", ["var", "y"], "a"]], ["cmp", "<=", ["attr", ["var", "x"], "a"], ["lit", 2]]], "children": [["ref", {"id": "r1", "cond": ["contains", ["attr", ["var", "y"], "items"], ["lit", 1]], "children": [], "concl": "x"}], ["ref", {"id": "r3", "cond": ["cmp", "<=", ["attr", ["var", "x"], "a"], ["lit", 1]], "children": [], "concl": "x"}]], "concl": "xy"}}')
    # an alternative of a base rule that ends in a quantified condition
    w["quantifier-yields-nothing-when-false"] = {"world": world, "vars": X, "profile": "quant",
        "qvars": [{"name": "u0", "type": "P", "dom": [0, 6], "kind": "list"}],
        "rule": {"id": "r0", "cond": ["and", base, ["forall", "u0", ["cmp", ">", ["attr", ["var", "x"], "a"], ["attr", ["var", "u0"], "a"]]]],
                 "children": [["alt", {"id": "r1", "cond": ["cmp", "==", ["attr", ["var", "x"], "b"], ["lit", 1]], "children": []}]]}}
    # two branches written in one go after a first look at the results of the base rule
    w["branch-written-after-evaluation-dropped"] = {"world": world, "vars": X, "grow": "at_once", "rule": {
        "id": "r0", "cond": ["cmp", "==", ["attr", ["var", "x"], "a"], ["lit", 1]], "children": [
            ["ref", {"id": "r1", "cond": ["cmp", "==", ["attr", ["var", "x"], "b"], ["lit", 1]], "children": []}],
            ["alt", {"id": "r2", "cond": c_items(1), "children": []}]]}}
    # the selection is an attribute of the inferred variable and a refinement concludes nothing
    w["selected-attribute-of-an-instance-nobody-concluded"] = {"world": world, "vars": X, "select_tag": True, "rule": {
        "id": "r0", "cond": base, "children": [
            ["ref", {"id": "r1", "cond": ["cmp", "==", ["attr", ["var", "x"], "a"], ["lit", 1]], "children": [], "concl": "none"}]]}}
    return w
