"""C01 - EQL answers are exactly the satisfying assignments.

Reference-model monitor: every generated query is built through the public API on the real
engine, evaluated, and its row SET is compared with a brute-force first-order evaluator over the
Cartesian product of the (type-filtered) domains (vlib/eql_engine.oracle).
"""
from __future__ import annotations

import json
from collections import Counter

from vlib import eql_engine as G
from vlib import eql_gen as GEN

ID = "C01"
LEVEL = "exploration"
RULE = ("random query specs from 10 families (and/or/not core, rich atoms incl. calls/index/predicates/symbolic "
        "functions/HasType, method calls and index keys whose arguments are themselves terms over variables, flatten variables, nested sub-queries, exists E1/E2, for_all, multi-expression selection "
        "bound/unbound) over random worlds of 1-6 objects with value-equal distinct objects, empty domains and empty "
        "collections, plus (thorough) the exhaustive sweep of all condition skeletons of depth<=2 over two variables "
        "with 2-element domains; non-trivial = expected row set is a non-empty proper subset of the candidate rows "
        "(rows of the same query without conditions); distinct = canonical skeleton x variable sharing x domain-size "
        "signature x selection")
ASSUMPTIONS = ["row sets are compared (duplicates are C02's business)",
               "readings of exists/for_all as in DESIGN.md section 3; ambiguous constructs are not generated",
               "an exception raised by both the engine and the plain-Python reading counts as agreement"]
ANCHORS = ["AND._evaluate__", "Union._evaluate__", "ElseIf._evaluate__", "Not._evaluate__", "Comparator._evaluate__",
           "ForAll._evaluate__", "Exists._evaluate__", "Flatten._apply_mapping_", "optimize_or",
           "QueryObjectDescriptor.evaluate_selected_variables", "QueryObjectDescriptor.get_constrained_values"]

FAMILIES = [("core", 30), ("rich", 25), ("flat", 8), ("sub", 6), ("E1", 6), ("E2", 5), ("forall", 6),
            ("forall0", 3), ("msb", 6), ("msu", 2), ("core_ne", 5), ("fnfalsy", 1), ("forallz", 1), ("E2z", 1), ("porder", 4), ("scalar", 2), ("scalar0", 3), ("subscalar", 3), ("qnest", 10), ("qreuse", 2), ("qq", 3)]


def plan(tier):
    return {"cases": 24000 if tier == "quick" else 400000, "shards": 16, "case_timeout": 20,
            "shard_timeout": 3000, "min_nontrivial": 300 if tier == "quick" else 2000,
            "min_counters": {"rows_compared": 5000, "family:core": 100, "family:rich": 100, "family:flat": 50,
                             "family:forall": 50, "family:E2": 30, "family:sub": 30, "family:subscalar": 30,
                             "reevaluations_after_in_place_changes": 1500,
                             "cases_with_one_shot_collections_in_the_query": 300}}


def setup(ctx):
    from vlib import contracts, eqlmodel
    contracts.install_quantifier_contracts()
    ctx["m"] = eqlmodel


def recover(ctx):
    ctx["m"].reset_eql_process_state()


def gen_family(rng, fam):
    if fam == "core":
        return GEN.gen_core(rng, rich=False)
    if fam == "core_ne":
        return GEN.gen_core(rng, rich=True, allow_empty=False, max_depth=4)
    if fam == "rich":
        return GEN.gen_core(rng, rich=True)
    if fam == "flat":
        return GEN.gen_flatten(rng)
    if fam == "sub":
        return GEN.gen_subquery(rng)
    if fam in ("E1", "E2"):
        return GEN.gen_exists(rng, fam)
    if fam == "forall":
        return GEN.gen_forall(rng)
    if fam == "forall0":
        return GEN.gen_forall(rng, True)
    if fam == "porder":
        return GEN.gen_partial_order(rng)
    if fam == "scalar":
        return GEN.gen_scalar_vars(rng, falsy=False)
    if fam == "scalar0":
        return GEN.gen_scalar_vars(rng, falsy=True)
    if fam == "subscalar":
        return GEN.gen_scalar_subquery(rng)
    if fam == "fnfalsy":
        return GEN.gen_fnfalsy(rng)
    if fam == "forallz":
        return GEN.gen_forall(rng, falsy_lit=True)
    if fam == "E2z":
        return GEN.gen_exists(rng, "E2", falsy_lit=True)
    if fam == "qnest":
        return GEN.gen_quantifier_nest(rng)
    if fam == "qq":
        return GEN.gen_nested_quantifiers(rng)
    if fam == "qreuse":
        return GEN.gen_quantifier_nest(rng, reuse=True)
    if fam == "msb":
        return GEN.gen_multiselect(rng, True)
    if fam == "msu":
        return GEN.gen_multiselect(rng, False)
    raise ValueError(fam)


def gen(rng, tier, ctx):
    fams, weights = zip(*FAMILIES)
    fam = rng.choices(fams, weights)[0]
    spec = gen_family(rng, fam)
    spec["family"] = fam
    # one expression object per written term, or one shared object for all occurrences of the same term
    spec["share_terms"] = rng.random() < 0.3
    # a fifth of the cases are evaluated a second time after in-place changes of the world
    spec["again"] = rng.randrange(1, 10 ** 6) if rng.random() < 0.2 else None
    # collections written into the query (in_(x.a, [...])) are handed over as generators in a part of the cases
    spec["oneshot_literals"] = '["lit", [' in json.dumps(spec.get("cond")) and rng.random() < 0.4
    return spec


# ---------------------------------------------------------------- exhaustive sweep (thorough)
EXHAUSTIVE = True


def exhaustive(tier, ctx):
    """all condition skeletons up to depth 2 over atoms {x.a==0, y.a==0, x.a==y.b, x.b!=1} with two
    variables over fixed 2-element domains, every selection"""
    if tier != "thorough":
        return
    world = [{"cls": "P", "a": 0, "b": 1, "items": [], "kids": [], "ref": None, "d": {"k": 0}, "name": "o0"},
             {"cls": "P", "a": 1, "b": 0, "items": [1], "kids": [], "ref": None, "d": {"k": 1}, "name": "o1"},
             {"cls": "Q", "a": 0, "b": 0, "items": [0], "kids": [], "ref": None, "d": {"k": 2}, "name": "o2"}]
    atoms = [["cmp", "==", ["attr", ["var", "x"], "a"], ["lit", 0]],
             ["cmp", "==", ["attr", ["var", "y"], "a"], ["lit", 0]],
             ["cmp", "==", ["attr", ["var", "x"], "a"], ["attr", ["var", "y"], "b"]],
             ["cmp", "!=", ["attr", ["var", "x"], "b"], ["lit", 1]]]

    def trees(d):
        if d == 0:
            yield from atoms
            return
        sub = list(trees(d - 1))
        yield from sub
        for a in sub:
            yield ["not", a]
        for a in sub:
            for b in sub:
                yield ["and", a, b]
                yield ["or", a, b]

    seen = set()
    for c in trees(2):
        key = repr(c)
        if key in seen:
            continue
        seen.add(key)
        for sel in (["x"], ["y"], ["x", "y"]):
            yield {"world": world, "family": "sweep",
                   "vars": [{"name": "x", "type": "P", "dom": [0, 1], "kind": "list"},
                            {"name": "y", "type": "P", "dom": [1, 2], "kind": "list"}],
                   "derived": [], "cond": c, "select": [["var", n] for n in sel], "mode": "set_of"}


# ---------------------------------------------------------------- known-finding classification
def _pred_same_var_twice(c):
    k = c[0]
    if k == "pred":
        vs = [frozenset(G.term_vars(t)) for t in c[2]]
        vs = [v for v in vs if v]
        return any(a & b for i, a in enumerate(vs) for b in vs[i + 1:])
    if k == "cmp":
        return _term_fn_same(c[2]) or _term_fn_same(c[3])
    if k in ("in", "contains"):
        return _term_fn_same(c[1]) or _term_fn_same(c[2])
    if k == "truth":
        return _term_fn_same(c[1])
    if k in ("and", "or"):
        return _pred_same_var_twice(c[1]) or _pred_same_var_twice(c[2])
    if k == "not":
        return _pred_same_var_twice(c[1])
    if k in ("exists", "forall"):
        return _pred_same_var_twice(c[2])
    return False


def _term_fn_same(t):
    if t[0] == "fn":
        vs = [frozenset(G.term_vars(a)) for a in t[2].values()]
        vs = [v for v in vs if v]
        return any(a & b for i, a in enumerate(vs) for b in vs[i + 1:])
    if t[0] in ("attr", "idx"):
        return _term_fn_same(t[1])
    return False


def _falsy_operand(spec):
    """a symbolic function that may return a falsy value used as comparator operand, or a falsy literal inside
    the condition of an (effective) for_all, which is re-evaluated with the literal already bound"""

    def falsy_lit(t):
        return t[0] == "lit" and not t[1]

    def has_fn_falsy(t):
        if t[0] == "fn":
            return t[1] == "diff_ab"
        if t[0] in ("attr", "idx"):
            return has_fn_falsy(t[1])
        return False

    def walk(c, in_q):
        k = c[0]
        if k == "cmp":
            return has_fn_falsy(c[2]) or has_fn_falsy(c[3]) or (in_q and (falsy_lit(c[2]) or falsy_lit(c[3])))
        if k in ("in", "contains"):
            return has_fn_falsy(c[1]) or has_fn_falsy(c[2]) or (in_q and (falsy_lit(c[1]) or falsy_lit(c[2])))
        if k in ("and", "or"):
            return walk(c[1], in_q) or walk(c[2], in_q)
        if k == "not":
            return walk(c[1], in_q)
        if k in ("exists", "forall"):
            return walk(c[2], True)
        return False

    return bool(spec.get("cond")) and walk(spec["cond"], False)


def _quantifier_info(spec, m, objs):
    """-> (has_existential_with_free_vars, universal_or_existential_empty_range)"""
    info = {"exists_free": False, "empty_quantified_range": False, "neg_E1": False}
    base = {v["name"]: v for v in spec["vars"]}

    def rng_empty(name):
        v = base.get(name)
        if not v:
            return False
        T = getattr(m, v["type"])
        return not any(isinstance(objs[i], T) for i in v["dom"])

    def quantifier(k, c, negated, bound):
        # a negation written directly on a quantifier is rewritten: not exists -> for_all, not for_all -> exists
        eff = k if not negated else ("forall" if k == "exists" else "exists")
        free = G.closure_vars(G.cond_vars(c[2]), spec) - {c[1]}
        free = {n for n in free if n in base}
        # the de-duplication by the value of the quantified variable only loses something while another variable
        # of the condition is still unbound (one evaluation of the operator then stands for several bindings)
        if eff == "exists" and free - bound:
            info["exists_free"] = True
        if rng_empty(c[1]):
            info["empty_quantified_range"] = True
        if k == "exists" and negated and not free:
            info["neg_E1"] = True
        # for_all evaluates its condition once per value of its variable: the variable is bound there
        walk(["not", c[2]] if negated else c[2], bound | ({c[1]} if eff == "forall" else set()))

    def walk(c, bound):
        """bound: the variables that an earlier conjunct has surely bound when this node is evaluated"""
        k = c[0]
        if k in ("and", "or"):
            # a negation above and_ / or_ stays a Not node: the operands are evaluated as they are written
            walk(c[1], bound)
            walk(c[2], bound | (_surely_bound(c[1], spec) if k == "and" else set()))
        elif k == "not":
            if c[1][0] in ("exists", "forall"):
                quantifier(c[1][0], c[1], True, bound)
            elif c[1][0] == "not":
                walk(c[1][1], bound)        # a quantifier negated twice is rewritten twice
            else:
                walk(c[1], bound)
        elif k in ("exists", "forall"):
            quantifier(k, c, False, bound)

    if spec.get("cond"):
        walk(spec["cond"], set())
    return info


def _exists_leaves_variable_bound(spec):
    """an exists over v in the left operand of an and_ and another quantifier over the same v in its right operand: the
    witness the exists found stays in the bindings and the later quantifier ranges over that one value only (an or_
    hands the bindings of its left side on only when that side holds, and then does not evaluate its right side)"""
    found = []

    def walk(c, negated):
        """-> (variables of effective exists operators, variables of all quantifiers) below c"""
        k = c[0]
        if k in ("and", "or"):
            le, lq = walk(c[1], False)
            re_, rq = walk(c[2], False)
            if k == "and" and le & rq:
                found.append(le & rq)
            # an or_ hands the bindings of a left side that is false on to its right side: they hold the witness of an
            # exists that held inside that left side (not when the left side is the exists itself)
            if k == "or" and c[1][0] not in ("exists", "forall") and le & rq:
                found.append(le & rq)
            return le | re_, lq | rq
        if k == "not":
            if c[1][0] in ("exists", "forall"):
                return walk(c[1], not negated)
            return walk(c[1], False)
        if k in ("exists", "forall"):
            eff = k if not negated else ("forall" if k == "exists" else "exists")
            ie, iq = walk(c[2], False)
            return ie | ({c[1]} if eff == "exists" else set()), iq | {c[1]}
        return set(), set()

    if spec.get("cond"):
        walk(spec["cond"], False)
    return bool(found)


def _surely_bound(c, spec):
    k = c[0]
    if k == "and":
        return _surely_bound(c[1], spec) | _surely_bound(c[2], spec)
    if k == "or":
        return _surely_bound(c[1], spec) & _surely_bound(c[2], spec)
    if k == "not":
        # an atom binds its variables whether it is negated or not; connectives swap under the negation
        inner = c[1]
        if inner[0] == "and":
            return _surely_bound(["not", inner[1]], spec) & _surely_bound(["not", inner[2]], spec)
        if inner[0] == "or":
            return _surely_bound(["not", inner[1]], spec) | _surely_bound(["not", inner[2]], spec)
        if inner[0] == "not":
            return _surely_bound(inner[1], spec)
        if inner[0] in ("exists", "forall"):
            return set()
        return G.closure_vars(G.cond_vars(inner), spec)
    if k in ("exists", "forall"):
        return set()
    return G.closure_vars(G.cond_vars(c), spec)


def _unbound_multiselect(spec):
    bound = _surely_bound(spec["cond"], spec) if spec.get("cond") else set()
    cnt = Counter()
    for t in spec["select"]:
        for n in G.closure_vars(G.term_vars(t), spec):
            cnt[n] += 1
    return any(c > 1 and n not in bound for n, c in cnt.items())


def classify(spec, m, objs, got, exp, err):
    f = G.features(spec)
    qi = _quantifier_info(spec, m, objs)
    if err is not None:
        if isinstance(err, TypeError) and "NoneType" in str(err) and qi["empty_quantified_range"]:
            return "forall-empty-range"
        return None
    sg, se = set(got), set(exp)
    extra, missing = bool(sg - se), bool(se - sg)
    if extra and not missing:
        try:
            kle = set(G.oracle(spec, m, objs, mode="kleene"))
        except G.OracleError:
            kle = None
        if kle is not None and kle != se and sg <= kle:
            return "short-circuit-empty-domain"
        # the same mechanism below a not_ / as the left side of an or_: the operand about the variable without values
        # produces no result at all, its neighbour decides alone
        try:
            non = set(G.oracle(spec, m, objs, mode="nothing"))
        except G.OracleError:
            non = None
        if non is not None and non != se and sg <= non:
            return "short-circuit-empty-domain"
    if missing and G.empty_range_vars(spec, m, objs):
        # the same mechanism below a negation turns into missing rows: listed only when the reading in which the atoms
        # about a variable without values produce nothing predicts exactly what krrood returned
        for mode in ("nothing", "kleene"):
            try:
                counterfactual = set(G.oracle(spec, m, objs, mode=mode))
            except G.OracleError:
                continue
            if counterfactual != se and counterfactual == sg:
                return "short-circuit-empty-domain"
    if qi["exists_free"] and missing and not extra:
        return "exists-dedup"
    if _exists_leaves_variable_bound(spec):
        return "exists-leaves-its-variable-bound"
    if extra and not missing and _unbound_multiselect(spec):
        return "select-unbound-cross-product"
    for d in spec.get("derived", []):
        if d["kind"] == "sub" and d.get("cond") and d["cond"][0] == "truth" and extra and not missing:
            return "subquery-bare-truth-condition"
    if _falsy_operand(spec):
        return "falsy-operand-dropped"      # fixed in the repository: not listed as known, so this is a VIOLATION again
    return None


def run(spec, ctx):
    m = ctx["m"]
    C = ctx["counters"]
    fam = spec.get("family", "?")
    C["family:" + fam] += 1
    objs = G.make_world(spec, m)
    try:
        exp = G.oracle(spec, m, objs)
        oerr = None
    except G.OracleError as e:
        exp, oerr = None, e
    try:
        got, err = G.evaluate_real(spec, m, objs)
    except Exception as e:  # raised while building the query
        got, err = [], e
        recover(ctx)
    if oerr is not None:
        if err is not None:
            C["both_raise"] += 1
            return {"status": "ok", "nontrivial": False}
        C["oracle_only_raises"] += 1
        return {"status": "skip"}
    feats = G.features(spec)
    for k in ("union", "elseif", "not", "and", "exists", "forall", "union_under_not", "elseif_under_not"):
        if feats[k]:
            C["feat:" + k] += 1
    if err is None and set(got) == set(exp):
        C["rows_compared"] += len(got)
        C["cases_with_one_shot_collections_in_the_query"] += bool(spec.get("oneshot_literals"))
        cand = spec.get("_cand")
        if cand is None:
            s2 = dict(spec)
            s2["cond"] = None
            s2["derived"] = [dict(d, cond=None) if d["kind"] == "sub" else d for d in spec.get("derived", [])]
            try:
                cand = len(set(G.oracle(s2, m, objs)))
            except G.OracleError:
                cand = 0
        nontrivial = 0 < len(set(exp)) < cand
        if spec.get("again"):
            # the same query object once more after the objects it ranges over were changed IN PLACE (attributes
            # re-assigned, elements appended to / removed from the very list objects): it answers for the world as it is now
            problem = evaluate_again(spec, m, C, spec["again"])
            if problem is not None:
                return problem
        return {"status": "ok", "nontrivial": nontrivial, "shape": G.skeleton(spec),
                "obs": {"rows": len(got), "distinct_rows": len(set(got)), "candidates": cand}}
    key = classify(spec, m, objs, got, exp, err)
    if err is not None:
        kind = "exception:" + type(err).__name__
        detail = f"{type(err).__name__}: {err}"[:300]
    else:
        sg, se = set(got), set(exp)
        kind = ("extra" if sg - se else "") + ("+" if (sg - se and se - sg) else "") + ("missing" if se - sg else "")
        detail = f"extra={sorted(sg - se)[:4]} missing={sorted(se - sg)[:4]} expected={len(se)} got={len(sg)}"
    C["fail:" + (key or "UNEXPLAINED")] += 1
    return {"status": "fail", "kind": kind, "key": key, "detail": detail + " | " + G.skeleton(spec),
            "obs": {"got": sorted(set(got))[:10], "expected": sorted(set(exp))[:10]}}


def change_in_place(objs, seed):
    import random
    rng = random.Random(seed)
    for o in objs:
        r = rng.random()
        if r < 0.4 and o.items:
            o.items.pop(rng.randrange(len(o.items)))
        elif r < 0.8:
            o.items.append(rng.randint(0, 2))
        if rng.random() < 0.4:
            o.a = (o.a + 1) % 3
        if rng.random() < 0.3:
            o.b = (o.b + 1) % 3
        if rng.random() < 0.3:
            o.d["k"] = (o.d["k"] + 1) % 3
        if o.kids and rng.random() < 0.3:
            o.kids.pop()


def evaluate_again(spec, m, C, seed):
    objs = G.make_world(spec, m)
    try:
        got2, err2 = G.evaluate_again_after(spec, m, objs, lambda os_: change_in_place(os_, seed))
    except Exception as e:
        got2, err2 = [], e
    try:
        exp2 = G.oracle(spec, m, objs)        # the oracle reads the changed objects
    except G.OracleError:
        return None
    C["reevaluations_after_in_place_changes"] += 1
    if err2 is None and set(got2) == set(exp2):
        return None
    key = classify(spec, m, objs, got2, exp2, err2)
    if err2 is not None:
        kind, detail = "again:exception:" + type(err2).__name__, f"{type(err2).__name__}: {err2}"[:300]
    else:
        sg, se = set(got2), set(exp2)
        kind = "again:" + ("extra" if sg - se else "") + ("+" if (sg - se and se - sg) else "") + ("missing" if se - sg else "")
        detail = f"second evaluation after in-place changes: extra={sorted(sg - se)[:4]} missing={sorted(se - sg)[:4]} expected={len(se)} got={len(sg)}"
    C["fail:" + (key or "UNEXPLAINED")] += 1
    return {"status": "fail", "kind": kind, "key": key, "detail": detail + " | " + G.skeleton(spec)}


def _w(cond, select, vars_, derived=(), world=None, mode="set_of"):
    world = world or [{"cls": "P", "a": 0, "b": 1, "items": [1], "kids": [1], "ref": None, "d": {"k": 0}, "name": "o0"},
                      {"cls": "P", "a": 1, "b": 1, "items": [], "kids": [], "ref": None, "d": {"k": 1}, "name": "o1"},
                      {"cls": "P", "a": 1, "b": 0, "items": [0], "kids": [0, 1], "ref": None, "d": {"k": 1}, "name": "o2"}]
    return {"world": world, "vars": vars_, "derived": list(derived), "cond": cond, "select": select, "mode": mode,
            "family": "witness"}


def witnesses():
    X = {"name": "x", "type": "P", "dom": [0, 1], "kind": "list"}
    Y = {"name": "y", "type": "P", "dom": [1, 2], "kind": "list"}
    Y0 = {"name": "y", "type": "P", "dom": [], "kind": "list"}
    xa0 = ["cmp", "==", ["attr", ["var", "x"], "a"], ["lit", 0]]
    ya0 = ["cmp", "==", ["attr", ["var", "y"], "a"], ["lit", 0]]
    return {
        "one-shot-collection-drained-by-the-first-binding": dict(
            _w(["in", ["attr", ["var", "x"], "a"], ["lit", [0, 1]]], [["var", "x"], ["var", "y"]], [X, Y]), oneshot_literals=True),
        "neg-over-union": _w(["not", ["or", xa0, ya0]], [["var", "x"]], [X, Y]),
        "short-circuit-empty-domain": _w(["or", xa0, ya0], [["var", "x"]], [X, Y0]),
        "select-unbound-cross-product": _w(None, [["var", "x"], ["attr", ["var", "x"], "name"]], [X]),
        "exists-leaves-its-variable-bound": _w(["and", ["cmp", ">=", ["attr", ["var", "y"], "a"], ["lit", 0]],
                                                 ["and", ["exists", "x", ["cmp", "==", ["attr", ["var", "y"], "a"], ["attr", ["var", "x"], "a"]]],
                                                  ["forall", "x", ["cmp", "==", ["attr", ["var", "y"], "a"], ["attr", ["var", "x"], "a"]]]]],
                                                [["var", "y"]], [X, Y]),
        "empty-nested-query-silences-disjunction": _w(["or", ["cmp", "==", ["attr", ["var", "x"], "a"], ["attr", ["var", "s"], "a"]],
                                                         ["cmp", "==", ["attr", ["var", "x"], "b"], ["lit", 1]]],
                                                        [["var", "x"]], [X],
                                                        derived=[{"name": "s", "kind": "sub", "var": {"name": "w", "type": "P", "dom": [0, 1, 2], "kind": "list"},
                                                                  "cond": ["cmp", "==", ["attr", ["var", "w"], "a"], ["lit", 5]]}]),
        "exists-result-without-its-variable": _w(["and", ["cmp", ">=", ["attr", ["var", "y"], "a"], ["lit", 0]],
                                                   ["exists", "x", ["or", ["cmp", "==", ["attr", ["var", "y"], "b"], ["lit", 1]],
                                                                    ["cmp", "==", ["attr", ["var", "x"], "a"], ["lit", 1]]]]],
                                                  [["var", "y"]], [X, Y]),
        "forall-keeps-inner-witness": _w(["and", ["cmp", ">=", ["attr", ["var", "y"], "a"], ["lit", 0]],
                                           ["forall", "x", ["exists", "z", ["cmp", "!=", ["attr", ["var", "z"], "a"], ["attr", ["var", "x"], "a"]]]]],
                                          [["var", "y"]], [X, Y, {"name": "z", "type": "P", "dom": [0, 1], "kind": "list"}]),
        "forall-first-condition-result-only": _w(['forall', 'x', ['forall', 'x2', ['or', ['cmp', '==', ['attr', ['var', 'x'], 'a'], ['attr', ['var', 'x2'], 'a']], ['cmp', '!=', ['attr', ['var', 'y'], 'a'], ['attr', ['var', 'x2'], 'b']]]]],
                                                  [["var", "y"]], [{'name': 'x', 'type': 'P', 'dom': [0, 0], 'kind': 'list'}, {'name': 'y', 'type': 'P', 'dom': [2, 1], 'kind': 'list'}, {'name': 'x2', 'type': 'P', 'dom': [0, 1, 2], 'kind': 'list'}],
                                                  world=[{'cls': 'P', 'a': 0, 'b': 1, 'items': [0], 'kids': [], 'ref': 0, 'd': {'k': 0}, 'name': 'o0', 'f': '0.0', 'fs': [0, 1, 2]}, {'cls': 'Q', 'a': 1, 'b': 0, 'items': [1, 2, 0], 'kids': [], 'ref': 2, 'd': {'k': 1}, 'name': 'o1', 'f': 'nan', 'fs': [1]}, {'cls': 'Q', 'a': 0, 'b': 1, 'items': [], 'kids': [], 'ref': 2, 'd': {'k': 1}, 'name': 'o2', 'f': '0.0', 'fs': []}]),
        "forall-candidate-with-unbound-variable": _w(['forall', 'x', ['forall', 'x2', ['or', ['cmp', '==', ['attr', ['var', 'x'], 'a'], ['attr', ['var', 'x2'], 'a']], ['cmp', '!=', ['attr', ['var', 'y'], 'a'], ['attr', ['var', 'x2'], 'b']]]]],
                                                  [["var", "y"]], [{'name': 'x', 'type': 'P', 'dom': [0, 0], 'kind': 'list'}, {'name': 'y', 'type': 'P', 'dom': [2, 1], 'kind': 'list'}, {'name': 'x2', 'type': 'P', 'dom': [0, 1, 2], 'kind': 'list'}],
                                                  world=[{'cls': 'P', 'a': 0, 'b': 1, 'items': [0], 'kids': [], 'ref': 0, 'd': {'k': 0}, 'name': 'o0', 'f': '0.0', 'fs': [0, 1, 2]}, {'cls': 'Q', 'a': 1, 'b': 0, 'items': [1, 2, 0], 'kids': [], 'ref': 2, 'd': {'k': 1}, 'name': 'o1', 'f': 'nan', 'fs': [1]}, {'cls': 'Q', 'a': 0, 'b': 1, 'items': [], 'kids': [], 'ref': 2, 'd': {'k': 1}, 'name': 'o2', 'f': '0.0', 'fs': []}]),
        "quantifier-yields-nothing-when-false": _w(["and", ["cmp", ">=", ["attr", ["var", "y"], "a"], ["lit", 0]],
                                                    ["or", ["forall", "x", ["cmp", "<", ["attr", ["var", "y"], "a"], ["attr", ["var", "x"], "a"]]],
                                                     ["forall", "x", ["cmp", ">=", ["attr", ["var", "y"], "a"], ["attr", ["var", "x"], "a"]]]]],
                                                   [["var", "y"]], [X, Y]),
        "symbolic-call-argument-not-evaluated": _w(["cmp", "==", ["call", ["var", "x"], "m", [["attr", ["var", "y"], "a"]]], ["lit", 1]],
                                                   [["var", "x"], ["var", "y"]], [X, Y]),
        "symbolic-call-arguments-share-a-variable": dict(_w(['and', ['cmp', '<=', ['attr', ['var', 'y'], 'b'], ['attr', ['var', 'x'], 'a']], ['cmp', '==', ['call', ['var', 'y'], 'plus', [['attr', ['var', 'z'], 'a'], ['attr', ['var', 'z'], 'b']]], ['lit', 2]]],
            [['var', 'y'], ['var', 'z'], ['var', 'x']], [{'name': 'x', 'type': 'P', 'dom': [2, 1], 'kind': 'gen'}, {'name': 'y', 'type': 'P', 'dom': [0, 1], 'kind': 'list'}, {'name': 'z', 'type': 'Q', 'dom': [0, 2, 1], 'kind': 'list'}],
            world=[{'cls': 'Q', 'a': 1, 'b': 0, 'items': [1, 2, 2], 'kids': [], 'ref': None, 'd': {'k': 0}, 'name': 'o0', 'f': '2.5', 'fs': [0, 1, 2]}, {'cls': 'Q', 'a': 0, 'b': 1, 'items': [2], 'kids': [], 'ref': 0, 'd': {'k': 0}, 'name': 'o1', 'f': '-1.0', 'fs': [1, 2]}, {'cls': 'P', 'a': 0, 'b': 1, 'items': [1], 'kids': [2, 1], 'ref': 1, 'd': {'k': 0}, 'name': 'o2', 'f': '1.0', 'fs': [0, 1, 2]}], mode='set_of'), share_terms=False),
        "symbolic-index-key-not-evaluated": _w(["cmp", ">=", ["idx", ["attr", ["var", "x"], "d"], ["call", ["var", "y"], "key", []]], ["lit", 1]],
                                               [["var", "x"], ["var", "y"]], [X, Y]),
        "exists-dedup": _w(["exists", "x", ["cmp", "<=", ["attr", ["var", "x"], "a"], ["attr", ["var", "y"], "a"]]],
                           [["var", "y"]], [X, Y]),
        "forall-empty-range": _w(["forall", "y", ["cmp", "!=", ["attr", ["var", "x"], "a"], ["attr", ["var", "y"], "a"]]],
                                 [["var", "x"]], [X, Y0]),
        "forall-replays-first-predicate-result": _w(["forall", "x", ["pred", "BothPositive", [["var", "x"], ["var", "y"]]]],
                                                    [["var", "y"]], [dict(X, dom=[1, 0]), Y]),
        "predicate-same-var-twice": _w(["cmp", ">", ["fn", "sum_ab", {"x": ["var", "x"], "y": ["var", "x"]}], ["lit", 2]],
                                       [["var", "x"]], [dict(X, dom=[0, 1, 2])]),
        "falsy-operand-dropped": _w(
            ["forall", "y", ["and", ["cmp", ">=", ["attr", ["var", "y"], "b"], ["attr", ["var", "x"], "a"]],
                             ["cmp", ">=", ["attr", ["var", "x"], "b"], ["lit", 0]]]], [["var", "x"]], [X, Y]),
        "subquery-bare-truth-condition": _w(
            ["cmp", "<=", ["attr", ["var", "x"], "a"], ["attr", ["var", "s"], "b"]], [["var", "s"]], [X],
            derived=[{"name": "s", "kind": "sub", "var": {"name": "w", "type": "P", "dom": [0], "kind": "list"},
                      "cond": ["truth", ["attr", ["var", "w"], "a"]]}]),
    }
