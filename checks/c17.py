"""C17 - class diagrams mirror the Python classes and derived views leave them intact.

Reference-model monitor + contracts.  Generated dataclass models (forward references, random
declaration order, random sub-sets of classes in random order) are turned into ClassDiagrams; nodes,
inheritance edges, association edges and field classifications are compared with an independent
analysis based on typing.get_type_hints.  icontract snapshot/ensure contracts on the derived-view
and read-only operations assert that the diagram's (nodes, typed edges) are unchanged on return.
"""
from __future__ import annotations

import enum
import importlib
import os
import random
import shutil
import sys
import tempfile
import types
import typing
from datetime import datetime

from vlib import modelgen

ID = "C17"
LEVEL = "exploration"
RULE = ("random model sources (2-10 dataclasses; scalars, Optional, enum, datetime, lists of builtins, references, "
        "Optional references, List/Set of classes, self references, Type[...] fields, underscore fields; forward "
        "references through random declaration order), a random sub-set of the classes in random order as the diagram "
        "input, followed by a random sequence of read-only / derived-view operations.  Non-trivial = the diagram has at "
        "least one inheritance edge and one association edge; distinct = per-class shape signature x chosen sub-set "
        "pattern")
ASSUMPTIONS = ["classification flags compared: optional, container, enum, builtin, type-valued, and one-to-one / "
               "one-to-many for fields whose end point is a diagram class",
               "typing.get_type_hints with the module namespace is the independent reading of the annotations"]
ANCHORS = ["ClassDiagram._create_association_relations", "ClassDiagram._create_inheritance_relations",
           "WrappedField.resolved_type", "WrappedField.type_endpoint", "WrappedField.is_optional",
           "ClassDiagram.to_subdiagram_without_inherited_associations", "ClassDiagram._build_rxnode_tree"]

READ_OPS = ["subdiagram", "subdiagram_names", "rxtree", "rxtree_assoc", "ancestors", "assoc_keys", "out_edges", "parent_map",
            "neighbors", "role_takers", "associations", "inheritance"]


def plan(tier):
    return {"cases": 400 if tier == "quick" else 10000, "shards": 16, "case_timeout": 60, "shard_timeout": 3000,
            "min_nontrivial": 60,
            "min_counters": {"diagrams_built": 300, "fields_classified": 2500, "association_edges_checked": 600,
                             "inheritance_edges_checked": 200, "contract_evaluations": 1500, "fields_with_two_wrappers": 40, "same_name_in_two_modules_diagrams": 3}}


class Mutated(AssertionError):
    pass


EVALS = {"n": 0}


def graph_snapshot(self):
    """(nodes, typed edges) of a diagram through its public accessors"""
    nodes = sorted(w.clazz.__qualname__ for w in self.wrapped_classes)
    edges = sorted(("Inheritance", e.source.clazz.__qualname__, e.target.clazz.__qualname__, "") for e in self.inheritance_relations)
    edges += sorted((type(e).__name__, e.source.clazz.__qualname__, e.target.clazz.__qualname__, e.field.field.name) for e in self.associations)
    return nodes, edges


def query_snapshot(cd):
    """what the diagram's public query methods answer for every class (a derived view must not change these either)"""
    from krrood.class_diagrams.class_diagram import Association, Inheritance
    out = []
    for w in sorted(cd.wrapped_classes, key=lambda w: w.clazz.__qualname__):
        oe = sorted((type(e).__name__, e.target.clazz.__qualname__, getattr(getattr(e, "field", None), "field", None) and e.field.field.name or "")
                    for e in cd.get_out_edges(w.clazz))
        og = sorted((type(e).__name__, e.target.clazz.__qualname__) for e in cd.get_outgoing_relations(w.clazz))
        nb = sorted(n.clazz.__qualname__ for n in cd.get_outgoing_neighbors_with_relation_type(w.clazz, Association))
        inh = sorted(n.clazz.__qualname__ for n in cd.get_incoming_neighbors_with_relation_type(w.clazz, Inheritance))
        rt = cd.get_role_taker_associations_of_cls(w.clazz)
        out.append((w.clazz.__qualname__, oe, og, nb, inh, rt.field.field.name if rt else None))
    return out


def unchanged(self, OLD):
    EVALS["n"] += 1
    return graph_snapshot(self) == OLD.before


def setup(ctx):
    import icontract
    from krrood.class_diagrams.class_diagram import ClassDiagram
    wrapped = []
    for name in ("to_subdiagram_without_inherited_associations", "_build_rxnode_tree", "all_ancestors", "get_assoc_keys_by_source",
                 "get_out_edges", "get_outgoing_relations", "get_role_taker_associations_of_cls", "get_neighbors_with_relation_type",
                 "get_outgoing_neighbors_with_relation_type", "get_incoming_neighbors_with_relation_type"):
        f = ClassDiagram.__dict__.get(name)
        if f is None:
            continue
        inner = getattr(f, "__wrapped__", None)
        try:
            g = icontract.ensure(unchanged, error=Mutated)(f if inner is None else f)
            g = icontract.snapshot(graph_snapshot, name="before")(g)
            setattr(ClassDiagram, name, g)
            wrapped.append(name)
        except Exception:
            continue
    ctx["wrapped"] = wrapped
    ctx["workroot"] = tempfile.mkdtemp(prefix="verif-c17-")
    sys.path.insert(0, ctx["workroot"])


def finish(ctx):
    shutil.rmtree(ctx["workroot"], ignore_errors=True)
    return []


def gen(rng, tier, ctx):
    modname = f"dm_{rng.randrange(10 ** 9)}"
    profile = rng.choice(["diagram", "diagram", "big", "selflist"])
    src, spec = modelgen.gen_model(rng, modname, profile)
    names = [c["name"] for c in spec["classes"]]
    k = len(names) if rng.random() < 0.5 else rng.randint(1, len(names))
    subset = rng.sample(names, k)
    ops = [rng.choice(READ_OPS) for _ in range(rng.randint(1, 6))]
    split = rng.random() < 0.35
    if split and rng.random() < 0.6:
        # every class in the diagram: the names imported only under TYPE_CHECKING are resolved through it (else through
        # the loaded modules, however many of them a class names)
        subset = rng.sample(names, len(names))
    if rng.random() < 0.03:
        return {"handwritten": "same_name_in_two_modules", "order": rng.randrange(2)}
    return {"spec": spec, "subset": subset, "ops": ops, "arg": rng.randrange(1000), "split": split,
            "postponed": split or rng.random() < 0.6, "repeat": rng.randrange(100) if rng.random() < 0.15 else None,
            "view_first": rng.choice([None, None, 0, 1])}


def witnesses():
    cl = lambda name, parent, fields: {"name": name, "parent": parent, "fields": fields}
    f = lambda n, k, t=None: {"name": n, "kind": k, "target": t}
    spec = {"module": "dw_subdiagram", "order": ["K0", "K1", "K2"], "profile": "diagram", "classes": [
        cl("K0", None, [f("uid", "int"), f("f0_0", "list_ref", "K2")]), cl("K1", "K0", [f("f1_0", "int")]), cl("K2", None, [f("uid", "int")])]}
    two = {"module": "dw_twowrappers", "order": ["K0", "K1"], "profile": "diagram", "classes": [
        cl("K0", None, [f("uid", "int"), f("f0_0", "opt_list_ref", "K1"), f("f0_1", "list_opt_ref", "K1")]), cl("K1", None, [f("uid", "int")])]}
    dct = {"module": "dw_dict", "order": ["K0"], "profile": "diagram", "classes": [
        cl("K0", None, [f("uid", "int"), f("f0_0", "dict_str_int"), f("f0_1", "opt_dict_str_int")])]}
    return {"is-enum-raises-for-an-annotation-that-is-no-class": {"spec": dct, "subset": ["K0"], "ops": [], "arg": 0},
            "subdiagram-mutates-original": {"spec": spec, "subset": ["K0", "K1", "K2"], "ops": ["subdiagram"], "arg": 0},
            "same-name-in-two-modules-resolved-to-the-other-class": {"handwritten": "same_name_in_two_modules", "order": 0},
            "second-missing-name-not-looked-for": {"handwritten": "same_name_in_two_modules", "order": 1},
            "type-behind-two-wrappers-not-seen": {"spec": two, "subset": ["K0", "K1"], "ops": [], "arg": 0},
            "class-listed-twice-is-two-nodes": {"spec": spec, "subset": ["K0", "K1", "K2"], "ops": ["subdiagram"], "arg": 0, "repeat": 0}}


def independent_analysis(mod, classes):
    """-> nodes, inheritance pairs, associations {(src, field): target}, classification per (cls, field)"""
    import dataclasses
    inset = set(classes)
    inherit = {(b.__name__, c.__name__) for c in classes for b in c.__bases__ if b in inset}
    assoc, flags = {}, {}
    for c in classes:
        hints = typing.get_type_hints(c, globalns=vars(mod))
        for f in dataclasses.fields(c):
            if f.name.startswith("_"):
                continue
            t = hints[f.name]
            origin, args = typing.get_origin(t), typing.get_args(t)
            def opt(tt):
                o, a = typing.get_origin(tt), typing.get_args(tt)
                return o in (typing.Union, types.UnionType) and len(a) == 2 and type(None) in a

            optional = opt(t)
            end = t
            if optional:
                end = [a for a in args if a is not type(None)][0]
            # seen through Optional AND container wrappers: Optional[List[X]], List[Optional[X]]
            container = typing.get_origin(end) in (list, set, tuple)
            type_valued = typing.get_origin(end) is type
            if container or type_valued:
                end = typing.get_args(end)[0]
                if container and opt(end):
                    end = [a for a in typing.get_args(end) if a is not type(None)][0]
            C_two = optional and container
            is_enum = (not container) and isinstance(end, type) and issubclass(end, enum.Enum) and not type_valued
            builtin = end in (int, float, str, bool, datetime, type(None))
            fl = {"optional": optional, "container": container or type_valued, "enum": is_enum, "builtin": builtin,
                  "type_valued": type_valued}
            # a collection of plain values (one column holds it): every element type - seen through an Optional, whatever
            # the length of a tuple - is a builtin class (or uuid.UUID, which krrood counts among them)
            inner = t if not optional else [a for a in args if a is not type(None)][0]
            elems = [([x for x in typing.get_args(a) if x is not type(None)][0] if opt(a) else a)
                     for a in typing.get_args(inner) if a is not Ellipsis]
            fl["collection_of_builtins"] = bool(container and elems and all(isinstance(e, type) and (e.__module__ == "builtins" or e.__name__ == "UUID" and e.__module__ == "uuid") for e in elems))
            if end in inset:
                assoc[(c.__name__, f.name)] = end.__name__
                fl["one_to_one"] = not (container or type_valued)
                fl["one_to_many"] = container
            fl["_two_wrappers"] = C_two or (container and opt(typing.get_args(t if not optional else [a for a in args if a is not type(None)][0])[0]))
            flags[(c.__name__, f.name)] = fl
    return inherit, assoc, flags


TWIN_SOURCES = {
    "c17_shop": """
from __future__ import annotations
from dataclasses import dataclass
from typing import List, Optional, Tuple, TYPE_CHECKING
if TYPE_CHECKING:
    from c17_warehouse import Shelf
    from c17_geometry import Position, Orientation


@dataclass
class Item:
    price: int = 0


@dataclass
class Pose:
    position: Position = None
    orientation: Optional[Orientation] = None
    pair: Tuple[Position, Orientation] = None


@dataclass
class Kit:
    '''names a class of its own body and a class it imports only under TYPE_CHECKING'''

    @dataclass
    class Part:
        n: int = 0

    part: Part = None
    shelf: Optional[Shelf] = None


@dataclass
class Cart:
    item: Item = None
    items: List[Item] = None
    shelf: Optional[Shelf] = None
""",
    "c17_geometry": """
from dataclasses import dataclass


@dataclass
class Position:
    x: float = 0.0


@dataclass
class Orientation:
    w: float = 1.0
""",
    "c17_depot": """
from __future__ import annotations
from dataclasses import dataclass
from typing import Optional, TYPE_CHECKING
from c17_shop import Cart
if TYPE_CHECKING:
    from c17_warehouse import Shelf


@dataclass
class DepotCart(Cart):
    '''inherits fields that name Item - the Item of the module of Cart, this module does not define one'''
    second_shelf: Optional[Shelf] = None
""",
    "c17_warehouse": """
from __future__ import annotations
from dataclasses import dataclass


@dataclass
class Part:
    '''unrelated to the class of that name inside c17_shop.Kit'''
    code: int = 0


@dataclass
class Item:
    weight: int = 0


@dataclass
class Shelf:
    item: Item = None
""",
}


def run_same_name_in_two_modules(case, ctx):
    """two modules that each define a class `Item`; a class that also names a class it imports only under TYPE_CHECKING
    (so that its annotations need the fallback resolution): every field refers to the Item of its own module"""
    from krrood.class_diagrams.class_diagram import ClassDiagram
    C = ctx["counters"]
    mods = {}
    for name, src in TWIN_SOURCES.items():
        if name not in sys.modules:
            m = types.ModuleType(name)
            sys.modules[name] = m
            exec(src, m.__dict__)
        mods[name] = sys.modules[name]
    shop, wh = mods["c17_shop"], mods["c17_warehouse"]
    geo, depot = mods["c17_geometry"], mods["c17_depot"]
    # Pose names two classes that are neither defined in its module nor part of the diagram
    classes = [shop.Item, wh.Item, wh.Shelf, shop.Cart, shop.Pose, depot.DepotCart, wh.Part, shop.Kit]
    if case.get("order"):
        classes = [shop.Kit, wh.Part, shop.Item, wh.Item, depot.DepotCart, shop.Pose, wh.Shelf, shop.Cart]
    got = {}
    for with_pose in (False, True):
        try:
            cd = ClassDiagram([c for c in classes if with_pose or c is not shop.Pose])
            got.update({(w.clazz.__module__, w.clazz.__name__, f.field.name): f.type_endpoint for w in cd.wrapped_classes for f in w.fields})
        except Exception as e:
            return {"status": "fail", "kind": "construction:" + type(e).__name__, "key": None,
                    "detail": ("a class that names two classes outside its module and outside the diagram" if with_pose else
                               "classes of the same name in two modules") + f": {type(e).__name__}: {e}"[:300]}
    C["same_name_in_two_modules_diagrams"] += 1
    want = {("c17_shop", "Cart", "item"): shop.Item, ("c17_shop", "Cart", "items"): shop.Item, ("c17_shop", "Cart", "shelf"): wh.Shelf,
            ("c17_warehouse", "Shelf", "item"): wh.Item, ("c17_shop", "Pose", "position"): geo.Position,
            ("c17_shop", "Pose", "orientation"): geo.Orientation, ("c17_shop", "Pose", "pair"): geo.Position,
            ("c17_depot", "DepotCart", "item"): shop.Item, ("c17_depot", "DepotCart", "items"): shop.Item,
            ("c17_depot", "DepotCart", "second_shelf"): wh.Shelf, ("c17_shop", "Kit", "part"): shop.Kit.Part,
            ("c17_shop", "Kit", "shelf"): wh.Shelf}
    wrong = {k: (got.get(k), v) for k, v in want.items() if got.get(k) is not v}
    if wrong:
        return {"status": "fail", "kind": "diagram", "key": None,
                "detail": "; ".join(f"{k[1]}.{k[2]} (module {k[0]}) refers to {g!r}, its annotation names {v!r}" for k, (g, v) in wrong.items())[:500]}
    return {"status": "ok", "nontrivial": True, "shape": "handwritten:same_name_in_two_modules:" + str(case.get("order"))}


def run(case, ctx):
    from krrood.class_diagrams.class_diagram import ClassDiagram, Association, Inheritance
    from krrood.class_diagrams import wrapped_field as WF
    C = ctx["counters"]
    # the look-up of a class by its bare name in the loaded modules is remembered per name: every case has modules of
    # its own with classes K0, K1, ...
    WF.manually_search_for_class_name.cache_clear()
    if case.get("handwritten") == "same_name_in_two_modules":
        return run_same_name_in_two_modules(case, ctx)
    spec = case["spec"]
    modname = spec["module"]
    loaded = []
    if case.get("split"):
        sources = modelgen.render_split(spec)
        for mn, src in sources.items():
            with open(os.path.join(ctx["workroot"], mn + ".py"), "w") as fh:
                fh.write(src)
        mods = {mn: importlib.import_module(mn) for mn in sources}
        loaded = list(sources)
        for mn in sources:
            os.unlink(os.path.join(ctx["workroot"], mn + ".py"))
        mod = types.ModuleType(modname)
        for mm in mods.values():
            for k_, v_ in vars(mm).items():
                if not k_.startswith("__"):
                    setattr(mod, k_, v_)
        C["split_module_models"] += 1
    else:
        path = os.path.join(ctx["workroot"], modname + ".py")
        with open(path, "w") as fh:
            fh.write(modelgen.render(spec, postponed=case.get("postponed", True)))
        if not case.get("postponed", True):
            C["evaluated_annotation_models"] += 1
        try:
            mod = importlib.import_module(modname)
        finally:
            os.unlink(path)
        loaded = [modname]
    try:
        classes = [getattr(mod, n) for n in case["subset"]]
        if case.get("repeat") is not None and classes:
            # the same class listed a second time is still one class
            classes.append(classes[case["repeat"] % len(classes)])
            C["class_lists_with_a_repeated_class"] += 1
        kinds = {f["kind"] for c in spec["classes"] for f in c["fields"]}
        try:
            cd = ClassDiagram(list(classes))
            # force field discovery for all classes
            for wc in cd.wrapped_classes:
                wc.fields
        except Exception as e:
            return {"status": "fail", "kind": "construction:" + type(e).__name__, "key": None,
                    "detail": f"{type(e).__name__}: {e}"[:300]}
        C["diagrams_built"] += 1
        problems = []
        if case.get("view_first") is not None:
            # a derived view is built and queried before the diagram itself is asked anything: what the view answers
            # must not become what the diagram answers (the accessors of the diagram are compared with the independent
            # analysis below)
            try:
                early_view = cd.to_subdiagram_without_inherited_associations(bool(case["view_first"]))
                query_snapshot(early_view)
                C["views_queried_before_their_source"] += 1
            except Exception as e:
                problems.append(f"deriving and querying a view raised {type(e).__name__}: {e}"[:200])
        classes = list(dict.fromkeys(classes))         # one node per class, however often it is listed
        inherit, assoc, flags = independent_analysis(mod, classes)
        nodes = sorted(w.clazz.__name__ for w in cd.wrapped_classes)
        if nodes != sorted(c.__name__ for c in classes):
            problems.append(f"nodes {nodes} != classes {sorted(c.__name__ for c in classes)}")
        got_inh = {(e.source.clazz.__name__, e.target.clazz.__name__) for e in cd.inheritance_relations}
        C["inheritance_edges_checked"] += len(inherit)
        if got_inh != inherit or len(cd.inheritance_relations) != len(inherit):
            problems.append(f"inheritance edges {sorted(got_inh)} != direct-base pairs {sorted(inherit)}")
        # associations: every class sees its own and its inherited dataclass fields
        exp_assoc = {}
        for c in classes:
            for (owner, fname), tgt in assoc.items():
                if owner == c.__name__:
                    exp_assoc[(c.__name__, fname)] = tgt
        got_assoc = {}
        dup = 0
        for e in cd.associations:
            k = (e.source.clazz.__name__, e.field.field.name)
            if k in got_assoc:
                dup += 1
            got_assoc[k] = e.target.clazz.__name__
        C["association_edges_checked"] += len(exp_assoc)
        if got_assoc != exp_assoc or dup:
            miss = {k: v for k, v in exp_assoc.items() if got_assoc.get(k) != v}
            extra = {k: v for k, v in got_assoc.items() if exp_assoc.get(k) != v}
            problems.append(f"association edges differ: missing/wrong {dict(list(miss.items())[:4])} extra {dict(list(extra.items())[:4])} duplicates {dup}")
        # the derived accessors answer from every edge (two classes can be connected by several edges: a field typed
        # with a subclass of its own class, two fields with the same target)
        try:
            name_of_index = {w.index: w.clazz.__name__ for w in cd.wrapped_classes}
            got_parents = {(name_of_index[p_], name_of_index[c_]) for c_, ps in cd.parent_map.items() for p_ in ps}
            if got_parents != inherit:
                problems.append(f"parent_map gives {sorted(got_parents)} for the direct-base pairs {sorted(inherit)}")
            keys = cd.get_assoc_keys_by_source(include_field_name=True)
            for w in cd.wrapped_classes:
                exp_fields = {fn for (owner, fn) in exp_assoc if owner == w.clazz.__name__}
                got_fields = {k_[2] if len(k_) > 2 else None for k_ in keys.get(w.index, set())}
                if exp_fields != got_fields and None not in got_fields:
                    problems.append(f"get_assoc_keys_by_source(True) lists the fields {sorted(map(str, got_fields))} for {w.clazz.__name__}, "
                                    f"its association fields are {sorted(exp_fields)}")
                got_out = sorted(e.field.field.name for e in cd.get_outgoing_relations(w.clazz) if isinstance(e, Association))
                if got_out != sorted(exp_fields):
                    problems.append(f"get_outgoing_relations({w.clazz.__name__}) has association edges for the fields {got_out}, "
                                    f"its association fields are {sorted(exp_fields)}")
                exp_nb = ({p_ for p_, c_ in inherit if c_ == w.clazz.__name__} | {c_ for p_, c_ in inherit if p_ == w.clazz.__name__})
                got_nb = {n.clazz.__name__ for n in cd.get_neighbors_with_relation_type(w.clazz, Inheritance)}
                if exp_nb != got_nb:
                    problems.append(f"inheritance neighbours of {w.clazz.__name__}: {sorted(got_nb)} != {sorted(exp_nb)}")
            C["derived_accessor_checks"] += 1
        except Exception as e:
            C["derived_accessors_unavailable:" + type(e).__name__] += 1
        for wc in cd.wrapped_classes:
            for wf in wc.fields:
                k = (wc.clazz.__name__, wf.field.name)
                fl = flags.get(k)
                if fl is None:
                    problems.append(f"diagram lists field {k} which is not a public dataclass field")
                    continue
                fl = dict(fl)
                C["fields_with_two_wrappers"] += bool(fl.pop("_two_wrappers", False))
                C["fields_classified"] += 1
                try:
                    got = {"optional": bool(wf.is_optional), "container": bool(wf.is_container), "enum": bool(wf.is_enum),
                           "builtin": bool(wf.is_builtin_type), "type_valued": bool(wf.is_type_type),
                           "collection_of_builtins": bool(wf.is_collection_of_builtins)}
                    if "one_to_one" in fl:
                        got["one_to_one"] = bool(wf.is_one_to_one_relationship)
                        got["one_to_many"] = bool(wf.is_one_to_many_relationship and not wf.is_type_type)
                except Exception as e:
                    problems.append(f"classifying {k} raised {type(e).__name__}: {e}"[:200])
                    continue
                if got != fl:
                    problems.append(f"{k}: classified {got}, annotation says {fl}")
            missing_fields = {k for k in flags if k[0] == wc.clazz.__name__} - {(wc.clazz.__name__, wf.field.name) for wf in wc.fields}
            if missing_fields:
                problems.append(f"diagram lacks fields {sorted(missing_fields)[:4]}")
        # read-only / derived-view operations under contracts
        before = graph_snapshot(cd)
        qbefore = query_snapshot(cd)
        evals0 = EVALS["n"]
        wcs = cd.wrapped_classes
        try:
            for op in case["ops"]:
                w = wcs[case["arg"] % len(wcs)]
                if op in ("subdiagram", "subdiagram_names"):
                    sub = cd.to_subdiagram_without_inherited_associations(op == "subdiagram_names")
                    if sub is cd:
                        problems.append("to_subdiagram_without_inherited_associations returned the diagram itself")
                    # use the derived view: its answers must not leak into the diagram it was derived from
                    query_snapshot(sub)
                    C["derived_views_queried"] += 1
                elif op in ("rxtree", "rxtree_assoc"):
                    try:
                        cd._build_rxnode_tree(op == "rxtree_assoc")
                        C["rxtree_built"] += 1
                    except Mutated:
                        raise
                    except Exception as e:
                        # the rustworkx_utils version of this environment has another RWXNode signature
                        C["rxtree_unavailable:" + type(e).__name__] += 1
                elif op == "ancestors":
                    cd.all_ancestors(w.index)
                elif op == "assoc_keys":
                    cd.get_assoc_keys_by_source(True)
                elif op == "out_edges":
                    cd.get_out_edges(w.clazz)
                    list(cd.get_outgoing_relations(w.clazz))
                elif op == "parent_map":
                    cd.parent_map
                elif op == "neighbors":
                    cd.get_neighbors_with_relation_type(w.clazz, Association)
                    cd.get_outgoing_neighbors_with_relation_type(w.clazz, Inheritance)
                    cd.get_incoming_neighbors_with_relation_type(w.clazz, Inheritance)
                elif op == "role_takers":
                    cd.get_role_taker_associations_of_cls(w.clazz)
                elif op == "associations":
                    cd.associations
                elif op == "inheritance":
                    cd.inheritance_relations
        except Mutated as e:
            problems.append(f"contract: a read-only operation changed the diagram ({str(e)[:160]})")
        except ImportError:
            C["rxtree_unavailable"] += 1
        except Exception as e:
            problems.append(f"read-only operation {op} raised {type(e).__name__}: {e}"[:200])
        C["contract_evaluations"] += EVALS["n"] - evals0
        after = graph_snapshot(cd)
        qafter = query_snapshot(cd)
        if qafter != qbefore:
            diff = [(a[0]) for a, b in zip(qbefore, qafter) if a != b]
            problems.append(f"answers of the diagram's query methods changed after read-only operations {case['ops']} for classes {diff[:4]}")
        if after != before:
            lost = [e for e in before[1] if e not in after[1]]
            problems.append(f"diagram changed by read-only operations {case['ops']}: lost edges {lost[:4]}")
        key = None
        if problems and all(("contract" in p or "changed by read-only" in p or "query methods changed" in p) for p in problems) and \
                any(o.startswith("subdiagram") for o in case["ops"]):
            key = "subdiagram-mutates-original"
        if problems:
            return {"status": "fail", "kind": "diagram", "key": key, "detail": "; ".join(problems[:3])[:900]}
        return {"status": "ok", "nontrivial": bool(inherit) and bool(exp_assoc),
                "shape": modelgen.shape_signature(spec) + "|" + ("all" if len(classes) == len(spec["classes"]) else f"sub{len(classes)}"),
                "obs": {"nodes": len(nodes), "inheritance": len(inherit), "associations": len(exp_assoc)}}
    finally:
        for mn in loaded:
            sys.modules.pop(mn, None)


def parent_extra(tier):
    """thorough tier: the repository's own tests run once more with the harness contracts installed"""
    if tier != "thorough":
        return [], {}
    from vlib import pytest_contracts
    rep = pytest_contracts.run_repo_tests_under_contracts()
    if "error" in rep:
        raise RuntimeError(rep["error"][-200:])
    counters = {"repo_tests_under_contracts": rep.get("tests", 0)}
    for k, v in rep.get("contract_evaluations", {}).items():
        counters["repo_tests_contract_evals:" + k] = v
    fails = [{"idx": "repo-test:" + b["test"], "spec": {"repo_test": b["test"]}, "kind": "contract-in-repository-test",
              "key": None, "detail": b["what"][-400:]} for b in rep.get("broken", [])
             if ("Mutated" in b["what"])]
    return fails, counters
