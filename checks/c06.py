"""C06 - ORMatic produces a valid, complete SQLAlchemy layer for every supported model.

Each case is a freshly generated dataclass model (source text over the documented grammar) that is
handled in its own subprocess: ORMatic generates the interface from the current tree, the module is
imported, mappers are configured, the schema is created, and the mapper facts (DAO per class, base,
columns, relationships) are compared with the expectations derived from the model spec.
Determinism: the same input generated in a second process under another PYTHONHASHSEED must give a
byte-identical file; a permuted class list must give the same mapper-level content.
"""
from __future__ import annotations

import json
import os
import shutil
import subprocess
import sys
import tempfile

from vlib import common, modelgen

ID = "C06"
LEVEL = "exploration"
RULE = ("random model sources: 2-10 dataclasses, fields drawn from {int, str, float, bool, Optional scalars, enum, "
        "Optional enum, datetime, List[str], List[int], reference, Optional reference, List / Set of mapped classes, "
        "Optional self reference, Type[...] fields, underscore fields}, single and multi-level inheritance, mutual "
        "references, several collections of one target, classes without scalar fields, random declaration order "
        "(forward references); one subprocess per model.  Non-trivial = the model has inheritance and at least one "
        "relationship; distinct = multiset of per-class shape signatures")
ASSUMPTIONS = ["only constructs the docs call supported are generated (no unions other than Optional, no optional or "
               "nested collections, no field named database_id / polymorphic_type)",
               "determinism = byte equality for the same input under two PYTHONHASHSEEDs; for a permuted class list "
               "only the mapper-level content has to be equal"]
ANCHORS = ["WrappedTable.parse_field", "WrappedTable.fields", "WrappedTable.parent_table",
           "WrappedTable.create_one_to_one_relationship", "WrappedTable.create_one_to_many_relationship",
           "ORMatic.make_all_tables", "SQLAlchemyGenerator.to_sqlalchemy_file"]


def plan(tier):
    return {"cases": 64 if tier == "quick" else 900, "shards": 16, "case_timeout": 300, "shard_timeout": 3000,
            "dev_shard": False, "min_nontrivial": 10,
            "min_counters": {"models_generated": 40, "daos_checked": 150, "columns_checked": 300,
                             "relationships_checked": 100, "determinism_pairs": 40, "permuted_pairs": 20,
                             "models_with_the_enum_in_a_module_of_its_own": 8, "models_with_the_enum_inside_another_class": 4}}


def setup(ctx):
    ctx["workroot"] = tempfile.mkdtemp(prefix="verif-c06-")


def finish(ctx):
    shutil.rmtree(ctx["workroot"], ignore_errors=True)
    return []


def gen(rng, tier, ctx):
    profile = rng.choices(["orm", "big", "selflist", "nouid"], [70, 15, 5, 10])[0]
    modname = f"gm_{rng.randrange(10 ** 9)}"
    src, spec = modelgen.gen_model(rng, modname, "orm" if profile == "nouid" else profile)
    if profile == "nouid":
        # a model without any builtin-typed public field
        for c in spec["classes"]:
            c["fields"] = [f for f in c["fields"] if f["kind"] in ("opt_ref", "list_ref", "self_opt", "enum", "private") and f["name"] != "uid"]
            for f in c["fields"]:
                if f["kind"] == "private":
                    f["kind"] = "enum"
                    f["name"] = f["name"].lstrip("_") + "e"
        src = modelgen.render(spec)
    perm = list(spec["order"])
    rng.shuffle(perm)
    if rng.random() < 0.3:
        spec["enum_module"] = True
    elif rng.random() < 0.25:
        spec["enum_nested"] = True
    return {"spec": spec, "perm": perm, "profile": profile}


def witnesses():
    cl = lambda name, parent, fields: {"name": name, "parent": parent, "fields": fields}
    f = lambda n, k, t=None: {"name": n, "kind": k, "target": t}
    return {
        "second-ormatic-over-the-same-diagram": {"handwritten": True},
        "self-list-duplicate-association-column": {"profile": "selflist", "perm": ["K0", "K1"], "spec": {
            "module": "gw_selflist", "order": ["K0", "K1"], "profile": "selflist", "classes": [
                cl("K0", None, [f("uid", "int"), f("f0_0", "self_list", "K0")]), cl("K1", None, [f("uid", "int")])]}},
        "unmapped-intermediate-parent-order": {"profile": "orm", "perm": ["K1", "K0"], "spec": {
            "module": "gw_unmapped", "order": ["K1", "K0"], "profile": "orm", "classes": [
                cl("K0", None, [f("uid", "int")]), dict(cl("U1", "K0", [f("u1_0", "int")]), unmapped=True),
                cl("K1", "U1", [f("f1_0", "str")])]}},
        "no-builtin-field-unresolved-builtins": {"profile": "nouid", "perm": ["K1", "K0"], "spec": {
            "module": "gw_nobuiltin", "order": ["K0", "K1"], "profile": "orm", "classes": [
                cl("K0", None, [f("f0_0", "opt_ref", "K1")]), cl("K1", None, [f("f1_0", "enum")])]}},
        "nested-enum-referenced-by-bare-name": {"profile": "orm", "perm": ["K0"], "spec": {
            "module": "gw_nestedenum", "order": ["K0"], "profile": "orm", "enum_nested": True, "classes": [
                cl("K0", None, [f("uid", "int"), f("f0_0", "enum"), f("f0_1", "opt_enum")])]}},
    }


def run_driver(workdir, modname, order, hashseed, mode="gen", extra=()):
    env = dict(os.environ)
    pp = [common.VERIF]
    if common.krrood_src() != "/repo/src":
        pp.append(common.krrood_src())
    env["PYTHONPATH"] = os.pathsep.join(pp)
    env["PYTHONHASHSEED"] = str(hashseed)
    env["PYTHONDONTWRITEBYTECODE"] = "1"
    try:
        r = subprocess.run([common.PY, "-X", "faulthandler", "-m", "vlib.orm_driver", workdir, modname, json.dumps(order), mode, *map(str, extra)],
                           cwd=common.VERIF, env=env, capture_output=True, text=True, timeout=240)
    except subprocess.TimeoutExpired:
        return {"stage": "timeout", "error": "driver timeout"}
    lines = [l for l in r.stdout.splitlines() if l.startswith("{")]
    if not lines:
        return {"stage": "crash", "error": (r.stderr or r.stdout)[-600:]}
    return json.loads(lines[-1])


def expected_facts(spec):
    by = {c["name"]: c for c in spec["classes"]}
    exp = {}
    for c in spec["classes"]:
        if c.get("unmapped"):
            continue
        chain, cur = [], c
        while cur:
            chain.append(cur)
            cur = by[cur["parent"]] if cur["parent"] else None
        cols, rels, private = set(), {}, set()
        for k in chain:
            for f in k["fields"]:
                kind = f["kind"]
                if kind == "private":
                    private.add(f["name"])
                elif kind in ("ref", "opt_ref", "self_opt"):
                    rels[f["name"]] = {"uselist": False, "target": f["target"] + "DAO"}
                    cols.add(f["name"] + "_id")
                elif kind in ("list_ref", "set_ref", "self_list"):
                    rels[f["name"]] = {"uselist": True, "target": f["target"] + "DAO"}
                else:
                    cols.add(f["name"])
        mapped_parent = next((k["name"] for k in chain[1:] if not k.get("unmapped")), None)
        exp[c["name"] + "DAO"] = {"original": c["name"], "base": (mapped_parent + "DAO") if mapped_parent else "Base",
                                  "columns": cols, "relationships": rels, "private": private}
    return exp


def compare(spec, facts, C):
    problems = []
    exp = expected_facts(spec)
    if set(exp) != set(facts):
        problems.append(f"DAO classes {sorted(set(facts))} != expected {sorted(set(exp))}")
    for dao, e in exp.items():
        a = facts.get(dao)
        if not a:
            continue
        C["daos_checked"] += 1
        if a["original"] != e["original"]:
            problems.append(f"{dao} maps {a['original']}, expected {e['original']}")
        if a["base"] != e["base"]:
            problems.append(f"{dao} derives from {a['base']}, expected {e['base']}")
        acols = set(a["columns"])
        C["columns_checked"] += len(e["columns"])
        if not e["columns"] <= acols:
            problems.append(f"{dao} lacks columns {sorted(e['columns'] - acols)}")
        extra = {c for c in acols - e["columns"] if c not in ("database_id", "polymorphic_type")}
        if extra:
            problems.append(f"{dao} has unexpected columns {sorted(extra)}")
        for p in e["private"]:
            if p in acols or p.lstrip("_") in acols or p in a["relationships"]:
                problems.append(f"{dao} persists underscore field {p}")
        C["relationships_checked"] += len(e["relationships"])
        arels = {k: {"uselist": v["uselist"], "target": v["target"]} for k, v in a["relationships"].items()}
        if arels != e["relationships"]:
            problems.append(f"{dao} relationships {arels} != expected {e['relationships']}")
    return problems


def run_handwritten(ctx):
    """the hand-written model of C04 / C05 (alternative mappings, a custom column type, a frozen class): generation
    works, is the same in another process under another hash seed, and - inside the driver - the same for a second
    ORMatic over the same ClassDiagram object"""
    from models import ormmodel_spec
    C = ctx["counters"]
    order = ormmodel_spec.SPEC["order"]
    problems = []
    shas = []
    for hashseed in (0, 4242):
        wd = tempfile.mkdtemp(prefix="handwritten-", dir=ctx["workroot"])
        try:
            out = run_driver(wd, "models.ormmodel", order, hashseed)
        finally:
            shutil.rmtree(wd, ignore_errors=True)
        C["handwritten_model_generations"] += 1
        if out.get("stage") != "done":
            return {"status": "fail", "kind": "pipeline:" + str(out.get("stage")), "key": None,
                    "detail": f"hand-written model: stage={out.get('stage')} {out.get('error')}"[:700]}
        if out.get("second_generation_in_process_equal") is False:
            problems.append("a second generation in the same process differs: " + str(out.get("second_generation_diff"))[:300])
        shas.append(out["iface_sha"])
    if len(set(shas)) != 1:
        problems.append("generation of the hand-written model is not deterministic across PYTHONHASHSEEDs")
    if problems:
        return {"status": "fail", "kind": "generated-layer", "key": None, "detail": "; ".join(problems)[:900]}
    return {"status": "ok", "nontrivial": True, "shape": "handwritten"}


def run(spec_case, ctx):
    C = ctx["counters"]
    if spec_case.get("handwritten"):
        return run_handwritten(ctx)
    spec = spec_case["spec"]
    modname = spec["module"]
    workdir = tempfile.mkdtemp(prefix=modname + "-", dir=ctx["workroot"])
    try:
        with open(os.path.join(workdir, modname + ".py"), "w") as fh:
            fh.write(modelgen.render(spec))
        if spec.get("enum_module"):
            with open(os.path.join(workdir, modname + "_enum.py"), "w") as fh:
                fh.write(modelgen.ENUM_MODULE_SOURCE)
            C["models_with_the_enum_in_a_module_of_its_own"] += 1
        C["models_with_the_enum_inside_another_class"] += bool(spec.get("enum_nested") and not spec.get("enum_module"))
        out = run_driver(workdir, modname, spec["order"], 0)
        C["models_generated"] += 1
        key_hint = None
        kinds = {f["kind"] for c in spec["classes"] for f in c["fields"]}
        if any(f["kind"] in ("self_list", "list_ref", "set_ref") and f["target"] == c["name"] for c in spec["classes"] for f in c["fields"]):
            key_hint = "self-list-duplicate-association-column"
        elif not (kinds & {"int", "str", "float", "bool", "opt_int", "opt_str", "opt_float", "list_str", "list_int", "set_str", "set_int"}):
            key_hint = "no-builtin-field-unresolved-builtins"
        if out.get("stage") != "done":
            C["stage_fail:" + str(out.get("stage"))] += 1
            return {"status": "fail", "kind": "pipeline:" + str(out.get("stage")), "key": key_hint,
                    "detail": f"stage={out.get('stage')} {out.get('error')} | classes={[(c['name'], c['parent'], [(f['name'], f['kind'], f['target']) for f in c['fields']]) for c in spec['classes']]}"[:900]}
        problems = compare(spec, out["facts"], C)
        C["in_process_regenerations"] += 1
        if out.get("second_generation_in_process_equal") is False:
            problems.append("a second generation of the same input in the same process differs: " + str(out.get("second_generation_diff"))[:300])
        # determinism: same input, other hash seed, other process
        wd2 = tempfile.mkdtemp(prefix=modname + "-b-", dir=ctx["workroot"])
        shutil.copy(os.path.join(workdir, modname + ".py"), wd2)
        if spec.get("enum_module"):
            shutil.copy(os.path.join(workdir, modname + "_enum.py"), wd2)
        out2 = run_driver(wd2, modname, spec["order"], 12345)
        C["determinism_pairs"] += 1
        if out2.get("stage") != "done":
            problems.append(f"second generation failed at {out2.get('stage')}: {out2.get('error')}")
        elif out2["iface_sha"] != out["iface_sha"]:
            a = open(os.path.join(workdir, modname + "_iface.py")).read().splitlines()
            b = open(os.path.join(wd2, modname + "_iface.py")).read().splitlines()
            diff = [(x, y) for x, y in zip(a, b) if x != y][:2]
            problems.append(f"generation is not deterministic across PYTHONHASHSEEDs: {diff}")
        if spec_case["perm"] != spec["order"]:
            wd3 = tempfile.mkdtemp(prefix=modname + "-c-", dir=ctx["workroot"])
            shutil.copy(os.path.join(workdir, modname + ".py"), wd3)
            if spec.get("enum_module"):
                shutil.copy(os.path.join(workdir, modname + "_enum.py"), wd3)
            out3 = run_driver(wd3, modname, spec_case["perm"], 7)
            C["permuted_pairs"] += 1
            if out3.get("stage") != "done":
                problems.append(f"generation from a permuted class list failed at {out3.get('stage')}: {out3.get('error')}")
            elif out3["facts"] != out["facts"]:
                problems.append("mapper-level content depends on the order of the class list")
            shutil.rmtree(wd3, ignore_errors=True)
        shutil.rmtree(wd2, ignore_errors=True)
        if problems:
            return {"status": "fail", "kind": "generated-layer", "key": None, "detail": "; ".join(problems[:4])[:900]}
        has_inh = any(c["parent"] for c in spec["classes"])
        has_rel = any(f["kind"] in ("ref", "opt_ref", "list_ref", "set_ref", "self_opt") for c in spec["classes"] for f in c["fields"])
        return {"status": "ok", "nontrivial": has_inh and has_rel, "shape": modelgen.shape_signature(spec),
                "obs": {"daos": len(out["facts"]), "tables": len(out["tables"])}}
    finally:
        shutil.rmtree(workdir, ignore_errors=True)
