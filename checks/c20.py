"""C20 - krrood never extends the lifetime of user objects.

Census monitor.  The harness creates Symbol instances, relates them, evaluates queries over them,
then drops every reference it holds (instances, query objects, results) and collects.  Refuting
events: a weak reference that is still alive; an instance that still shows up in a fresh domain-less
query or in the symbol graph's bookkeeping after the sweep; a krrood-held container (found
generically from module globals, class attributes and the SymbolGraph singleton) whose size grows
over k, 2k, 4k loop iterations.  A survivor is attributed by counterfactual ablation: the known
process-wide query registries are emptied and the census repeated - dying now means the listed
finding, still alive means a violation.
"""
from __future__ import annotations

import gc
import weakref
from collections import Counter

ID = "C20"
LEVEL = "exploration"
RULE = ("random histories of {create instances, relate them (every write form), query with an explicit domain, query "
        "domain-less (evaluated to the end, abandoned after the first result, closed, ended by the() finding a second solution), rule query, match pattern, partially consumed iterator} followed by dropping all user references; "
        "histories without any query, and histories whose queries are all domain-less, are checked strictly (everything must die); a domain-less query that the program keeps "
        "is evaluated, part of the instances is dropped, and it is evaluated again (the dropped ones are gone and reclaimed).  Each case also runs its history body "
        "k, 2k, 4k times and compares the sizes of every krrood-held container.  Non-trivial = the history creates and "
        "relates instances and (for the attribution path) evaluates at least one query; distinct = operation-kind "
        "sequence")
ASSUMPTIONS = ["dropping references = deleting every harness-held name and calling gc.collect()",
               "bookkeeping is audited after a sweep triggered through the public API (a fresh domain-less query / "
               "remove_dead_instances)",
               "container discovery and the audit read krrood internals generically; nothing is required to exist by name"]
ANCHORS = ["WrappedInstance.__post_init__", "SymbolGraph.remove_node", "SymbolGraph.remove_dead_instances",
           "MonitoredContainer._bind_owner", "SymbolicExpression.__post_init__", "HashedIterable.__iter__"]

OPS = ["create", "create", "relate", "relate", "q_domain", "q_domainless", "q_rule", "q_match", "q_partial",
       "q_domainless_first", "q_domainless_closed", "q_domainless_the", "q_domainless_rule"]
# queries without a given domain look their values up when they are evaluated and let go of them afterwards: a history
# whose queries are all of these kinds leaves nothing alive, however its evaluations ended
DOMAINLESS_QUERY_OPS = ("q_domainless", "q_domainless_first", "q_domainless_closed", "q_domainless_the", "q_domainless_rule")
KNOWN_GROWING = ("_id_expression_map_", "RWXNode._graph", "lru:", "_symbolic_expression_stack_")


def plan(tier):
    return {"cases": 1500 if tier == "quick" else 20000, "shards": 16, "case_timeout": 120, "shard_timeout": 3000,
            "min_nontrivial": 60,
            "min_counters": {"instances_tracked": 3000, "strict_histories": 100, "query_histories": 200,
                             "size_series_compared": 400, "containers_watched": 2000, "bookkeeping_audits": 400,
                             "long_lived_queries": 300, "explicit_domain_loops": 100,
                             "domainless_only_histories": 40, "abandoned_domainless_evaluations": 400}}


def setup(ctx):
    from models import ontomodel
    ctx["om"] = ontomodel


def gen(rng, tier, ctx):
    with_queries = rng.random() < 0.6
    ops = []
    for _ in range(rng.randint(2, 10)):
        op = rng.choice(OPS if with_queries else OPS[:4])
        ops.append([op, rng.randrange(1000), rng.randrange(1000), rng.choice(["works_for", "member_of_append", "members_add", "sub_org_append", "part_of_append", "head_of", "members_assign"])])
    return {"ops": ops, "k": rng.choice([2, 3, 4]), "longq": rng.choice([None, "entity", "cond", "setof", "rule"])}


def witnesses():
    return {"evaluated-queries-retained": {"ops": [["create", 0, 0, "x"], ["create", 1, 0, "x"], ["q_domain", 0, 0, "x"]], "k": 2},
            "rule-query-results-cached-for-ever": {"ops": [["create", 0, 0, "x"]], "k": 3, "longq": "rule"}}


def body(om, ops, census):
    """one run of the history; every object lives only in this frame"""
    from krrood.entity_query_language.entity import entity, let, inference
    from krrood.entity_query_language.quantify_entity import an
    from krrood.entity_query_language.conclusion import Add
    from krrood.entity_query_language.rule import refinement
    from krrood.entity_query_language.match import entity_matching
    import checks.c14 as c14
    persons, orgs, chiefs = [], [], []
    evaluated = 0
    used = set()
    persons.append(om.Person("seed_p"))
    orgs.append(om.Org("seed_o"))
    for op, i, j, kind in ops:
        if op == "create":
            which = i % 6
            if which < 3:
                persons.append([om.Person, om.Employee, om.Manager][which](f"p{len(persons)}"))
            elif which < 5:
                orgs.append([om.Org, om.Dept][which - 3](f"o{len(orgs)}"))
            else:
                chiefs.append(om.Chief(persons[j % len(persons)]))
        elif op == "relate":
            try:
                c14.apply_op(om, kind, persons, orgs, chiefs, i, j, i + j, used)
            except Exception:
                pass
        elif op == "q_domain":
            x = let(om.Person, list(persons), name="x")
            res = list(an(entity(x, x.name != "nobody")).evaluate())
            evaluated += 1
        elif op == "q_domainless":
            x = let(om.Org, None, name="x")
            res = list(an(entity(x)).evaluate())
            evaluated += 1
        elif op == "q_rule":
            x = let(om.Person, list(persons), name="x")
            v = inference(om.Org)()
            q = an(entity(v, x.name != "nobody"))
            with q:
                Add(v, inference(om.Org)(name="inferred"))
                with refinement(x.name == "seed_p"):
                    Add(v, inference(om.Dept)(name="inferred_dept"))
            res = list(q.evaluate())
            evaluated += 1
        elif op == "q_match":
            res = list(an(entity_matching(om.Person, list(persons))(name="seed_p")).evaluate())
            evaluated += 1
        elif op == "q_domainless_first":
            # an evaluation that is abandoned after its first result
            x = let(om.Org if i % 2 else om.Person, None, name="x")
            it = (an(entity(x)) if j % 2 else an(entity(x, x.name != "nobody"))).evaluate()
            next(iter(it), None)
            del it
            evaluated += 1
        elif op == "q_domainless_closed":
            x = let(om.Org if i % 2 else om.Person, None, name="x")
            it = iter(an(entity(x)).evaluate())
            next(it, None)
            it.close()
            evaluated += 1
        elif op == "q_domainless_the":
            # 'the' gives up at the second solution (seed_p / seed_o always exist: two or more as soon as one was created)
            from krrood.entity_query_language.quantify_entity import the
            x = let(om.Org if i % 2 else om.Person, None, name="x")
            try:
                res = the(entity(x)).evaluate()
            except Exception as e:
                res = None
                del e
            evaluated += 1
        elif op == "q_domainless_rule":
            # a rule tree (with a branch: what it concluded for is remembered per evaluation) over a domain-less variable
            from krrood.entity_query_language.rule import alternative
            from vlib import eqlmodel
            x = let(om.Org if i % 2 else om.Person, None, name="x")
            v = inference(eqlmodel.V)()
            q = an(entity(v, x.name != "nobody"))
            with q:
                Add(v, inference(eqlmodel.V)(tag="base", p=x))
                with alternative(x.name == "nobody"):
                    Add(v, inference(eqlmodel.V)(tag="alt", p=x))
            if j % 3 == 0:
                next(iter(q.evaluate()), None)
            else:
                res = list(q.evaluate())
            evaluated += 1
        elif op == "q_partial":
            x = let(om.Person, iter(list(persons)), name="x")
            it = an(entity(x)).evaluate()
            next(iter(it), None)
            evaluated += 1
    for o in persons + orgs + chiefs:
        census.append(weakref.ref(o))
    return evaluated


def long_lived_query(om, spec, C):
    from krrood.entity_query_language.entity import entity, let, set_of
    from krrood.entity_query_language.quantify_entity import an
    from krrood.entity_query_language.symbol_graph import SymbolGraph
    from vlib import holders
    holders.clear_known_holders()
    SymbolGraph().clear()
    SymbolGraph()
    gc.collect()
    n = 3 + spec["k"] * 2
    form = spec["longq"]
    x = let(om.Org, None, name="x")
    if form == "rule":
        # a rule query (the selected variable is inferred): its results are instances built from the bindings
        from krrood.entity_query_language.entity import inference
        from krrood.entity_query_language.conclusion import Add
        from vlib import eqlmodel
        v = inference(eqlmodel.V)()
        q = an(entity(v, x.name != "nobody"))
        with q:
            Add(v, inference(eqlmodel.V)(tag="seen", p=x))
        del v
    else:
        q = an(entity(x)) if form == "entity" else an(entity(x, x.name != "nobody")) if form == "cond" else an(set_of([x, x.name]))
    orgs = [om.Org(f"lq{i}") for i in range(n)]
    a_ = b_ = None
    if spec.get("k", 0) % 2 == 0:
        # reference cycles among the instances (part_of / has_part are inverse: both ends refer to each other), so
        # only the collector can reclaim them
        for a_, b_ in zip(orgs[n // 2:], orgs[n // 2 + 1:]):
            a_.part_of.append(b_)
        for a_, b_ in zip(orgs[: n // 2], orgs[1: n // 2]):
            a_.part_of.append(b_)
        C["long_lived_queries_with_cycles"] += 1
    first = list(q.evaluate())
    del first
    keep = orgs[: n // 2]
    dropped = [weakref.ref(o) for o in orgs[n // 2:]]
    dropped_names = {o.name for o in orgs[n // 2:]}
    del orgs, a_, b_
    gc.collect()
    second = list(q.evaluate())
    second_names = [(r.p.name if form == "rule" else r.name if form != "setof" else r[x].name) for r in second]
    del second
    gc.collect()
    C["long_lived_queries"] += 1
    out = []
    if set(second_names) & dropped_names:
        out.append(f"a query kept by the program still returns {len(set(second_names) & dropped_names)} instances that the program dropped before this evaluation")
    if sorted(second_names) != sorted(o.name for o in keep) and not out:
        out.append(f"a query kept by the program returns {sorted(second_names)} instead of the kept instances {sorted(o.name for o in keep)}")
    alive = sum(1 for r in dropped if r() is not None)
    if alive:
        out.append(f"{alive} of {len(dropped)} dropped instances are still alive after the kept query was evaluated again")
    third = list(q.evaluate())
    del third
    sg = SymbolGraph()
    try:
        nodes = [w for w in sg._instance_graph.nodes() if not isinstance(w.instance, om.PropertyDescriptor)]
        if len(nodes) != len(keep):
            out.append(f"the graph keeps {len(nodes)} nodes for {len(keep)} live instances after the kept query was evaluated a third time")
    except Exception as e:
        C["long_lived_audit_skipped_internals_differ:" + type(e).__name__] += 1
    del keep, q, x
    return out


def explicit_domain_loop(om, spec, C):
    from krrood.entity_query_language.entity import entity, let
    from krrood.entity_query_language.quantify_entity import an
    from krrood.entity_query_language.symbol_graph import SymbolGraph
    from vlib import holders
    holders.clear_known_holders()
    SymbolGraph().clear()
    SymbolGraph()
    gc.collect()
    kept = [om.Org(f"kept{i}") for i in range(2)]
    per_round, rounds = 2 + spec["k"], 8

    def one_round(r):
        # everything created here lives only in this frame
        orgs = [om.Org(f"r{r}_{i}") for i in range(per_round)]
        person = om.Person(f"r{r}_p")
        person.works_for = orgs[0]
        for a_, b_ in zip(orgs, orgs[1:]):
            a_.part_of.append(b_)
        x = let(om.Org, list(kept), name="x")
        q = an(entity(x)) if spec["longq"] == "entity" else an(entity(x, x.name != "nobody"))
        return len(list(q.evaluate()))

    for r in range(rounds):
        if one_round(r) != len(kept):
            return ["a query over an explicit domain did not return its domain"]
        holders.clear_known_holders()
        gc.collect()
    C["explicit_domain_loops"] += 1
    held = [w for w in SymbolGraph().wrapped_instances if not isinstance(getattr(w, "instance", None), om.PropertyDescriptor)]
    dead = [w for w in held if getattr(w, "instance", None) is None]
    # the evaluation at the start of a round sweeps what earlier rounds left: at most the last round is still there
    bound = len(kept) + 2 * (per_round + 1)
    del kept
    if len(held) > bound:
        return [f"after {rounds} rounds of create / relate / query (explicit domains) / discard the graph keeps {len(held)} wrapped "
                f"instances ({len(dead)} of them dead), one round creates {per_round + 1}: nothing ever sweeps them"]
    return []


def discover_containers():
    """sizes of every sized container reachable from krrood module globals, class attributes and singletons"""
    import sys
    import types
    sizes = {}

    def size_of(obj):
        try:
            if hasattr(obj, "cache_info"):
                return obj.cache_info().currsize
            if hasattr(obj, "num_nodes") and callable(obj.num_nodes):
                return obj.num_nodes()
            if isinstance(obj, (dict, list, set, frozenset, tuple)):
                return len(obj)
        except Exception:
            return None
        return None

    for modname, mod in list(sys.modules.items()):
        if not modname.startswith("krrood"):
            continue
        for name, val in list(vars(mod).items()):
            if name.startswith("__"):
                continue
            if isinstance(val, type) and getattr(val, "__module__", None) == modname:
                for an_, av in list(vars(val).items()):
                    if an_.startswith("__"):
                        continue
                    f = getattr(av, "__func__", av)
                    f = getattr(f, "fget", None) or f
                    if hasattr(f, "cache_info"):
                        s = size_of(f)
                        if s is not None:
                            sizes[f"lru:{modname}.{val.__name__}.{an_}"] = s
                        continue
                    s = size_of(av)
                    if s is not None and not isinstance(av, tuple):
                        sizes[f"{modname}.{val.__name__}.{an_}"] = s
                    # singleton registries keep instances: look one level into them
                    if isinstance(av, dict):
                        for k, inst in list(av.items())[:20]:
                            if hasattr(inst, "__dict__") and type(inst).__module__.startswith("krrood"):
                                for fn, fv in list(vars(inst).items()):
                                    s2 = size_of(fv)
                                    if s2 is not None:
                                        sizes[f"{modname}.{val.__name__}.{an_}[{type(inst).__name__}].{fn}"] = s2
                                    elif isinstance(fv, dict) is False and hasattr(fv, "values") is False:
                                        pass
            elif hasattr(val, "cache_info"):
                s = size_of(val)
                if s is not None:
                    sizes[f"lru:{modname}.{name}"] = s
            elif not isinstance(val, (types.ModuleType, type, types.FunctionType)):
                s = size_of(val)
                if s is not None and not isinstance(val, tuple):
                    sizes[f"{modname}.{name}"] = s
    # nested dict-of-collections in the SymbolGraph singleton (per-class lists, relation index)
    try:
        from krrood.entity_query_language.symbol_graph import SymbolGraph
        sg = SymbolGraph()
        for fn, fv in list(vars(sg).items()):
            if isinstance(fv, dict):
                sizes[f"SymbolGraph.{fn}.total_items"] = sum(len(v) for v in fv.values() if hasattr(v, "__len__"))
            elif hasattr(fv, "num_edges"):
                sizes[f"SymbolGraph.{fn}.edges"] = fv.num_edges()
    except Exception:
        pass
    return sizes


def run(spec, ctx):
    from krrood.entity_query_language.entity import entity, let
    from krrood.entity_query_language.quantify_entity import an
    from krrood.entity_query_language.symbol_graph import SymbolGraph
    from vlib import holders
    om = ctx["om"]
    C = ctx["counters"]
    holders.clear_known_holders()
    SymbolGraph().clear()
    SymbolGraph()
    gc.collect()
    problems, known = [], None
    has_query = any(op[0].startswith("q_") for op in spec["ops"])
    only_domainless = has_query and all(op[0] in DOMAINLESS_QUERY_OPS for op in spec["ops"] if op[0].startswith("q_"))
    C["domainless_only_histories"] += only_domainless
    C["abandoned_domainless_evaluations"] += sum(op[0] in DOMAINLESS_QUERY_OPS[1:] for op in spec["ops"])
    # ---- 1. census for a single run of the history
    census = []
    evaluated = body(om, spec["ops"], census)
    gc.collect()
    C["instances_tracked"] += len(census)
    C["query_histories" if has_query else "strict_histories"] += 1
    survivors = [r() for r in census if r() is not None]
    n_surv = len(survivors)
    names = [repr(o) for o in survivors[:4]]
    del survivors
    if n_surv:
        holders.clear_known_holders()
        gc.collect()
        still = [r() for r in census if r() is not None]
        n_still = len(still)
        first = repr(still[0]) if still else None
        referrers = []
        if still:
            for ref in gc.get_referrers(still[0])[:6]:
                if ref is still:
                    continue
                referrers.append(type(ref).__name__ + ":" + repr(ref)[:80])
        del still
        if n_still:
            problems.append(f"{n_still} of {len(census)} instances survive dropping all references even after krrood's query "
                            f"registries were emptied (e.g. {first}; referrers {referrers[:3]})")
        elif not has_query:
            problems.append(f"{n_surv} instances of a history without any query survive until krrood's registries are emptied: {names}")
        elif only_domainless:
            problems.append(f"{n_surv} of {len(census)} instances of a history whose queries all range over the symbol graph "
                            f"(no domain given) stay alive until krrood's registries are emptied: {names} "
                            f"(queries {[op[0] for op in spec['ops'] if op[0].startswith('q_')]})")
        else:
            known = "evaluated-queries-retained"
            problems.append(f"[known] {n_surv} of {len(census)} instances stay alive after all references were dropped; they die "
                            f"once krrood's process-wide query registries are emptied: {names}")
    # ---- 2. nothing left in a fresh domain-less query / in the bookkeeping after the sweep
    holders.clear_known_holders()
    gc.collect()
    left = list(an(entity(let(om.Symbol, None))).evaluate()) if hasattr(om, "Symbol") else []
    left = [o for o in left if not isinstance(o, om.PropertyDescriptor)] if hasattr(om, "PropertyDescriptor") else left
    if left:
        problems.append(f"a fresh domain-less query still returns {len(left)} instances after everything was dropped: {left[:3]}")
    del left
    holders.clear_known_holders()
    gc.collect()
    SymbolGraph().remove_dead_instances()
    sg = SymbolGraph()
    C["bookkeeping_audits"] += 1
    try:
        n_nodes = len([w for w in sg._instance_graph.nodes()])
        n_live_nodes = len([w for w in sg._instance_graph.nodes() if w.instance is not None and not isinstance(w.instance, om.PropertyDescriptor)])
        idx = len(sg._instance_index)
        per_class = sum(len(v) for v in sg._class_to_wrapped_instances.values())
        rel = sum(len(v) for v in sg._relation_index.values())
        edges = sg._instance_graph.num_edges()
        desc_nodes = n_nodes - n_live_nodes if False else len([w for w in sg._instance_graph.nodes() if isinstance(w.instance, om.PropertyDescriptor)])
        if n_nodes - desc_nodes or per_class - desc_nodes > 0 and per_class != desc_nodes:
            if n_nodes != desc_nodes or per_class != desc_nodes:
                problems.append(f"bookkeeping after the sweep: {n_nodes - desc_nodes} graph nodes, {per_class - desc_nodes} per-class entries for dead instances")
        if idx > desc_nodes:
            problems.append(f"bookkeeping after the sweep: id index keeps {idx - desc_nodes} entries of dead instances")
        if rel or edges:
            problems.append(f"bookkeeping after the sweep: {rel} relation-index pairs / {edges} edges of dead instances")
    except Exception as e:
        # internals organised differently: fall back to the generic container sizes (must all be empty of instances)
        C["bookkeeping_audit_skipped_internals_differ:" + type(e).__name__] += 1
        sizes = discover_containers()
        left_over = {k: v for k, v in sizes.items() if k.startswith("SymbolGraph.") and v}
        if left_over:
            problems.append(f"bookkeeping after the sweep (generic sizes): {left_over}")
    # ---- 3. growth of krrood-held containers over k, 2k, 4k iterations
    k = spec["k"]

    def sample_series(ablate):
        series, done = [], 0
        for target in (k, 2 * k, 4 * k):
            while done < target:
                tmp = []
                body(om, spec["ops"], tmp)
                del tmp
                done += 1
            if ablate:
                holders.clear_known_holders()
            gc.collect()
            SymbolGraph().remove_dead_instances()
            series.append(discover_containers())
        return series

    def growing_paths(series):
        out = []
        for path in series[-1]:
            a, b, c = series[0].get(path, 0), series[1].get(path, 0), series[2].get(path)
            if a < b < c:
                out.append((path, a, b, c))
        return out

    raw = growing_paths(sample_series(False))
    holders.clear_known_holders()
    gc.collect()
    SymbolGraph().remove_dead_instances()
    abl_series = sample_series(True)
    ablated = growing_paths(abl_series)
    series = abl_series
    C["size_series_compared"] += 2
    C["containers_watched"] += len(series[-1])
    if ablated:
        problems.append(f"krrood-held containers grow with the number of loop iterations even with the query registries emptied: {ablated[:4]}")
    elif raw:
        reg = [g for g in raw if any(kw in g[0] for kw in KNOWN_GROWING)]
        if has_query and reg:
            known = known or "evaluated-queries-retained"
            problems.append(f"[known] registries grow with every evaluated query (and keep what the queries ranged over): "
                            f"{sorted({g[0].split('.')[-1] for g in raw})[:5]}")
        else:
            problems.append(f"krrood-held containers grow although no query is evaluated: {raw[:3]}")
    holders.clear_known_holders()
    # ---- 4. a long-lived domain-less query that the program keeps and evaluates again after dropping instances:
    #         what was dropped is not returned any more and is reclaimed
    if spec.get("longq"):
        lq_problems = long_lived_query(om, spec, C)
        problems.extend(lq_problems)
    holders.clear_known_holders()
    # ---- 5. a program whose queries all have explicit domains, and that never sweeps the graph itself: creating,
    #         relating, querying and discarding in a loop must not let the bookkeeping of the discarded instances pile up
    if spec.get("longq") in ("entity", "cond"):
        problems.extend(explicit_domain_loop(om, spec, C))
    holders.clear_known_holders()
    shape = ",".join(op[0] + (":" + op[3] if op[0] == "relate" else "") for op in spec["ops"]) + ("|longq" if spec.get("longq") else "")
    if problems:
        unexplained = [p for p in problems if not p.startswith("[known]")]
        key = known if (known and not unexplained) else None
        return {"status": "fail", "kind": "lifetime", "key": key, "detail": "; ".join((unexplained or problems)[:3])}
    return {"status": "ok", "nontrivial": len(census) >= 3, "shape": shape,
            "obs": {"instances": len(census), "queries": evaluated, "containers": len(series[-1])}}
