"""C10 - queries are lazy: building evaluates nothing, consuming pulls only what it needs.

Event-log monitor.  All user data handed to krrood is instrumented (vlib/lazymodel): one-shot domain
generators log every element pulled, attributes are logging properties, methods / predicates /
symbolic functions log their calls.  An offline checker over the totally ordered log decides:
  * no event between the start of construction and the first next();
  * the log after k results is a prefix of the log of a full run of an identical fresh query, the k
    results are a prefix of the full result sequence, and per domain at most one element more has
    been pulled than the full run had pulled when it produced its k-th result;
  * absolute bounds (these catch a refactoring that materialises a domain up front):
    single-variable queries pull exactly up to the k-th satisfying element (+1 look-ahead allowed),
    two-variable nested queries pull no more outer elements than the outer position of the k-th
    result (+1).
"""
from __future__ import annotations

import itertools

from vlib import eql_engine as G
from vlib import eql_gen as GEN

ID = "C10"
LEVEL = "exploration"
RULE = ("C01's query generator (core, rich, flatten, sub-query, exists, for_all, multi-select families) with every "
        "domain a logging one-shot generator, plus a single-variable and a two-variable nested family with absolute "
        "pull bounds, plus construction-only cases for match patterns and rule trees; every k from 0 to the number of "
        "results (at most 7 values of k per query) is run on a freshly built identical query.  Non-trivial = the query "
        "has >=2 results and >=1 domain with >=2 elements (so that a prefix is distinguishable from the whole); "
        "distinct = query skeleton x domain sizes")
ASSUMPTIONS = ["iter() on a domain is not an event, only __next__ is",
               "one element of look-ahead per domain is tolerated on the bounds (recorded separately)",
               "generator objects passed as literal containers are outside the property and not generated"]
ANCHORS = ["let", "HashedIterable.__iter__", "ResultQuantifier.evaluate", "Variable._evaluate__",
           "symbolic_function", "Predicate.__new__", "CanBehaveLikeAVariable.__getattr__"]

FAMILIES = [("single", 25), ("nested2", 15), ("core", 20), ("rich", 15), ("flat", 6), ("sub", 4), ("E1", 3), ("E2", 3),
            ("forall", 3), ("msb", 3), ("rule", 2), ("match", 3), ("literal", 4), ("one_object", 2)]


def plan(tier):
    return {"cases": 5000 if tier == "quick" else 100000, "shards": 16, "case_timeout": 30, "shard_timeout": 3000,
            "min_nontrivial": 150,
            "min_counters": {"events_logged": 20000, "prefix_checks": 5000, "abs_bound_checks": 1500, "reevaluation_checks": 500,
                             "build_checks": 3000, "pull_events": 5000, "long_domain_cases_with_17_or_more_results": 30, "build_checks_with_a_collection_domain": 500,
                             "build_checks_with_one_object_as_the_domain": 30}}


def setup(ctx):
    from vlib import lazymodel, eqlmodel
    ctx["lm"] = lazymodel
    ctx["m"] = eqlmodel


def recover(ctx):
    ctx["lm"].reset_eql_process_state()


def gen(rng, tier, ctx):
    fams, weights = zip(*FAMILIES)
    fam = rng.choices(fams, weights)[0]
    if fam == "single":
        spec = GEN.gen_core(rng, rich=True, allow_empty=True, max_depth=2, nv=1)
        spec["vars"][0]["dom"] = list(dict.fromkeys(rng.randrange(len(spec["world"])) for _ in range(rng.randint(0, 7))))
        spec["select"] = [["var", "x"]]
        if rng.random() < 0.2:
            # a long domain: laziness must not depend on how many elements were already handed out
            more = G.gen_world(rng, n=rng.randint(30, 60))
            n0 = len(spec["world"])
            for o in more[n0:]:
                o["ref"] = o["ref"] if o["ref"] is not None else rng.randrange(len(more))
            spec["world"] = spec["world"] + more[n0:]
            spec["vars"][0]["dom"] = rng.sample(range(len(spec["world"])), len(spec["world"]))
            spec["long_domain"] = True
    elif fam == "nested2":
        world = G.gen_world(rng)
        vars_ = GEN.gen_vars(rng, world, 2, allow_empty=False)
        for v in vars_:
            v["type"] = "P"
        j = ["cmp", rng.choice(GEN.CMP), ["attr", ["var", "x"], rng.choice("ab")], ["attr", ["var", "y"], rng.choice("ab")]]
        if rng.random() < 0.5:
            j = ["and", ["cmp", rng.choice(GEN.CMP), ["attr", ["var", "x"], rng.choice("ab")], ["lit", rng.randint(0, 2)]], j]
        spec = {"world": world, "vars": vars_, "derived": [], "cond": j, "select": [["var", "x"], ["var", "y"]], "mode": "set_of"}
    elif fam in ("core", "rich"):
        spec = GEN.gen_core(rng, rich=(fam == "rich"))
    elif fam == "flat":
        spec = GEN.gen_flatten(rng)
    elif fam == "sub":
        spec = GEN.gen_subquery(rng)
    elif fam in ("E1", "E2"):
        spec = GEN.gen_exists(rng, fam)
    elif fam == "forall":
        spec = GEN.gen_forall(rng)
    elif fam == "msb":
        spec = GEN.gen_multiselect(rng, True)
    else:
        spec = GEN.gen_core(rng, rich=False, allow_empty=False, nv=1)
        spec["template"] = fam
        spec["tseed"] = rng.randrange(10 ** 6)
    for v in spec["vars"]:
        v["kind"] = "gen"
        if rng.random() < 0.25:
            v["domain_form"] = "collection"     # a user collection instead of a generator: nobody asks it anything at construction
    for d in spec.get("derived", []):
        if d["kind"] == "sub":
            d["var"]["kind"] = "gen"
    spec["family"] = fam
    return spec


def witnesses():
    world = [{"cls": "P", "a": 1, "b": 0, "items": [], "kids": [], "ref": None, "d": {"k": 0}, "name": f"o{i}"} for i in range(4)]
    return {"single-object-domain-probed-while-building": {
        "world": world, "vars": [{"name": "x", "type": "P", "dom": [0, 1, 2, 3], "kind": "gen"}], "derived": [],
        "cond": None, "select": [["var", "x"]], "mode": "entity", "family": "one_object", "template": "one_object", "tseed": 1},
        "product-materialises-domain": {
        "world": world, "vars": [{"name": "x", "type": "P", "dom": [0, 1, 2, 3], "kind": "gen"}], "derived": [],
        "cond": None, "select": [["var", "x"]], "mode": "entity", "family": "single"},
        "product-materialises-domain-predicate-first": {
        "world": world, "vars": [{"name": "x", "type": "P", "dom": [0, 1, 2, 3], "kind": "gen"}], "derived": [],
        "cond": ["cmp", ">", ["fn", "sum_ab", {"x": ["var", "x"]}], ["lit", 0]], "select": [["var", "x"]], "mode": "entity",
        "family": "single"}}


def label(v):
    if isinstance(v, (int, str, bool)) or v is None:
        return v
    return getattr(v, "name", repr(v))


def build_logged(spec, lm):
    objs = G.make_world(spec, lm)
    lm.LOG.clear()
    b = G.build(spec, lm, objs, domain_factory=lm.logging_domain)
    return b, list(lm.LOG)


def construct_template(spec, lm):
    """construction-only cases: rule trees and match patterns over logging data"""
    from krrood.entity_query_language.entity import let, entity, inference
    from krrood.entity_query_language.quantify_entity import an
    from krrood.entity_query_language.conclusion import Add
    from krrood.entity_query_language.rule import refinement, alternative, next_rule
    objs = G.make_world(spec, lm)
    lm.LOG.clear()
    items = [objs[i] for i in spec["vars"][0]["dom"]]
    if spec["template"] == "one_object":
        # a single object as the domain (let(World, world)): it is not asked for its truth value, its length, whether it
        # is iterable or anything else while the query is built
        obj = items[spec["tseed"] % len(items)]
        x = let(lm.P, obj, name="x")
        q = an(entity(x, x.a >= -10 ** 9)) if spec["tseed"] % 2 else an(entity(x))
        built = list(lm.LOG)
        res = list(q.evaluate())
        if len(res) != 1 or res[0] is not obj:
            raise AssertionError(f"let(P, <one object>) ranges over {res!r}, not over the object")
        return built, 1
    x = let(lm.P, lm.logging_domain({"name": "x"}, items), name="x")
    if spec["template"] == "rule":
        v = inference(lm.V)()
        q = an(entity(v, x.a >= 1))
        with q:
            Add(v, inference(lm.V)(tag="base", p=x))
            with refinement(x.b >= 1):
                Add(v, inference(lm.V)(tag="ref", p=x))
                with alternative(lm.AGreater(x, 0)):
                    Add(v, inference(lm.V)(tag="alt", p=x))
            with next_rule(x.m(1) > 1):
                Add(v, inference(lm.V)(tag="next", p=x))
        built = list(lm.LOG)
        res = [(r.tag, r.p.name) for r in q.evaluate()]
        return built, len(res)
    if spec["template"] == "literal":
        return literal_template(spec, lm, x, items)
    raise ValueError(spec["template"])


class LoggedValue:
    """a plain value whose truth value / length / iteration is user code"""

    def __init__(self, log, n):
        self.log, self.n = log, n

    def __bool__(self):
        self.log.append(("bool", "value", self.n))
        return True

    def __eq__(self, other):
        return isinstance(other, LoggedValue) and other.n == self.n

    def __hash__(self):
        return hash(self.n)

    def __repr__(self):
        self.log.append(("repr", "value", self.n))
        return f"LoggedValue({self.n})"

    def __str__(self):
        self.log.append(("str", "value", self.n))
        return f"LoggedValue({self.n})"


def literal_template(spec, lm, x, items):
    """plain values and one-shot iterables written into a query as literals: nothing of them is consumed or asked while
    the query is built, and a one-shot iterable given to flatten() still has its elements when the query runs"""
    import random
    from krrood.entity_query_language.entity import entity, flatten, in_, contains
    from krrood.entity_query_language.quantify_entity import an
    rng = random.Random(spec["tseed"])
    kind = rng.choice(["flatten_gen", "in_gen", "eq_value", "in_values", "index_key", "concluded_value", "call_argument"])
    vals = [rng.randint(0, 3) for _ in range(rng.randint(1, 5))]

    def logged_iter():
        for i, v in enumerate(vals):
            lm.LOG.append(("pull", "lit", i))
            yield v

    expect = None
    if kind == "flatten_gen":
        q = an(entity(flatten(logged_iter())))
        expect = list(vals)
    elif kind == "in_gen":
        q = an(entity(x, in_(x.a, logged_iter())))
    elif kind == "eq_value":
        q = an(entity(x, x.name == LoggedValue(lm.LOG, 1)))
    elif kind == "index_key":
        # a user object as the key of a symbolic subscript: its label is not rendered from the object
        q = an(entity(x, x.name[LoggedValue(lm.LOG, 1)] == 1))
    elif kind == "call_argument":
        q = an(entity(x, x.name.count(LoggedValue(lm.LOG, 1)) == 1))
    elif kind == "concluded_value":
        # a plain user object as the value of a conclusion
        from krrood.entity_query_language.entity import inference
        from krrood.entity_query_language.conclusion import Add
        v = inference(LoggedValue)()
        q = an(entity(v, x.a >= 0))
        with q:
            Add(v, LoggedValue(lm.LOG, 1))
    else:
        q = an(entity(x, in_(x.name, [LoggedValue(lm.LOG, 1), LoggedValue(lm.LOG, 2)])))
    built = list(lm.LOG)
    try:
        res = list(q.evaluate())
    except Exception:
        return built, 0
    if expect is not None and not built and list(res) != expect:
        built = [("flatten of a one-shot iterable yielded", res, "instead of", expect)]
    return built, len(res)


def match_template_queries(spec, lm):
    """-> make(): builds the pattern query over fresh LS objects and a logging one-shot domain"""
    import random
    from krrood.entity_query_language.quantify_entity import an
    from krrood.entity_query_language.match import entity_matching, match, match_any
    rng = random.Random(spec["tseed"])
    n = rng.randint(1, 6)
    world = [(rng.choice(["LS", "LS2"]), rng.randint(0, 1), [rng.randrange(n) for _ in range(rng.randint(0, 2))]) for _ in range(n)]
    kind = rng.choice(["lit", "nested", "any", "subtype", "var", "var_nested"])
    var_values = [rng.randint(0, 1) for _ in range(rng.randint(1, 3))]

    def make():
        objs = [getattr(lm, c)(name=f"s{i}", a=a) for i, (c, a, _) in enumerate(world)]
        for o, (_, _, ps) in zip(objs, world):
            object.__setattr__(o, "parts", [objs[j] for j in ps])
        lm.LOG.clear()
        dom = lm.logging_domain({"name": "x"}, objs)
        if kind == "lit":
            pat = entity_matching(lm.LS, dom)(a=1)
        elif kind == "subtype":
            pat = entity_matching(lm.LS2, dom)(a=0)
        elif kind == "nested":
            pat = entity_matching(lm.LS, dom)(parts=match(lm.LS)(a=1))
        elif kind in ("var", "var_nested"):
            # the constrained attribute is assigned a VARIABLE over a one-shot generator of the user
            from krrood.entity_query_language.entity import let

            def wanted():
                for i, v in enumerate(var_values):
                    lm.LOG.append(("pull", "wanted", i))
                    yield v
            w = let(int, wanted(), name="wanted")
            pat = entity_matching(lm.LS, dom)(a=w) if kind == "var" else entity_matching(lm.LS, dom)(parts=match(lm.LS)(a=w))
        else:
            pat = entity_matching(lm.LS, dom)(parts=match_any([objs[0]]))
        q = an(pat)
        return q, list(lm.LOG), objs

    return make, kind


def run_match_template(spec, ctx):
    import itertools as it_
    from krrood.entity_query_language.symbol_graph import SymbolGraph
    lm = ctx["lm"]
    C = ctx["counters"]
    SymbolGraph().clear()
    SymbolGraph()
    make, kind = match_template_queries(spec, lm)
    try:
        q, built, objs = make()
    except Exception as e:
        recover(ctx)
        return {"status": "fail", "kind": "template-exception", "key": None, "detail": f"match/{kind}: {e!r}"[:300]}
    C["build_checks"] += 1
    C["match_templates"] += 1
    if built:
        return {"status": "fail", "kind": "build-time-event", "key": None,
                "detail": f"constructing a match pattern ({kind}) evaluated user data: {built[:5]}"}
    it = q.evaluate()
    if lm.LOG:
        return {"status": "fail", "kind": "evaluate()-call-event", "key": None, "detail": f"match/{kind}: {lm.LOG[:5]}"}
    results, results_at = [], []
    try:
        for r in it:
            results.append(getattr(r, "name", repr(r)))
            results_at.append(len(lm.LOG))
    except Exception:
        C["evaluation_raises"] += 1
        return {"status": "skip"}
    full = list(lm.LOG)
    C["events_logged"] += len(full)
    C["pull_events"] += sum(1 for e in full if e[0] == "pull")
    problems = []
    for k in range(0, len(results) + 1):
        q2, built2, _ = make()
        got = [getattr(r, "name", repr(r)) for r in it_.islice(q2.evaluate(), k)]
        part = list(lm.LOG)
        C["prefix_checks"] += 1
        if got != results[:k]:
            problems.append(f"k={k}: results {got} are not a prefix of {results}")
        if part != full[:len(part)]:
            problems.append(f"k={k}: event log is not a prefix of the full run's log")
        elif k == 0 and part:
            problems.append(f"k=0: events without any result requested: {part[:4]}")
        else:
            cut = results_at[k - 1] if k else 0
            pulled = sum(1 for e in part if e[0] == "pull")
            pulled_full = sum(1 for e in full[:cut] if e[0] == "pull")
            if pulled > pulled_full + 1:
                problems.append(f"k={k}: {pulled} elements pulled, the full run had pulled {pulled_full} at result {k}")
    if problems:
        return {"status": "fail", "kind": "laziness", "key": None, "detail": f"match/{kind}: " + "; ".join(problems[:3])}
    return {"status": "ok", "nontrivial": len(results) >= 2, "shape": f"template:match:{kind}:{len(results)}",
            "obs": {"results": len(results), "events": len(full)}}


def _first_binder_is_product(spec):
    """the selected variable is first bound by krrood's combination product (no condition at all, or the
    first-evaluated atom is a Predicate / HasType / symbolic function), which drains the domain up front"""
    c = spec.get("cond")
    if c is None:
        return True
    while c[0] in ("and", "or", "not"):
        c = c[1]
    return G.has_pred_like(c)


def run(spec, ctx):
    lm, m = ctx["lm"], ctx["m"]
    C = ctx["counters"]
    fam = spec["family"]
    C["family:" + fam] += 1
    if spec.get("template") == "match":
        return run_match_template(spec, ctx)
    if spec.get("template"):
        try:
            built, n = construct_template(spec, lm)
        except Exception as e:
            recover(ctx)
            return {"status": "fail", "kind": "template-exception", "key": None, "detail": repr(e)[:300]}
        C["build_checks"] += 1
        C["build_checks_with_one_object_as_the_domain"] += spec["template"] == "one_object"
        if built:
            return {"status": "fail", "kind": "build-time-event", "key": None,
                    "detail": f"constructing a {spec['template']} evaluated user data: {built[:5]}"}
        return {"status": "ok", "nontrivial": False, "shape": "template:" + spec["template"]}

    # 1. construction must not touch user data
    try:
        b, built = build_logged(spec, lm)
    except Exception as e:
        recover(ctx)
        C["build_raises"] += 1
        return {"status": "skip"}
    C["build_checks"] += 1
    C["build_checks_with_a_collection_domain"] += any(v.get("domain_form") == "collection" for v in spec["vars"])
    if built:
        return {"status": "fail", "kind": "build-time-event", "key": None,
                "detail": f"construction evaluated user data: {built[:6]} | {G.skeleton(spec)}"}
    # obtaining the iterator must not touch user data either
    it = b.query.evaluate()
    if lm.LOG:
        return {"status": "fail", "kind": "evaluate()-call-event", "key": None,
                "detail": f"evaluate() before the first next() evaluated user data: {lm.LOG[:6]}"}
    # 2. full run
    results, results_at = [], []
    try:
        for r in it:
            results.append(tuple(label(v) for v in G.row_of(r, b, spec)))
            results_at.append(len(lm.LOG))
    except Exception:
        C["evaluation_raises"] += 1      # C01's business (known findings live there)
        return {"status": "skip"}
    full = list(lm.LOG)
    C["events_logged"] += len(full)
    C["pull_events"] += sum(1 for e in full if e[0] == "pull")
    total = len(results)
    ks = list(range(0, total + 1))
    if len(ks) > 7:
        ks = sorted(set([0, 1, 2, total - 1, total] + ks[3:-2:max(1, (total - 4) // 2)]))[:7]
    dom_names = sorted({e[1] for e in full if e[0] == "pull"})

    def pulls(log):
        c = {n: 0 for n in dom_names}
        for e in log:
            if e[0] == "pull":
                c[e[1]] = c.get(e[1], 0) + 1
        return c

    problems = []
    exact = 0
    known_key, unknown_seen = None, False
    for k in ks:
        b2, built2 = build_logged(spec, lm)
        it2 = b2.query.evaluate()
        try:
            got = [tuple(label(v) for v in G.row_of(r, b2, spec)) for r in itertools.islice(it2, k)]
        except Exception as e:
            problems.append(f"k={k}: partial run raised {type(e).__name__}")
            break
        part = list(lm.LOG)
        C["prefix_checks"] += 1
        if got != results[:k]:
            problems.append(f"k={k}: first k results {got[:3]} are not a prefix of the full result sequence {results[:3]}")
        if part != full[:len(part)]:
            first = next(i for i, (a_, b_) in enumerate(itertools.zip_longest(part, full)) if a_ != b_)
            problems.append(f"k={k}: event log is not a prefix of the full run's log (first difference at event {first}: "
                            f"{part[first] if first < len(part) else None} vs {full[first] if first < len(full) else None})")
            continue
        cut = results_at[k - 1] if k > 0 else 0
        if k == 0 and part:
            problems.append(f"k=0: {len(part)} events although no result was requested: {part[:4]}")
        if len(part) == cut:
            exact += 1
        pf, pp = pulls(full[:cut]), pulls(part)
        for n in dom_names:
            if pp[n] > pf[n] + 1:
                problems.append(f"k={k}: domain {n} had {pp[n]} elements pulled, the full run had pulled {pf[n]} when it produced result {k}")
    C["exact_cut_equalities"] += exact
    # 3. absolute bounds
    if fam in ("single", "nested2") and not problems and total > 0:
        twin = G.make_world(spec, m)
        C["long_domain_cases_with_17_or_more_results"] += bool(spec.get("long_domain")) and total >= 17
        if fam == "single":
            v = spec["vars"][0]
            T = getattr(m, v["type"])
            sat_pos = []
            for pos, i in enumerate(v["dom"]):
                o = twin[i]
                if not isinstance(o, T):
                    continue
                s1 = dict(spec, vars=[dict(v, dom=[i], kind="list")])
                try:
                    if G.oracle(s1, m, twin):
                        sat_pos.append(pos + 1)
                except G.OracleError:
                    sat_pos = None
                    break
            if sat_pos is not None and len(sat_pos) == total:
                for k in [x for x in ks if x > 0]:
                    cut = results_at[k - 1]
                    n_pulled = sum(1 for e in full[:cut] if e[0] == "pull" and e[1] == v["name"])
                    C["abs_bound_checks"] += 1
                    if n_pulled == sat_pos[k - 1]:
                        C["abs_bound_exact"] += 1
                    if n_pulled > sat_pos[k - 1] + 1:
                        problems.append(f"single-variable query pulled {n_pulled} domain elements for result {k}; "
                                        f"the {k}-th satisfying element is at position {sat_pos[k - 1]}")
                        known_key = None
                        unknown_seen = True
        else:
            vx = spec["vars"][0]
            xs = [i for i in vx["dom"]]
            name_to_pos = {twin[i].name: p + 1 for p, i in enumerate(xs)}
            for k in [x for x in ks if x > 0]:
                cut = results_at[k - 1]
                n_pulled = sum(1 for e in full[:cut] if e[0] == "pull" and e[1] == "x")
                outer_pos = name_to_pos.get(results[k - 1][0])
                C["abs_bound_checks"] += 1
                if outer_pos is not None and n_pulled > outer_pos + 1:
                    problems.append(f"nested query pulled {n_pulled} outer elements for result {k} whose outer element is at position {outer_pos}")
                # the inner domain: while the first outer element is still being joined, only a prefix of the second
                # variable's domain up to the result's inner element is needed
                vy = spec["vars"][1]
                inner_to_pos = {}
                for p_, i in enumerate(vy["dom"]):
                    inner_to_pos.setdefault(twin[i].name, p_ + 1)
                inner_pos = inner_to_pos.get(results[k - 1][1])
                y_pulled = sum(1 for e in full[:cut] if e[0] == "pull" and e[1] == "y")
                first_outer = n_pulled <= 1
                if first_outer and inner_pos is not None:
                    C["inner_bound_checks"] += 1
                    if y_pulled > inner_pos + 1:
                        problems.append(f"join pulled {y_pulled} elements of the second domain for result {k}, which pairs the first "
                                        f"outer element with the inner element at position {inner_pos}")
                        unknown_seen = True
    # 4. history: a partially consumed evaluation is abandoned, then the same query object is evaluated again
    if fam in ("single", "nested2") and not problems and total > 0 and known_key is None:
        import random as _r
        rr = _r.Random(len(full) * 31 + total)
        k1, k2 = rr.randint(0, total), rr.randint(0, total)
        b3, _ = build_logged(spec, lm)
        it3 = b3.query.evaluate()
        first = [tuple(label(v) for v in G.row_of(r, b3, spec)) for r in itertools.islice(it3, k1)]
        if hasattr(it3, "close"):
            it3.close()
        mid = len(lm.LOG)
        second = [tuple(label(v) for v in G.row_of(r, b3, spec)) for r in itertools.islice(b3.query.evaluate(), k2)]
        C["reevaluation_checks"] += 1
        if first != results[:k1] or second != results[:k2]:
            C["reevaluation_result_differs"] += 1       # C03's business
        else:
            need = results_at[max(k1, k2) - 1] if max(k1, k2) > 0 else 0
            pf, pp = pulls(full[:need]), pulls(list(lm.LOG))
            for n in dom_names:
                if pp[n] > pf[n] + 1:
                    problems.append(f"re-evaluation after {k1} results: {pp[n]} elements of domain {n} pulled in total for "
                                    f"{k1} then {k2} results; a single run needs {pf[n]} for {max(k1, k2)} results")
    if problems:
        return {"status": "fail", "kind": "laziness", "key": (None if unknown_seen else known_key),
                "detail": "; ".join(problems[:4]) + " | " + G.skeleton(spec)}
    big = any(len(v["dom"]) >= 2 for v in spec["vars"])
    return {"status": "ok", "nontrivial": total >= 2 and big, "shape": G.skeleton(spec),
            "obs": {"results": total, "events": len(full), "ks": ks, "exact_cut": exact}}
